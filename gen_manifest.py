#!/usr/bin/env python3
"""Regenerates MANIFEST.json from the tables below (kept valid against /root/.vp/MANIFEST.schema.json)."""
import json
import os

HERE = os.path.dirname(os.path.abspath(__file__))

TECH_V = "contract-based deductive verification: Verus (SMT) on the real functions, re-extracted from /repo on every run, with spliced contracts"
TECH_K = "contract-based verification: Kani/CBMC loop-free harnesses over the full input domain on the real functions/tables, re-extracted from /repo on every run"

CHECKS = {
 "C03": dict(engine="verus", category="proof",
   text="PARTIAL: soundness of the predicate-implication judgement Context::is_super_pred_of on the predicates the statement speaks about - comparison atoms over integer constants, True/False and conjunctions of them of unbounded depth (all class pairs except And x And): whenever it answers true, every integer satisfying the right predicate satisfies the left one. TyParamOrdering::canbe_eq/canbe_le/canbe_ge/is_lt/is_gt are verified on exact orderings. Verus, real function text, recursion proved with a decreases measure.",
   note="Assumed callee contracts (not proved): Context::try_cmp and supertype_of_tp on integer-constant TyParams (exact ordering / equality), TyParam::has_upper_bound/has_lower_bound (true), TyParam::eq complete on integer constants; the sat axioms are the specification. Not carried: (And, And), (Or, Or), (lhs, Or), (Or, rhs), Call, General* arms (R2-erased: iterator/closure/Set::get_by/reduce_preds) and the callers (structural_supertype_of, unify). The observed defect in the (And, And) arm is outside what this check can report.",
   technique=TECH_V + "; callee contracts assumed; class copies per constructor pair"),
 "C25": dict(engine="verus", category="other",
   text="Deductive proof (Verus) with one obligation left undischarged as a listed known finding, hence not claimed at proof level. PARTIAL: the Rust client's message framing (src/dummy.rs). send_msg appends exactly frame(msg) = [inst, size hi, size lo] ++ data; recv_msg returns exactly the message described by the pending bytes and leaves the rest untouched (and succeeds whenever a whole message is pending); Inst::from inverts the discriminant table; with lemma_decode_frame: every message with size == len(data) is decoded exactly as sent whatever follows it, so a sequence of sends is received in step. Verus on the real text; the transport is a ghost byte pipe obeying std's read_exact/write_all contracts (which is what makes decoding independent of how the stream is split).",
   note="Known finding (listed in known_findings.txt, reproduced on the real code through the guarded hook): Message::new does not establish size == len(data) for payloads above 65535 bytes, after which the stream desynchronises; because of it the evidence level is reported as 'other' (one obligation of the set stays undischarged). Not carried: src/scripts/repl_server.py (socket.recv(3) may return fewer bytes), DummyVM::eval's use of the messages, transport errors.",
   technique=TECH_V + "; ghost byte pipe for the transport; counterexample replayed through verif_hooks::frame_and_decode"),
 "C32": dict(engine="verus", category="proof",
   text="For all predicate trees over one integer variable (unbounded depth), Predicate::and / or / invert return a predicate whose set of satisfying integers is exactly the intersection / union / complement (sat(res, i) == sat(l, i) && / || sat(r, i), == !sat(p, i)); eq/ne/ge/le/gt/lt denote the comparison they name. Verus on the real text of the nine functions; `and` proved terminating.",
   note="The denotation sat is axiomatised by constructor (the axioms are the specification, listed in trusted_base; consistent by well-founded recursion on finite trees). Assumed: PartialEq on Predicate/TyParam/Str is sound (true implies equal), erg_common Set::union/insert and the set! macro behave as sets; all atoms speak about the one refinement variable. invert on GeneralLessEqual/GeneralGreaterEqual (expression-level atoms outside the statement) is excluded by precondition.",
   technique=TECH_V + "; denotation axiomatised by constructor"),
 "C04": dict(engine="verus+kani", category="proof",
   text="Every obligation generated from the current source of ValueObj::try_{add,sub,mul,floordiv,mod,pow,gt,ge,lt,le,eq,ne,or}, From<i32>/From<bool> for ValueObj, checked_floordiv_i32/checked_floormod_i32, Context::eval_unary_val and the dispatchers Context::eval_bin / ValueObj::try_binary (each operator reaches the try_* function computing that operator) is discharged by Verus for all Int/Nat/Bool operands (no overflow, no division by zero, result equals the Python value or is None); Float classes, try_div and the float helpers' zero-divisor behaviour are discharged by loop-free full-domain Kani harnesses.",
   note="Assumed: vstd's specs of checked_* integer ops and of Rust's truncating / and %; std contracts of i32/u64::checked_pow and checked_neg (wrappers); the value part of checked_truediv (IEEE quotient) and float_divmod (CPython transcription) - CBMC cannot decide full-domain f64 division/fmod; f64 powf/powi (try_pow Float classes not carried); Nat operands above 2**53 in int/int true division. eval_const_bin/eval_const_expr above eval_bin (token -> OpKind, operand evaluation) are not under contract. Non-scalar arms (Str, List, Dict, Type) are R2-erased.",
   technique=TECH_V + " (class-copied contracts) + Kani/CBMC loop-free harnesses; counterexamples replayed on the real crate"),
 "C06": dict(engine="kani+replay", category="proof",
   text="PARTIAL. Proof part: the fast subtyping judgement on the fieldless built-in types (Obj, Never, Int, Nat, Ratio, Float, Complex, Bool, Str, NoneType, Code, Frame, Error, Inf, NegInf, Type, ClassType, TraitType, Patch, NotImplementedType, Ellipsis, Failure). For all pairs Context::cheap_supertype_of answers with certainty and Context::supertype_of equals it; the relation is reflexive; transitive over all triples (Failure excluded: it is deliberately both top and bottom); Never is below and Obj above every type and nothing else is; Bool <: Nat <: Int <: Ratio <: Float <: Complex holds strictly and the numeric classes are unrelated to the other value classes. Kani loop-free over all variant pairs/triples on the real table (complete for this finite domain). Bounded part, NOT counted as proved: a run-time-checked contract on the real Context::subtype_of (builtin context) over Never, Obj, 8 built-in classes, all unions of 2 (thorough: and 3) and intersections of 2 of {Bool, Nat, Int, Float, Str, NoneType} and 7 value enums: reflexive, bottom/top, tower, T <: (T or U), (T and U) <: T, enum below its class, union semantics, transitivity over all triples (35 k checks; thorough 110 k). It reports one finding per offending pair; the pairs listed in known_findings.txt are printed as KNOWN-FINDING.",
   note="KNOWN FINDING (genuine, recorded, not repaired): the checker accepts {1} <: Bool and Bool <: (Bool or Str) but rejects {1} <: (Bool or Str) (likewise for intersections): transitivity fails for a refinement against a union/intersection. Not carried deductively: unions, intersections, refinements, polymorphic containers, user classes and traits (structural_supertype_of / nominal_supertype_of use hash sets, closures over iterators and unification: outside Verus and Kani); they are covered only by the bounded contract above. Arms of the table that bind erased payloads (Mono, Subr, Poly, FreeVar, ...) are R2-erased. Derived PartialEq on fieldless variants is structural.",
   technique=TECH_K + "; plus run-time-checked contract on the real Context::subtype_of, exhaustive over a stated bounded universe of types (bounded stand-in, not counted)"),
 "C08": dict(engine="verus", category="proof",
   text="The WHOLE token iterator of the lexer (erg_parser/lex.rs Iterator::next with every function it calls; Token::new in token.rs; real text, Verus, for texts of up to 2**26-16 chars). One contract on Iterator::next, proved for every input: starting from the constructors' state (lemma_initial_state) every call keeps the invariant next_inv and never panics (no unwrap on None, no index, counter or column overflow, the interpolation stack never popped below its sentinel), returns None exactly after EOF, and every yielded item strictly decreases a natural-number measure, so `lex()` terminates with at most 2*(2*len+6) items. Indentation bookkeeping is exact: an Indent token opens exactly one level, a Dedent closes exactly one, no other Ok token touches the stack and EOF is only produced when every level is closed - an accepted text has as many Dedents as Indents. Positions: while the cursor is inside the text, every Ok step keeps pos_ok (column of the next token == number of source chars since the start of its line, line start exact), every token is emitted at the column/line recorded when its first char is consumed (emit_* contracts), after string literals with escapes, multi-line strings, comments, blank lines inside brackets and line continuations. The callees (consume/peek_*, emit_*, sync_col, accept, lex_comment, lex_multi_line_comment, lex_space_indent_dedent, lex_indent_dedent, lex_num/lex_num_dot/lex_ratio/lex_exponent/lex_bin/lex_oct/lex_hex, lex_symbol, lex_raw_ident, lex_single_str, lex_multi_line_str, lex_interpolation_mid, is_valid_*_symbol_ch, op_fix) are each under their own contract with loop invariants and decreases measures. A bounded replay of probe texts on the real lexer (position oracle: literal tokens are found in the source where they are reported) runs next to the proof in the thorough tier and as fallback.",
   note="Iterator::next is verified as 36 arm-group copies of the same verbatim text and contract (R2c: every arm of the top-level match keeps its body in exactly one copy). NOT verified (replaced by stubs, listed in trusted_base): the keyword table of lex_symbol (match on str literals; any non-layout kind assumed), the closure-fold over the indent stack in lex_indent_dedent (only: sum over an empty stack is 0), is_definable_operator, is_zero, the TokenKind::category table content, unicode_xid predicates (assumed: never true for line break/space), std String/Vec operations (wrappers), literal lengths computed by the rewriter (R9). The constructors Lexer::new/from_str are checked textually against initial_state, not verified (normalize_newline, chars().collect()). Position faithfulness is claimed for Ok steps (after a reported error positions are not claimed) and for the column/line bookkeeping; that a token's CONTENT equals its source text is not carried (strings are abstracted by length). Texts above 2**26-16 chars are outside the claim. Stack depth is not modelled (the recursion that overflowed the stack was found by reading and is fixed; the unit now rejects recursion in next as 'undecided' and the replay probes cover it).",
   technique=TECH_V + "; one step contract (step_ok) on Iterator::next with representation invariant next_inv, termination measure, indentation and position bookkeeping; loop invariants and decreases spliced by loop ordinal; vacuity probes"),
 "C11": dict(engine="verus+kani", category="proof",
   text="PARTIAL (binary operators and the operand of a prefix operator; member access, calls and parentheses are atoms): (Verus, real text of Parser::try_reduce_expr_above / try_reduce_expr / try_reduce_chunk / try_reduce_unary and collect_last_binop_on_stack, unbounded length) for every token sequence operand (op operand)* the operator-stack reduction returns the unique tree whose in-order token sequence is exactly the consumed input and in which every operator node has only operators of precedence >= its own in the left operand and > its own in the right operand (precedence order + left grouping, w.r.t. TokenKind::precedence), it stops only where no acceptable operator follows, the enum_unwrap!/compiler_bug arms are unreachable and the loops terminate; the operand of a prefix operator contains exactly the operators that bind at least as tightly as the prefix operator. (Kani, loop-free over all token kinds) TokenKind::precedence orders the operators exactly as the documented table (member access > ** > prefix > * / // % > + - > shifts > && > ^^ > || > ranges > comparisons > and > or), none of them is right-associative, brackets bind weaker than every operator.",
   note="Assumed: the contract of Parser::try_reduce_bin_lhs (returns one operand, an atom of this invocation's tree, consuming its tokens), peek/lpop as front/pop_front of the token stream, BinOp::new/UnaryOp::new/Expr::BinOp store their arguments. Executions through the other arms of the token match (lambda, type ascription, member access after a non-name receiver, subscript, tuple, default parameter, pipeline, definition, call without parentheses) are outside the proof (their guards are kept, their bodies assumed away). Lexer::op_fix (prefix/infix classification, minus before a literal), method calls and parentheses are covered only by the replay search (real lexer+parser against a reference precedence-climbing parser on ~15,000 expressions; thorough 60,000), which is bounded and not counted as proof.",
   technique=TECH_V + "; stack invariant (alternating shape, strictly ascending pending operators, neighbour conditions) spliced by loop ordinal; " + TECH_K),
 "C21": dict(engine="replay", category="exploration",
   text="BOUNDED, not a proof. No deductive back end reaches ModuleGraph/tsort (hash collections: Kani did not finish a 2-node tsort in 25 minutes; Verus rejects iter().find(closure), iter_mut(), retain(closure)). The contracts are executable predicates checked at run time after EVERY operation of EVERY operation sequence (add_node_if_none, inc_ref, remove, rename_path, sort) up to length 4 over 3 module paths (thorough: length 5 over 3 paths and length 4 over 4 paths) on the real ModuleGraph, against a plain reference graph: registered modules, get_node, depends_on, deep_depends_on, ancestors, children for every path (pair); inc_ref refused <=> the edge closes a cycle, and then the edge set is unchanged; sorted lists every module after its dependencies and fails only on a cycle.",
   note="Exhaustive only up to the stated bound. Import edges are added between registered modules (the harness registers the target first); rename targets are fresh paths. SharedModuleGraph (locking) is not exercised.",
   technique="run-time-checked contracts on the real code, exhaustive enumeration of operation sequences up to a stated bound (bounded stand-in for contract verification)"),
 "C28": dict(engine="kani", category="other",
   text="BOUNDED, not a proof. els::util::pos_to_byte_index (real text, Kani with unwinding bound and unwinding assertions) on every valid UTF-8 document of at most 4 bytes (multi-byte and astral characters, LF and CRLF) and every position with line <= 3, character <= 4: the result is <= len, on a char boundary (so String::replace_range in incremental_update cannot panic) and equals the byte index the LSP position denotes (UTF-16 code units; an offset past the end of a line means the end of that line). Second stand-in (run-time-checked contract through a guarded hook): for every document of up to 2 characters over {a, e-acute, astral, LF} and every didChange notification with one or two small changes (about 400,000 notifications), the copy kept by the real FileCache::incremental_update equals the copy of an independent LSP reference editor and the server does not panic.",
   note="Only documents up to the stated size. Histories of several notifications, full-document sync and the rest of the server loop are not carried.",
   technique="Kani bounded harness (stated unwinding bound) on the extracted real function against an independent LSP position spec; counterexamples replayed through the guarded hook"),
 "C31": dict(engine="replay", category="exploration",
   text="BOUNDED, not a proof. std::path::Components is outside Verus and a Kani harness over 4 symbolic path bytes did not finish in 15 minutes, so the contracts are executable predicates checked on the real cheap_canonicalize_path / normalize_path / NormalizedPathBuf::new for EVERY path of up to 8 components (the property's own bound; thorough: 10) over {., .., a, b}, relative and absolute: normalisation is idempotent, the number of leading `..` of a relative path is preserved, and two paths with the same normal form have the same lexical resolution (name the same file).",
   note="Exhaustive only up to the stated bound and alphabet; symlinks, case-insensitive file systems and Windows prefixes are not exercised.",
   technique="run-time-checked contracts on the real code, exhaustive enumeration of paths up to a stated bound (bounded stand-in for contract verification)"),
 "C24": dict(engine="kani", category="proof",
   text="PARTIAL: the location calculus every diagnostic position is built with. Location::concat/left_main_concat/stream give the exact span for two ranges, a well-formed result for well-formed operands in source order, never invent a line, and are Unknown only if both operands are; accessors and Locational defaults return the stored coordinates; Token::loc places a token on its own line between its columns. Kani loop-free over all u32 coordinates (complete).",
   note="Not carried: that lowering attaches the right node's location to each error, that callers pass operands in source order, format_context/format_code_and_pointer rendering (string formatting over StyledStrings), and column bookkeeping in the lexer (C08).",
   technique=TECH_K),
 "C14": dict(engine="verus", category="proof",
   text="PARTIAL: the bookkeeping primitives every emitted code object is built with (codegen.rs, real text, Verus). stack_inc/stack_inc_n/stack_dec/stack_dec_n keep stack_len <= stacksize (the declared stack size never falls behind the tracked depth), never overflow or underflow, and change nothing else; write_instr/write_bytes/write_arg/extend_arg/edit_code keep lasti == code.len(); an argument above 255 is encoded as EXTENDED_ARG prefixes that CPython decodes to exactly that argument, inserted in front of its opcode with every other byte untouched, and the returned shift equals the bytes inserted; fill_jump writes the 16-bit jump argument (byte offset up to 3.9, instruction offset from 3.10) into the reserved EXTENDED_ARG/jump pair and nothing else; push_lnotab appends (sdelta, ldelta) pairs whose sums equal the code emitted and the lines advanced since the last entry, keeps the table even-length with ldelta <= 127, and terminates.",
   note="Preconditions are the callers' obligations and are NOT carried: that each emit_* reports the interpreter's true stack effect (the larger half of 'stack size >= reachable depth'), that jump targets handed to fill_jump are instruction boundaries within 16 bits, that jump arguments above 255 are never relocated by write_arg (they are written as 0 behind a reserved EXTENDED_ARG and patched). Constant/name/local index ranges are not carried. Observed, not checked: for Python 3.10+ the generator still emits the 3.9 lnotab format. Assumed: std contracts of Vec::insert/get/get_mut/last/extend_from_slice, to_be_bytes; is_jump_op is an uninterpreted function of the opcode byte here (checked against CPython in C16).",
   technique=TECH_V + "; &mut-returning accessors specified with final(..); loop invariants and decreases measures spliced by loop ordinal"),
 "C15": dict(engine="verus+kani", category="proof",
   text="PARTIAL: (reader, Verus, unbounded input length) Deserializer::take/take_byte/consume/deserialize_u32/deserialize_long/deserialize_bytes/deserialize_const/deserialize_const_vec/deserialize_str_vec/deserialize_str and CodeObj::from_bytes never panic on any byte vector (every remove/drain/index is guarded; an allocation is never sized by an unchecked length field), return Err on short input, consume exactly what they decode, never grow the input, and terminate (recursion and loops of the tuple arms, and the mutual recursion deserialize_const <-> CodeObj::from_bytes, proved with a lexicographic decreases measure). (writer) str_into_bytes and raw_string_into_bytes equal CPython's marshal encoding for every string below 4 GiB (Verus); ValueObj::into_bytes on Int, Nat (incl. the long format from 2**31), Float (bit-exact incl. -0.0, inf, NaN), Bool, None equals the marshal format, the type-byte table inverts, and reader(writer(x) ++ rest) == x on all those scalars (Kani, loop-free / bounded only by the 5 digits of a u64).",
   note="Assumed: std contracts of Vec::drain/remove/insert/with_capacity, from_le_bytes/to_le_bytes, String::from_utf8; Deserializer::deserialize_locals (iterator zip: not expressible in Verus; never grows the input); the string and tuple arms of the reader are checked for totality only (their values go through interning caches); the Nat round trip is by transitivity through the marshal long format (writer == format, reader(format) == value). Bounded stand-in, not counted: vec_to_bytes<2|4|8> on vectors up to 10 bytes, raw_string_into_bytes on 2 bytes (Kani). Not carried: that CodeObj::into_bytes and from_bytes agree on the field sequence, CodeObj::from_pyc (file I/O), strs_into_bytes/tuple_into_bytes loops, CPython's unmarshaller itself (used as the oracle in replay only).",
   technique=TECH_V + " + " + TECH_K),
 "C16": dict(engine="kani", category="proof",
   text="For every byte, each version table (impl_u8_enum! expansions Opcode308/309/310/311, CommonOpcode) maps it to a variant whose number equals dis.opmap of the matching CPython; is_jump_op agrees with dis.hasjrel/hasjabs on every opcode codegen.rs names, for 3.7-3.11; jump_abs_addr_309/310/311 equal CPython's target formula; magic bytes round-trip for every u16 and get_ver_from_magic_num maps each installed interpreter's magic to its version. Loop-free Kani harnesses over the full domain (complete).",
   note="External contract: the tables of the installed CPython 3.6-3.12 (read at run time; committed snapshot only as fallback). The emit set is computed textually from codegen.rs (version guards not analysed). Variants absent from an interpreter are reported, not obligations.",
   technique=TECH_K),
}

NOT_APPLICABLE = {
 "C01": "whole-pipeline semantics (Erg source -> desugar -> lower -> codegen -> CPython): no function within reach of Verus/Kani carries a contract that expresses it; the pieces it bottoms out in are claimed separately (C04, C14, C15, C16)",
 "C02": "soundness of the whole type checker against Python run-time classes; Python has no deductive verifier here and the judgement is spread over ~20 kLoC of Context",
 "C05": "quantifies over all programs through lower.rs/inquire.rs; no function-level contract carries 'every definite error is rejected'",
 "C07": "totality of the whole checker + code generator over all programs; HIR/Type trees with iterator/closure/hash-collection idioms are outside both verifiers",
 "C09": "stack exhaustion is not observable in Verus' or CBMC's execution model and the 3.8 kLoC recursive-descent parser over TokenStream/ast is outside both dialects",
 "C10": "relational property over two inputs of lexer+parser; not expressible as a contract on a function we can bring into a verifier",
 "C12": "relation between HIR before/after optimisation and run-time behaviour; needs a semantics of HIR",
 "C13": "needs the target interpreters executing the bytecode; the table-level part is C16",
 "C17": "validity/behaviour of generated Python source is a property of Python's grammar and ~1.4 kLoC of HIR-walking string concatenation; a contract on escape_str alone would restate the code",
 "C18": "JSON validity is a grammar property of concatenated Display output produced while walking HIR; no function with a decidable contract within reach",
 "C19": "schedules / hash-iteration nondeterminism; Kani has no threads, Verus would need the code rewritten onto its permission types",
 "C20": "threads + whole build; same reason as C19",
 "C22": "effect checker is a recursive walk over hir::Expr with Dict/Set state; outside both verifiers",
 "C23": "ownership checker is a recursive walk over hir::Expr with Dict/Set state; outside both verifiers",
 "C26": "Python code; no deductive verifier for Python in this sandbox (CrossHair concretises int subclasses: sampling, a different family)",
 "C27": "data files vs. installed interpreters; no function to put a contract on",
 "C29": "histories over the whole language server",
 "C30": "whole server + type check + run-time behaviour",
 "C33": "exhaustiveness is a judgement of the whole checker compared with run-time values",
 "C34": "inferred dependent types vs. run-time values: whole inference",
}
PLANNED = ["C03", "C06", "C08", "C11", "C14", "C15", "C21", "C24", "C25", "C28", "C31", "C32"]
for _p in PLANNED:
    if _p not in CHECKS:
        NOT_APPLICABLE[_p] = "planned (DESIGN.md section 5) but the check is not built yet, so nothing is claimed for it at this commit"

ENGINES = [
 {"name": "extract", "path": "vlib/extract.py", "kind_free_text": "E-X: re-extracts the verbatim text of the functions under contract from /repo on every run; declared rewrite rules (vlib/rules.py, logged per function), splices marked and self-checked (vlib/snippet.py)"},
 {"name": "verus", "path": "vlib/verus_unit.py", "kind_free_text": "E-V: one Verus file per unit (hand-written prelude with spec functions/lemmas/tagged stubs + extracted functions with spliced contracts, class copies); in-file canary `ensures false` must be rejected"},
 {"name": "kani", "path": "vlib/kani_unit.py", "kind_free_text": "E-K: dependency-free Kani crate from extracted text + generated harnesses; loop-free full-domain harnesses are complete proofs; cover! vacuity guards"},
 {"name": "replay", "path": "vlib/replay.py", "kind_free_text": "E-R: builds replay/src/*.rs against the REAL crates of /repo and runs counterexamples on the real functions; independent Python oracles in units/*/cex.py"},
]


def main():
    checks = []
    for pid in sorted(CHECKS):
        c = CHECKS[pid]
        checks.append({
            "property_id": pid,
            "quick_cmd": "./check %s --tier quick" % pid,
            "thorough_cmd": "./check %s --tier thorough" % pid,
            "evidence_file": "evidence/%s.json" % pid,
            "replay_cmd_template": "./check %s --replay {path}" % pid,
            "engine": c["engine"],
            "level_claimed": {"category": c["category"], "text": c["text"], "design_ref": "DESIGN.md section 5, %s" % pid},
            "level_note": c["note"],
            "technique": c["technique"],
        })
    for e in ENGINES:
        e["serves_properties"] = sorted(p for p in CHECKS if e["name"] in CHECKS[p]["engine"] or e["name"] in ("extract", "replay"))
    hooks_commits = ["b58f5221", "ea3878b4", "fe10b3c7"]
    m = {
        "version": 1,
        "setup_cmd": "./tools/setup.sh",
        "hooks": {
            "guard": "erg_verif",
            "enable": "RUSTFLAGS='--cfg erg_verif' when building replay binaries that need private items (vlib/replay.py build(cfg_hook=True)); verification itself reads source text and needs no hook",
            "baseline_off_cmd": "cd /repo && cargo nextest run --workspace --no-fail-fast --test-threads 8 --offline || cargo test --workspace --no-fail-fast --offline",
            "source_commits": hooks_commits,
            "add_only": True,
        },
        "engines": ENGINES,
        "checks": checks,
        "not_applicable": [{"property_id": k, "reason": v} for k, v in sorted(NOT_APPLICABLE.items())],
        "notes": "All checks: ./check <id>; exit 0 pass, 1 VIOLATION, 2 undecided (lost anchor, unsupported construct, timeout; never an alarm). known_findings.txt lists genuine defects (fixed: entries suppress nothing).",
    }
    json.dump(m, open(os.path.join(HERE, 'MANIFEST.json'), 'w'), indent=1)


if __name__ == '__main__':
    main()
