"""C18 bounded run-time-checked contract (not counted as proved): generated modules of public constant bindings through the REAL
`erg transpile --target json` of $ERG_REPO; the output must parse with Python's json module (strict: NaN/Infinity rejected) and map
every public binding to the value of its initializer."""
import json
import math
import os
import random
import subprocess

from units.C14.cex import build_erg

CHARS = ['a', 'Z', ' ', '"', '\\', '\n', '\r', '\0', "'", '/', 'é', '😀', '{', '}', ':', ',', '\x01', '\x1f', '\x7f', 'b', 'u', '0',
         '\x80', '\xa0', '\u07ff', '\u0800', '\u2028', '\u2029', '\ufeff', '\ufffd', '\uffff', '\U00010000', '\U0010ffff']


def erg_str(s):
    """an Erg string literal denoting s (the lexer's escapes: \\n \\r \\0 \\\\ \\" ; other characters raw)"""
    out = []
    for c in s:
        if c == '\n':
            out.append('\\n')
        elif c == '\r':
            out.append('\\r')
        elif c == '\0':
            out.append('\\0')
        elif c == '\\':
            out.append('\\\\')
        elif c == '"':
            out.append('\\"')
        else:
            out.append(c)
    return '"' + ''.join(out) + '"'


def ambiguous_quotes(s):
    """After the lexer has resolved the escapes, the token text of a one-line literal is `"` + s + `"`; ValueObj::from_str takes three
    quotation marks at either end for the delimiter of a multi-line literal. That class is probed separately (known finding)."""
    t = '"' + s + '"'
    return len(s) > 0 and (t.startswith('"""') or t.endswith('"""'))


def gen_scalar(rng, kind):
    if kind == 'int':
        v = rng.choice([0, 1, -1, 7, 255, 65536, 2147483647, -2147483648, rng.randint(-10**6, 10**6)])
        return (str(v) if v >= 0 else '(%d)' % v), v
    if kind == 'nat':
        v = rng.choice([0, 4294967296, 2**63, rng.randint(0, 10**12)])
        return str(v), v
    if kind == 'float':
        v = rng.choice([0.5, 1.0, 0.1, 1234.5678, 1.0e300, 2.5e-7, 100000.0, rng.random() * 1000])
        return repr(v) if 'e' not in repr(v) else ('%.17g' % v if False else repr(v).replace('e+', 'e')), v
    if kind == 'str':
        while True:
            s = ''.join(rng.choice(CHARS) for _ in range(rng.randint(0, 6)))
            if not ambiguous_quotes(s):
                break
        return erg_str(s), s
    if kind == 'bool':
        b = rng.random() < 0.5
        return ('True' if b else 'False'), b
    return 'None', None


def gen_value(rng, depth):
    """(erg source text, expected python value)"""
    kinds = ['int', 'nat', 'float', 'str', 'bool', 'none']
    if depth <= 0 or rng.random() < 0.35:
        return gen_scalar(rng, rng.choice(kinds))
    k = rng.choice(['list', 'tuple', 'record', 'dict'])
    if k == 'list':
        # all elements of a list have one type: pick one scalar kind or nested tuples of one shape
        kind = rng.choice(['int', 'str', 'bool', 'float'])
        items = [gen_scalar(rng, kind) for _ in range(rng.randint(1, 3))]
        if depth > 1 and rng.random() < 0.4:
            items = [('[' + ', '.join(t for (t, _) in grp) + ']', [v for (_, v) in grp]) for grp in ([gen_scalar(rng, kind) for _ in range(2)] for _ in range(2))]
        return '[' + ', '.join(t for (t, _) in items) + ']', [v for (_, v) in items]
    if k == 'tuple':
        items = [gen_value(rng, depth - 1) for _ in range(rng.randint(2, 3))]
        return '(' + ', '.join(t for (t, _) in items) + ')', [v for (_, v) in items]
    if k == 'record':
        items = [gen_value(rng, depth - 1) for _ in range(rng.randint(1, 3))]
        return '{' + '; '.join('f%d = %s' % (i, t) for i, (t, _) in enumerate(items)) + '}', dict(('f%d' % i, v) for i, (_, v) in enumerate(items))
    kind = rng.choice(['int', 'str', 'bool'])
    keys = []
    while len(keys) < rng.randint(1, 3):
        ks = ''.join(rng.choice(CHARS) for _ in range(rng.randint(1, 4)))
        if ks not in keys and not ambiguous_quotes(ks):
            keys.append(ks)
    items = [(ks, gen_scalar(rng, kind)) for ks in keys]
    return '{' + ', '.join('%s: %s' % (erg_str(ks), t) for (ks, (t, _)) in items) + '}', dict((ks, v) for (ks, (_, v)) in items)


def same(a, b):
    if isinstance(a, float) or isinstance(b, float):
        return isinstance(a, (int, float)) and isinstance(b, (int, float)) and not isinstance(a, bool) and not isinstance(b, bool) and (a == b or math.isclose(a, b, rel_tol=1e-15))
    if isinstance(a, bool) or isinstance(b, bool) or a is None or b is None:
        return type(a) is type(b) and a == b
    if isinstance(a, list):
        return isinstance(b, list) and len(a) == len(b) and all(same(x, y) for x, y in zip(a, b))
    if isinstance(a, dict):
        return isinstance(b, dict) and set(a) == set(b) and all(same(a[k], b[k]) for k in a)
    return type(a) is type(b) and a == b


def _reject_constant(name):
    raise ValueError("non-standard JSON constant " + name)


def explore(run, n_modules=None):
    erg = build_erg(run)
    rng = random.Random(run.seed or 18)
    n_modules = n_modules or (40 if run.tier != 'thorough' else 400)
    work = os.path.join(run.scratch, 'json')
    os.makedirs(work, exist_ok=True)
    findings = []
    n_bind = 0
    declined = 0
    for m in range(n_modules):
        binds = []
        lines = []
        for i in range(rng.randint(1, 6)):
            text, val = gen_value(rng, 3 if i % 3 == 0 else 1)
            lines.append('.v%d = %s' % (i, text))
            binds.append(('v%d' % i, val, text))
        # a private binding referenced by a public one (goes through JsonGenerator.binds)
        text, val = gen_scalar(rng, rng.choice(['str', 'bool', 'none', 'int']))
        lines.append('p = %s' % text)
        lines.append('.vp = p')
        binds.append(('vp', val, 'p = ' + text))
        # private bindings (no member of the object) at random places: first, between two members, last
        for k in range(rng.randint(0, 2)):
            where = rng.choice(['first', 'middle', 'last'])
            pos = 0 if where == 'first' else (len(lines) if where == 'last' else rng.randint(0, len(lines)))
            lines.insert(pos, 'h%d = %d' % (k, k))
        path = os.path.join(work, 'm%d.er' % m)
        with open(path, 'w', encoding='utf-8') as f:
            f.write('\n'.join(lines) + '\n')
        out = path[:-3] + '.json'
        if os.path.exists(out):
            os.remove(out)
        p = subprocess.run([erg, 'transpile', '--target', 'json', path], capture_output=True, text=True, timeout=300)
        if not os.path.exists(out):
            # the checker declined the module (e.g. a generated literal it does not accept): nothing was emitted, nothing to compare
            declined += 1
            continue
        raw = open(out, encoding='utf-8').read()
        what = None
        try:
            got = json.loads(raw, parse_constant=_reject_constant)
        except Exception as e:
            what = ("not JSON", "the output is not JSON: %s" % str(e)[:80])
            got = None
        if got is not None:
            for (name, val, text) in binds:
                n_bind += 1
                if name not in got:
                    what = ("missing binding", "public binding %s = %s is missing from the output" % (name, text[:60]))
                    break
                if not same(got[name], val):
                    what = ("wrong value", "binding %s = %s is mapped to %r, its value is %r" % (name, text[:60], got[name], val))
                    break
        if what and not any(f["key"] == what[0] for f in findings):
            findings.append({"key": what[0], "how": "generated module through the real `erg transpile --target json`, read back with Python's json module",
                             "input": '\n'.join(lines)[:1500], "real_result": raw[:800], "oracle": "json.loads (strict) and the values of the initializers",
                             "verdict": what[1], "replay_cmd": "%s transpile --target json <file with the input above>; python3 -c 'import json; json.load(open(...))'" % erg})
    # ---- the class excluded above, probed on its own: a one-line literal whose text begins or ends with an escaped quotation mark
    # next to the delimiter
    path = os.path.join(work, 'quotes.er')
    probes = ['"', 'a""', '""a', '"a"']
    with open(path, 'w', encoding='utf-8') as f:
        f.write(''.join('.q%d = %s\n' % (i, erg_str(q)) for i, q in enumerate(probes)))
    out = path[:-3] + '.json'
    if os.path.exists(out):
        os.remove(out)
    subprocess.run([erg, 'transpile', '--target', 'json', path], capture_output=True, text=True, timeout=300)
    try:
        got = json.loads(open(out, encoding='utf-8').read(), parse_constant=_reject_constant)
        bad = [(q, got.get('q%d' % i)) for i, q in enumerate(probes) if got.get('q%d' % i) != q]
    except Exception as e:
        bad = [("<output>", "not JSON: %s" % str(e)[:60])]
    if bad:
        findings.append({"key": "one-line string literal that begins or ends with an escaped quotation mark next to the delimiter",
                         "how": "module of such literals through the real `erg transpile --target json`", "input": open(path, encoding='utf-8').read(),
                         "real_result": repr(bad)[:400], "oracle": "the characters the literal denotes",
                         "verdict": "the value of %s is emitted as %r (ValueObj::from_str takes `\"\"\"` at an end of the unescaped token text for a multi-line delimiter)" % (erg_str(bad[0][0]), bad[0][1]),
                         "replay_cmd": "%s transpile --target json %s" % (erg, path)})
    run.extra["bounded_contract_on_json_target"] = {"modules": n_modules, "modules_declined_by_the_checker": declined, "bindings_compared": n_bind,
                                                   "rule": "modules of 2-7 public bindings whose initializers are generated constants (Int, Nat, Float, Str over %d characters incl. quote, backslash, control characters, astral; Bool, None; lists, tuples, records, string-keyed dicts, nesting <= 3) and one public binding that refers to a private constant" % len(CHARS)}
    return {"findings": findings, "found": bool(findings), "note": None if findings else "%d modules (%d declined), %d bindings: all outputs are JSON and carry the values" % (n_modules, declined, n_bind)}
