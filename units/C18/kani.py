"""C18 Kani unit: the scalar arms of push_json_value (real text): true / false / null are written literally; a non-finite float and
every value without JSON counterpart make it answer false (nothing like NaN, inf, True or None is ever written). Loop-free, full
domain of each scalar class. Number formatting (to_string / Debug of f64) is std's: R3/R4 make it opaque here."""
import os
import re

from vlib.extract import Source
from vlib.snippet import Snippet
from vlib.kani_unit import KaniUnit
from vlib import rules

TRANSPILE = 'crates/erg_compiler/transpile.rs'
VALUE_RS = 'crates/erg_compiler/ty/value.rs'

PRELUDE = """
use std::ops::Deref;
#[derive(Clone, Debug, PartialEq)]
pub struct Opaque;
pub type Str = String;
fn ext_opaque_arm<T>() -> T { panic!("R2-erased arm reached") }
fn ext_msg() -> String { String::from("0") }
/// R4: push_json_str is verified in the Verus unit; here only its being called matters
fn push_json_str(out: &mut String, _s: &Opaque) { out.push('"'); out.push('"'); }
fn w_num(_n: i128) -> String { String::from("0") }
"""

HARNESS = r"""
    #[kani::proof]
    fn h_json_bool_none() {
        let b: bool = kani::any();
        let mut out = String::new();
        let ok = push_json_value(&mut out, &ValueObj::Bool(b));
        kani::cover!(ok && b, "true reachable");
        assert!(ok, "a Bool has a JSON counterpart");
        let w = out.as_bytes();
        assert!(if b { w.len() == 4 && w[0] == b't' && w[1] == b'r' && w[2] == b'u' && w[3] == b'e' } else { w.len() == 5 && w[0] == b'f' && w[1] == b'a' && w[2] == b'l' && w[3] == b's' && w[4] == b'e' }, "Bool is written as the JSON literal true / false");
        let mut out2 = String::new();
        let ok2 = push_json_value(&mut out2, &ValueObj::None);
        let w2 = out2.as_bytes();
        assert!(ok2 && w2.len() == 4 && w2[0] == b'n' && w2[1] == b'u' && w2[2] == b'l' && w2[3] == b'l', "None is written as the JSON literal null");
    }
    #[kani::proof]
    fn h_json_float_finite_only() {
        let f: f64 = kani::any();
        let mut out = String::new();
        let ok = push_json_value(&mut out, &ValueObj::Float(Float(f)));
        kani::cover!(ok, "finite floats are written");
        kani::cover!(!ok, "non-finite floats are refused");
        assert!(ok == f.is_finite(), "a float is written exactly when it is finite (JSON has no NaN / Infinity)");
    }
    #[kani::proof]
    fn h_json_no_counterpart() {
        let k: u8 = kani::any();
        let v = match k { 0 => ValueObj::Inf, 1 => ValueObj::NegInf, 2 => ValueObj::Ellipsis, 3 => ValueObj::NotImplemented, _ => ValueObj::Failure };
        let mut out = String::new();
        let ok = push_json_value(&mut out, &v);
        kani::cover!(k == 0, "Inf reachable");
        assert!(!ok, "Inf, -Inf, Ellipsis, NotImplemented and Failure have no JSON counterpart: refused");
    }
"""


def build(run):
    tsrc = Source(run.repo, TRANSPILE)
    vsrc = Source(run.repo, VALUE_RS)
    unit = KaniUnit('C18', run.scratch)
    unit.raw(PRELUDE)
    unit.add(Snippet(vsrc.item('struct', 'Float', with_attrs=True), 'struct Float'))
    unit.add(Snippet(vsrc.impl_block(r'Deref for Float'), 'impl Deref for Float'))
    en = Snippet(vsrc.item('enum', 'ValueObj'), 'enum ValueObj')
    variants = rules.erase_enum_payloads(en, {'i32', 'u64', 'bool', 'Float'}, derives='#[derive(Clone, Debug)]\n')
    unit.add(en)
    pv = Snippet(tsrc.fn('push_json_value'), 'push_json_value (scalar arms)')
    rules.diagnostics(pv)     # format!("{:?}", **f) -> ext_msg(): std's float formatting is opaque here
    pv.rw('R4', r'&(\w+)\.to_string\(\)', r'&w_num(*\1 as i128)', expect='*')
    # R2: the container arms (loops over hash collections, recursion) are outside this unit
    pv.erase_arms('R2', lambda pat: re.search(r'ValueObj::(List|Tuple|Dict|Record)\b', pat) is not None, stub='ext_opaque_arm()')
    unit.add(pv)
    unit.harness(HARNESS)
    hs = [("h_json_bool_none", "push_json_value[Bool, None]", "writes exactly `true` / `false` / `null` and answers true"),
          ("h_json_float_finite_only", "push_json_value[Float]", "answers true exactly for finite floats (all f64): NaN and the infinities are never written"),
          ("h_json_no_counterpart", "push_json_value[Inf, NegInf, Ellipsis, NotImplemented, Failure]", "answers false")]
    return unit, hs


def run_kani(run):
    unit, hs = build(run)
    res = unit.run([h[0] for h in hs], jobs=3, timeout_s=900)
    run.note_functions(unit.snippets)
    for (h, label, spec) in hs:
        r = res[h]
        if r.status == 'SUCCESS':
            bad_cover = [c for c in r.covers if c[1] != 'SATISFIED']
            if bad_cover or not r.covers:
                run.undecided.append("kani %s: vacuity guard: cover %r" % (h, bad_cover))
                continue
            run.add_obligation(label, 'kani', True, time_s=r.time_s, cmd=r.cmd.replace(h, '<harness>'))
            run.sample({"obligation": label, "backend": "kani loop-free, full domain", "ensures": spec})
        elif r.status == 'FAILURE':
            descs = sorted(set(d for (d, _) in r.failed))
            if any('R2-erased arm reached' in d for d in descs):
                run.undecided.append("kani %s: %s" % (h, descs[:2]))
                continue
            key = "%s|kani|%s" % (label, descs[0][:100] if descs else 'failed')
            run.add_obligation(key, 'kani', False, detail={"msg": "Kani harness %s FAILED: %s" % (h, '; '.join("%s @ %s" % f for f in r.failed[:6])), "rendered": r.log_tail[-2500:]},
                               time_s=r.time_s, cmd=r.cmd.replace(h, '<harness>'))
        else:
            run.undecided.append("kani %s: %s %s" % (h, r.status, r.log_tail[-400:].replace('\n', ' ') if r.status == 'ERROR' else ''))
