"""C18 (partial): the JSON serializer of the JSON transpile target (crates/erg_compiler/transpile.rs: hex_digit, push_json_str and the
scalar arms of push_json_value). Verus on the real text: what push_json_str writes IS a JSON string (RFC 8259 section 7, given as a
spec-level decoder) and denotes exactly the characters of the value. The walk over the HIR (JsonGenerator::transpile_expr), containers
and number formatting are covered only by a BOUNDED run-time-checked contract: generated modules through the real `erg transpile
--target json`, read back with Python's json module."""
import json
import os
import re
import subprocess

from vlib.extract import Source
from vlib.snippet import Snippet, Undecided
from vlib.verus_unit import VerusUnit
from vlib import rules

HERE = os.path.dirname(os.path.abspath(__file__))
TRANSPILE = 'crates/erg_compiler/transpile.rs'

STR_SPEC = """ensures
        // what is appended is a JSON string (RFC 8259 section 7) and it denotes exactly the characters of s
        exists|lit: Seq<char>| final(out)@ == old(out)@ + lit && json_str_decode(lit) == Some(codes(s@)),"""

STR_LOOP = """invariant
            verif_i <= verif_cs@.len(), verif_cs@ == s@,
            out@.len() >= verif_n0, verif_n0 == verif_out0.len() + 1, out@.subrange(0, verif_n0) =~= verif_out0.push('"'),
            // what has been written after the opening quotation mark is a run of JSON string characters denoting the prefix read so far
            json_chars(out@.skip(verif_n0)) == Some(codes(s@.take(verif_i as int))),
        decreases verif_cs@.len() - verif_i,"""


def build_verus(run):
    src = Source(run.repo, TRANSPILE)
    unit = VerusUnit('C18', run.scratch)
    unit.raw_file(os.path.join(HERE, 'prelude.rs'))
    unit.raw("verus! {\n")
    hd = Snippet(src.fn('hex_digit'), 'hex_digit')
    hd.contract("requires nibble < 16,\n    ensures hex_val(res) == nibble,   // some hexadecimal digit of that value (either case)")
    unit.add(hd)
    for probe in (False, True):
        ps = Snippet(src.fn('push_json_str'), 'vacuity-probe push_json_str' if probe else 'push_json_str')
        ps.rw('R11', r'for (\w+) in s\.chars\(\) \{', r'let verif_cs = w_chars(s);\n    let mut verif_i: usize = 0;\n    while verif_i < verif_cs.len() {\n        let \1 = verif_cs[verif_i]; verif_i = verif_i + 1;', expect=1)
        ps.rw('R4', r'\bout\.push\(', 'w_string_push(out, ', expect='+')
        if probe:
            ps.rename_fn('push_json_str__vacuity_probe')
            run.extra.setdefault('vacuity_probe_labels', []).append(ps.label)
        ps.contract('ensures false,' if probe else STR_SPEC)
        ps.body_prologue("let ghost verif_out0 = out@; let ghost verif_n0: int = out@.len() as int + 1;")
        ps.loop_spec(0, STR_LOOP)
        ps.insert_at(r'let mut verif_i: usize = 0;', "    proof { assert(out@.skip(verif_n0) =~= Seq::<char>::empty()); assert(codes(s@.take(0)) =~= Seq::<int>::empty()); }", where='after')
        ps.insert_at(r'verif_i = verif_i \+ 1;', """        let ghost verif_out1 = out@;
        proof {
            let cu = c as u32;
            assert(cu < 0x20 ==> (cu >> 4) < 16 && (cu & 0xF) < 16 && ((cu >> 4) * 16 + (cu & 0xF)) == cu) by(bit_vector);
            // general facts about nibbles (so that a changed guard or mask is decided instead of exhausting the solver)
            assert(((cu >> 4) & 0xF) < 16 && (cu & 0xF) < 16 && ((cu >> 8) & 0xF) < 16 && ((cu >> 12) & 0xF) < 16) by(bit_vector);
            assert(cu < 0x100 ==> ((cu >> 4) & 0xF) == (cu >> 4)) by(bit_vector);
            assert(cu < 0x10000 ==> ((cu >> 12) & 0xF) * 4096 + ((cu >> 8) & 0xF) * 256 + ((cu >> 4) & 0xF) * 16 + (cu & 0xF) == cu) by(bit_vector);
        }""", where='after')
        # end of the loop body: whatever this iteration appended is a run of JSON string characters denoting exactly c
        ps.loop_body_end(0, """        proof {
            let n0 = verif_n0;
            let piece = out@.skip(verif_out1.len() as int);
            // the piece is of one of the known shapes and that shape denotes c (decided by shape, without unfolding the decoder)
            assert(hex_val('0') == 0);
            assert(piece.len() == out@.len() - verif_out1.len());
            assert(piece_code(piece) == Some(c as int));
            lemma_piece(piece);
            assert(out@.skip(n0) =~= verif_out1.skip(n0) + piece);
            lemma_chars_append(verif_out1.skip(n0), piece);
            assert(codes(s@.take(verif_i as int)) =~= codes(s@.take(verif_i as int - 1)) + seq![c as int]);
            assert(out@.subrange(0, n0) =~= verif_out1.subrange(0, n0));
        }""")
        ps.after_loop(0, "    let ghost verif_out2 = out@;   // the state at the exit of the loop")
        ps.insert_at_end("""    proof {
        assert(s@.take(verif_i as int) =~= s@);
        let lit = out@.skip(verif_out0.len() as int);
        assert(out@ =~= verif_out2.push('"'));
        assert(verif_out2.subrange(0, verif_n0) =~= verif_out0.push('"'));
        assert forall|k: int| 0 <= k < verif_n0 implies out@[k] == verif_out0.push('"')[k] by {
            assert(verif_out2.subrange(0, verif_n0)[k] == verif_out2[k]);
        }
        assert(out@ =~= verif_out0 + lit);
        assert(lit[0] == out@[verif_n0 - 1]);
        assert(lit.subrange(1, lit.len() - 1) =~= verif_out2.skip(verif_n0));
        assert(lit.last() == '"' && lit.len() >= 2);
        assert(json_str_decode(lit) == Some(codes(s@)));
    }""")
        unit.add(ps)
    unit.raw("} // verus!\n")
    run.sample({"function": "push_json_str", "ensures": "the appended text is a JSON string per RFC 8259 section 7 (spec-level decoder: quotation mark, escapes \\\" \\\\ \\/ \\b \\f \\n \\r \\t \\uXXXX, no raw control character) and decodes to exactly the characters of the value, for every string; terminates"})
    return unit


def anchors(run):
    """Textual anchors (glue that is not under contract): every leaf of JsonGenerator::transpile_expr goes through transpile_value, which
    emits exactly what push_json_value wrote, and push_json_value writes strings and keys through push_json_str."""
    src = Source(run.repo, TRANSPILE)
    te = src.fn('transpile_expr', impl=r'JsonGenerator').text
    tv = src.fn('transpile_value', impl=r'JsonGenerator').text
    pv = src.fn('push_json_value').text
    problems = []
    if re.search(r'token\.content|\.to_string\(\)\s*[,}\n]', te.split('Expr::List')[0]):
        problems.append("JsonGenerator::transpile_expr emits a literal or a bound value without the JSON serializer")
    if not re.search(r'push_json_value\(&mut code, val\)', tv):
        problems.append("JsonGenerator::transpile_value no longer emits through push_json_value")
    if not re.search(r'ValueObj::Str\((\w+)\)\s*=>\s*push_json_str\(out, \1\)', pv):
        problems.append("push_json_value no longer writes a Str through push_json_str")
    if len(re.findall(r'push_json_str\(out, ', pv)) < 3:
        problems.append("push_json_value no longer writes dict keys and record fields through push_json_str")
    for d in (src.fn('transpile_expr', impl=r'JsonGenerator'), src.fn('transpile_value', impl=r'JsonGenerator'), src.fn('push_json_value')):
        dd = d.describe()
        dd["unit_label"] = dd.get("item", "") + " (textual anchor + BOUNDED run-time-checked contract only)"
        run.functions.append(dd)
    if problems:
        raise Undecided('; '.join(problems))


def run(run, replay=None):
    from units.C18 import cex
    run.level = 'proof'
    run.explorations.append(("JSON target", lambda: cex.explore(run)))
    anchors(run)
    unit = build_verus(run)
    res = unit.run(rlimit=60)
    run.add_verus(unit, res, cex_finder=lambda f: first_finding(cex.explore(run, 20)), expect_fail=tuple(run.extra.get('vacuity_probe_labels', ())))
    from units.C18 import kani as _kani
    _kani.run_kani(run)
    for f in run.failed:
        if f.get("backend") == 'kani' and not f.get("cex") and not f.get("cex_finder"):
            f["cex_finder"] = lambda ff: first_finding(cex.explore(run, 20))
    run.bounded_note = "the walk over the HIR (JsonGenerator::transpile_expr / transpile_def / expr_into_value), containers, numbers and the top-level object are covered only by the bounded run-time-checked contract (coverage.bounded_contract_on_json_target), not counted in the obligations"
    run.assumptions.append("str::chars and String::push carry assumed std contracts. Number formatting (i32/u64 to_string, f64 Debug for finite values) is std's and is only exercised by the bounded contract. JSON is RFC 8259; \\uXXXX escapes in the surrogate range are outside the spec-level decoder (the serializer writes such characters unescaped).")
    run.assumptions.append("JsonGenerator::transpile_expr, transpile_def, register_def, expr_into_value and the container arms of push_json_value: textual anchors and a BOUNDED run-time-checked contract only (generated modules through the real `erg transpile --target json`, read back with Python's json module).")


def first_finding(r):
    fs = [f for f in (r or {}).get("findings", []) if not f["key"].startswith("one-line string literal")]
    if fs:
        return dict(fs[0], found=True)
    return {"found": False, "note": "the generated modules are all emitted as JSON with the right values"}
