"""Counterexample search + replay for C08 on the REAL lexer. Oracle (independent of the lexer): a token whose content is
literally its source text (names, numbers, operators, brackets) must be found in the source at the line/column it reports;
the stream of an accepted text ends with EOF and has as many Dedents as Indents; no input may crash the lexer."""
from vlib import replay

LITERAL_KINDS = {"Symbol", "NatLit", "IntLit", "RatioLit", "BoolLit", "Plus", "Minus", "Star", "Slash", "Assign", "LParen", "RParen",
                 "LSqBr", "RSqBr", "LBrace", "RBrace", "Comma", "Dot", "Colon", "DblEq", "Less", "Gre", "Pow", "Mod", "FloorDiv"}

# every token kind whose content is literally its source text (all but string parts, whose content is unescaped, and layout tokens)
NON_LITERAL_KINDS = {"StrLit", "StrInterpLeft", "StrInterpMid", "StrInterpRight", "DocComment", "Newline", "Indent", "Dedent", "EOF", "Illegal", "BOF"}

TEXTS = [
    'a = "x\\ny" + b', 'print! "a\\tb", c', 'a = "\\\\" + b', 'x = "\\x41" + y', "a = '''m\nn''' + b", 'a = """m\nn""" + b',
    'a = 1 #[ c ]# + b', 'f "\\{x}" , y', 'a = "é\\n" + b', '"', '"\\', '"\\x', '"\\x4', '"""a\\', "'''\\", '"a\\{b}c\\', '"\\{', 'a = "s" + b',
    'x = (1,' + '\n' * 200000 + '2)', 'x = 1 +' + '\\\n' * 200000 + '2',   # blank lines inside brackets / line continuations: no stack growth per line
    'a = 1.5e\nb = 2', 'a = .5e\nb', 'a = 1.5e3 + b', 'a = 1e+3 + b', 'a = 1.5e', 'a = 1.5ex + b',   # exponent part of a number literal
    'f x =\n    x\n    ', 'f x =\n    g y =\n        y\n    ', 'f x =\n    x\n  ', 'f x =\n    x\n', 'f x =\n    x', 'a =\n  b =\n    c\n  d\ne', '  a', 'a\n\n\n', 'if x:\n    (1,\n2)\n', 'x = `+`(1, 2)', 'x = `a\nb`', 'x = `+',   # indentation at end of input, layout
    'a = 1 + \\\n"s" + b', '\\\n#[]#x', 'x = (1,\n   "s", y)', 'x = 1 #[ c\nd ]# + y',   # positions after a line continuation / a line break in brackets followed by a string or comment
    'a = """x\\ny""" + b', 'a = """\nq\\n\n""" + b', 'c = """a\\{x}b\nc\\{x}\n""" + d', 'a = """m\\\nn""" + b',   # multi-line literals with \\n escapes, line continuations, interpolation pieces over several lines
    'a =\n    1\nb = 2', 'if True:\n    a = "q\\n" + c\n', 'a = #[ x\n y ]# 1 + b', '\\', 'a\\', "'", "''", '"""', "'''", 'a = "\\0\\r\\\'\\"" + z',
]


def check_one(src, out):
    if out.startswith('PANIC'):
        return "the lexer crashes: " + out
    parts = out.split(' ')
    status, nerr, toks = parts[0], int(parts[1]), parts[2:]
    lines = src.split('\n')
    indents = dedents = 0
    last = None
    for t in toks:
        kind, rest = t.split('@', 1)
        ln, col, content = rest.split(':', 2)
        ln, col = int(ln), int(col)
        content = bytes.fromhex(content).decode()
        last = kind
        indents += kind == 'Indent'
        dedents += kind == 'Dedent'
        if status == 'OK' and kind not in NON_LITERAL_KINDS and ln >= 1:
            if ln > len(lines) or lines[ln - 1][col:col + len(content)] != content:
                where = lines[ln - 1][col:col + len(content)] if ln <= len(lines) else '<no such line>'
                return "token %s %r is reported at line %d column %d, where the source has %r" % (kind, content, ln, col, where)
        # string parts: the content is unescaped, but the token still begins where its first source character stands
        if status == 'OK' and kind in ('StrLit', 'StrInterpLeft', 'StrInterpMid', 'StrInterpRight') and ln == 0:
            return "token %s %r is reported at line 0 (no position) although it stands in the text" % (kind, content[:20])
        if status == 'OK' and kind in ('StrLit', 'StrInterpLeft', 'StrInterpMid', 'StrInterpRight') and ln >= 1:
            want = '}' if kind in ('StrInterpMid', 'StrInterpRight') else content[:1]
            got = lines[ln - 1][col:col + 1] if ln <= len(lines) else '<no such line>'
            if want in ('"', "'", '}') and got != want:
                return "token %s %r is reported at line %d column %d, where the source has %r (its text begins with %r)" % (kind, content[:20], ln, col, got, want)
    if status == 'OK' and (last != 'EOF' or indents != dedents):
        return "accepted text: stream ends with %s, %d indents, %d dedents" % (last, indents, dedents)
    return None


def find(run, failure=None, texts=None):
    binary = replay.build(run, 'c08', deps=('erg_common', 'erg_parser'))
    texts = texts or TEXTS
    for src in texts:   # one process per input so that an abort cannot hide other cases
        outs = replay.run_lines(binary, [src.encode().hex()])
        out = outs[-1] if outs else 'PANIC (process died)'
        bad = check_one(src, out)
        if bad:
            return {"found": True, "how": "probe texts (escape sequences, multi-line strings, inline comments, truncated literals) lexed by the real lexer; positions checked against the source text itself",
                    "input": {"source": src}, "real_result": out[:600], "oracle": "literal tokens are found in the source at the position they report; no crash",
                    "verdict": bad, "replay_cmd": "echo %s | %s" % (src.encode().hex(), binary)}
    return {"found": False, "note": "no crash or misplaced token on %d probe texts" % len(texts)}


# ---------------------------------------------------------------------------------------------------------------------------
# thorough tier: randomised replay of the REAL lexer end to end (constructors, normalize_newline and the parts the Verus unit stubs:
# keyword table, indent fold, is_definable_operator) with the same oracle. Not counted as proved; seeded by VERIF_SEED.
import random

IDENTS = ['a', 'b1', 'foo', 'x_y', 'f!', 'and', 'or', 'in', 'notin', 'True', 'None', '_', 'é', '変数']
NUMS = ['0', '1', '42', '1_000', '0b101', '0o17', '0xFf', '1.5', '.5', '3.', '1e+3', '2.5e-3', '1.5e3', '7.e']
OPS = ['+', '-', '*', '/', '//', '**', '%', '==', '!=', '<', '>', '<=', '>=', '<..', '..<', '..', '<..<', '...', '->', '=>', '=', ':=', ':', '::', ',', '.', '|>', '||', '&&', '^^', '~', '!', '?', '@', '<-', '<:', ':>', '<<', '>>', '|', '&', '^', ';']
STRS = ['"s"', '"a\\nb"', '"\\t"', '"q\\"q"', '"é"', '"\\{x}"', '"a\\{1 + 2}b\\{y}c"', '"""m"""', '"""l1\nl2"""', "\'raw id\'", '"', '"\\', '"""x', '`+`', '`_+_`', '`a', '``']
COMMENTS = ['# c', '#[ c ]#', '#[ a\n b ]#', '#[ #[ n ]# ]#', '#[ open']
BRACKETS = ['(', ')', '[', ']', '{', '}']
MISC = ['\\\n', '\t', '$', '\u200F', '\\x']


def random_text(rnd):
    n_lines = rnd.randint(1, 7)
    depth = 0
    lines = []
    for _ in range(n_lines):
        r = rnd.random()
        if r < 0.25:
            depth += 1
        elif r < 0.45 and depth > 0:
            depth -= rnd.randint(1, depth)
        elif r < 0.5:
            depth = rnd.randint(0, 3)
        indent = ' ' * (4 * depth if rnd.random() < 0.9 else rnd.randint(0, 9))
        toks = []
        for _ in range(rnd.randint(0, 7)):
            k = rnd.random()
            pool = IDENTS if k < 0.3 else NUMS if k < 0.45 else OPS if k < 0.7 else STRS if k < 0.82 else COMMENTS if k < 0.88 else BRACKETS if k < 0.97 else MISC
            toks.append(rnd.choice(pool))
        sep = ' ' if rnd.random() < 0.8 else ''
        lines.append(indent + sep.join(toks) + (' ' * rnd.randint(0, 2) if rnd.random() < 0.1 else ''))
    return '\n'.join(lines) + ('\n' if rnd.random() < 0.7 else '')


def explore_random(run):
    binary = replay.build(run, 'c08', deps=('erg_common', 'erg_parser'))
    rnd = random.Random(1000003 * run.seed + 17)
    n = 4000
    texts = [random_text(rnd) for _ in range(n)]
    checked = 0
    CH = 250
    for k in range(0, n, CH):
        chunk = texts[k:k + CH]
        outs = replay.run_lines(binary, [t.encode().hex() for t in chunk], timeout=300)
        if len(outs) != len(chunk):
            # the process died on one of them: find it
            for t in chunk:
                o = replay.run_lines(binary, [t.encode().hex()], timeout=60)
                if not o:
                    return {"found": True, "how": "random texts lexed by the real lexer", "input": {"source": t}, "real_result": "process died (abort / stack overflow)",
                            "oracle": "no input may crash the lexer", "verdict": "the lexer crashes", "replay_cmd": "echo %s | %s" % (t.encode().hex(), binary)}
            continue
        for (t, o) in zip(chunk, outs):
            checked += 1
            bad = check_one(t, o)
            if bad:
                return {"found": True, "how": "random texts (identifiers, numbers, operators, strings with escapes and interpolation, comments, brackets, indentation changes, line continuations) lexed by the real lexer; seed %d" % run.seed,
                        "input": {"source": t}, "real_result": o[:600], "oracle": "literal tokens are found in the source at the position they report; an accepted text ends with EOF and balances Indent/Dedent; no crash",
                        "verdict": bad, "replay_cmd": "echo %s | %s" % (t.encode().hex(), binary)}
    run.extra["random_replay_texts"] = checked
    return {"found": False, "note": "no crash or misplaced token on %d random texts (seed %d)" % (checked, run.seed)}
