"""Counterexample search + replay for C08 on the REAL lexer. Oracle (independent of the lexer): a token whose content is
literally its source text (names, numbers, operators, brackets) must be found in the source at the line/column it reports;
the stream of an accepted text ends with EOF and has as many Dedents as Indents; no input may crash the lexer."""
from vlib import replay

LITERAL_KINDS = {"Symbol", "NatLit", "IntLit", "RatioLit", "BoolLit", "Plus", "Minus", "Star", "Slash", "Assign", "LParen", "RParen",
                 "LSqBr", "RSqBr", "LBrace", "RBrace", "Comma", "Dot", "Colon", "DblEq", "Less", "Gre", "Pow", "Mod", "FloorDiv"}

TEXTS = [
    'a = "x\\ny" + b', 'print! "a\\tb", c', 'a = "\\\\" + b', 'x = "\\x41" + y', "a = '''m\nn''' + b", 'a = """m\nn""" + b',
    'a = 1 #[ c ]# + b', 'f "\\{x}" , y', 'a = "é\\n" + b', '"', '"\\', '"\\x', '"\\x4', '"""a\\', "'''\\", '"a\\{b}c\\', '"\\{', 'a = "s" + b',
    'x = (1,' + '\n' * 200000 + '2)', 'x = 1 +' + '\\\n' * 200000 + '2',   # blank lines inside brackets / line continuations: no stack growth per line
    'a = 1.5e\nb = 2', 'a = .5e\nb', 'a = 1.5e3 + b', 'a = 1e+3 + b', 'a = 1.5e', 'a = 1.5ex + b',   # exponent part of a number literal
    'f x =\n    x\n    ', 'f x =\n    g y =\n        y\n    ', 'f x =\n    x\n  ', 'f x =\n    x\n', 'f x =\n    x', 'a =\n  b =\n    c\n  d\ne', '  a', 'a\n\n\n', 'if x:\n    (1,\n2)\n', 'x = `+`(1, 2)', 'x = `a\nb`', 'x = `+',   # indentation at end of input, layout
    'a = 1 + \\\n"s" + b', '\\\n#[]#x', 'x = (1,\n   "s", y)', 'x = 1 #[ c\nd ]# + y',   # positions after a line continuation / a line break in brackets followed by a string or comment
    'a =\n    1\nb = 2', 'if True:\n    a = "q\\n" + c\n', 'a = #[ x\n y ]# 1 + b', '\\', 'a\\', "'", "''", '"""', "'''", 'a = "\\0\\r\\\'\\"" + z',
]


def check_one(src, out):
    if out.startswith('PANIC'):
        return "the lexer crashes: " + out
    parts = out.split(' ')
    status, nerr, toks = parts[0], int(parts[1]), parts[2:]
    lines = src.split('\n')
    indents = dedents = 0
    last = None
    for t in toks:
        kind, rest = t.split('@', 1)
        ln, col, content = rest.split(':', 2)
        ln, col = int(ln), int(col)
        content = bytes.fromhex(content).decode()
        last = kind
        indents += kind == 'Indent'
        dedents += kind == 'Dedent'
        if status == 'OK' and kind in LITERAL_KINDS and ln >= 1:
            if ln > len(lines) or lines[ln - 1][col:col + len(content)] != content:
                where = lines[ln - 1][col:col + len(content)] if ln <= len(lines) else '<no such line>'
                return "token %s %r is reported at line %d column %d, where the source has %r" % (kind, content, ln, col, where)
    if status == 'OK' and (last != 'EOF' or indents != dedents):
        return "accepted text: stream ends with %s, %d indents, %d dedents" % (last, indents, dedents)
    return None


def find(run, failure=None, texts=None):
    binary = replay.build(run, 'c08', deps=('erg_common', 'erg_parser'))
    texts = texts or TEXTS
    for src in texts:   # one process per input so that an abort cannot hide other cases
        outs = replay.run_lines(binary, [src.encode().hex()])
        out = outs[-1] if outs else 'PANIC (process died)'
        bad = check_one(src, out)
        if bad:
            return {"found": True, "how": "probe texts (escape sequences, multi-line strings, inline comments, truncated literals) lexed by the real lexer; positions checked against the source text itself",
                    "input": {"source": src}, "real_result": out[:600], "oracle": "literal tokens are found in the source at the position they report; no crash",
                    "verdict": bad, "replay_cmd": "echo %s | %s" % (src.encode().hex(), binary)}
    return {"found": False, "note": "no crash or misplaced token on %d probe texts" % len(texts)}
