// C08 prelude (hand-written): lexer state skeleton stubs, string wrappers, position specification.
use vstd::prelude::*;
use core::cmp::Ordering;

verus! {

// @trusted: R1 opaque payload type
#[verifier::external_body]
pub struct Opaque { _p: core::marker::PhantomData<()> }

// @trusted: R1 erg_common::Str (interned string) abstracted by its chars
#[verifier::external_body]
pub struct Str { _p: core::marker::PhantomData<()> }
impl Str {
    pub uninterp spec fn view(&self) -> Seq<char>;
}
impl Clone for Str {
    // @trusted: Str::clone returns an equal string
    #[verifier::external_body]
    fn clone(&self) -> (r: Self) ensures r@ == self@ { unimplemented!() }
}

// @trusted: R3 error values are opaque (message text is not part of any contract)
#[verifier::external_body]
pub struct LexError { _p: core::marker::PhantomData<()> }
pub type LexResult<T> = Result<T, LexError>;
// @trusted: R3 construction of an error value from a location
#[verifier::external_body]
fn ext_lex_error() -> LexError { unimplemented!() }

// @trusted: R3 message text (format!/switch_lang!/literal.into()) is opaque
#[verifier::external_body]
fn ext_msg() -> Opaque { unimplemented!() }
// @trusted: CacheSet<str>::get interns the text: the result has the same chars
#[verifier::external_body]
fn w_cache_get(cache: &Opaque, cont: &str) -> (r: Str) ensures r@ == cont@ { unimplemented!() }
// @trusted: str::chars().count() is the number of chars
#[verifier::external_body]
fn w_chars_count(s: &Str) -> (r: usize) ensures r == s@.len() { unimplemented!() }
// @trusted: str::lines().count() is at most chars + 1
#[verifier::external_body]
fn w_lines_count(s: &Str) -> (r: usize) ensures r <= s@.len() + 1 { unimplemented!() }
// @trusted: str::matches('\n').count(): the number of line feeds (at most the length)
#[verifier::external_body]
fn w_newline_count(s: &Str) -> (r: usize) ensures r <= s@.len() { unimplemented!() }
// @trusted: R9 `"<literal>".to_string()`: the length is computed from the literal by the rewriter
#[verifier::external_body]
fn w_lit_string(s: &str, Ghost(n): Ghost<nat>) -> (r: String) ensures r@.len() == n { s.to_string() }
// @trusted: R9 String::push_str with a literal whose length is computed by the rewriter
#[verifier::external_body]
fn w_push_lit(s: &mut String, lit: &str, Ghost(n): Ghost<nat>) ensures final(s)@.len() == old(s)@.len() + n { s.push_str(lit) }
// @trusted: String::push_str appends
#[verifier::external_body]
fn w_push_str(s: &mut String, x: &str) ensures final(s)@ == old(s)@ + x@ { s.push_str(x) }
// @trusted: str::to_string copies the chars
#[verifier::external_body]
fn w_to_string(x: &str) -> (r: String) ensures r@ == x@ { x.to_string() }
// @trusted: String::clear
#[verifier::external_body]
fn w_clear(s: &mut String) ensures final(s)@.len() == 0 { s.clear() }
// @trusted: R3 format!("\\{c}"): a backslash and one char
#[verifier::external_body]
fn w_backslash_char(c: char) -> (r: String) ensures r@.len() == 2 { unimplemented!() }
// @trusted: char::is_ascii_hexdigit
#[verifier::external_body]
fn w_is_ascii_hexdigit(c: char) -> (r: bool) ensures r ==> c != '\n' { c.is_ascii_hexdigit() }
// @trusted: char::from_u32(u32::from_str_radix(hex, 16).unwrap()).unwrap(): two hex digits always denote a scalar value (<= 0xFF); the precondition carries the length; that the two chars ARE hex digits is established by the is_ascii_hexdigit checks in the code and is not tracked here
#[verifier::external_body]
fn w_hex_to_char(hex: &String) -> (r: char)
    requires hex@.len() == 2
{ char::from_u32(u32::from_str_radix(hex, 16).unwrap()).unwrap() }
// @trusted: <[T]>::last().unwrap() on the interpolation stack: PANICS when empty (=> precondition)
#[verifier::external_body]
fn w_last_interp(v: &Vec<Interpolation>) -> (r: &Interpolation)
    requires v@.len() > 0
    ensures *r == v@[v@.len() - 1]
{ v.last().unwrap() }
// @trusted: Vec<char>::get(i).copied()
#[verifier::external_body]
fn w_get_copied(v: &Vec<char>, i: usize) -> (r: Option<char>)
    ensures r == (if i < v@.len() { Some(v@[i as int]) } else { None::<char> })
{ v.get(i).copied() }

// ---- specification: lexer representation and the position invariant ---------------------------------
/// representation invariant: the interpolation stack always has its `Not` bottom element, the line start is behind the
/// cursor, and the counters are bounded by what has been consumed (so that no `+= 1` can overflow). The cursor may run past the
/// end of the text: `consume()` at end of input still advances it (once per end-of-input Dedent, see `next_inv`).
pub open spec fn lexer_wf(l: Lexer) -> bool {
    &&& l.chars@.len() <= 0x03FF_FFF0
    &&& l.cursor <= 2 * l.chars@.len() + 4
    &&& l.line_start_cursor <= l.cursor
    &&& l.interpol_stack@.len() >= 1
    &&& l.interpol_stack@[0] is Not   // the bottom of the interpolation stack is the `Not` sentinel pushed by the constructors
    &&& l.lineno_token_starts <= l.cursor
    &&& l.lineno_token_starts <= l.chars@.len()
    &&& l.enclosure_level <= l.cursor
    &&& l.col_token_starts <= 0x7FFF_FFFF
}
/// no line break among the source chars at [a, b) (positions past the end of the text hold no char). Recursive instead of
/// quantified: extending the range by one consumed char is one unfolding, which keeps every query small and stable.
pub open spec fn no_nl(s: Seq<char>, a: int, b: int) -> bool
    decreases b - a
{
    if b <= a { true } else { (b - 1 >= s.len() || s[b - 1] != '\n') && no_nl(s, a, b - 1) }
}
/// the recorded line start really is the start of the line the cursor is on
pub open spec fn line_fresh(l: Lexer) -> bool {
    &&& (l.line_start_cursor == 0 || (l.line_start_cursor <= l.chars@.len() && l.chars@[l.line_start_cursor - 1] == '\n'))
    &&& no_nl(l.chars@, l.line_start_cursor as int, l.cursor as int)
}
pub open spec fn line_start_ok(l: Lexer) -> bool {
    l.line_start_cursor == 0 || (l.line_start_cursor <= l.chars@.len() && l.chars@[l.line_start_cursor - 1] == '\n')
}
/// the column of the next token is the number of source chars since the start of its line
pub open spec fn pos_ok(l: Lexer) -> bool {
    line_fresh(l) && l.col_token_starts == l.cursor - l.line_start_cursor
}
/// nothing but the scanning position changed
pub open spec fn same_source(l: Lexer, o: Lexer) -> bool {
    l.chars@ == o.chars@ && l.indent_stack@ == o.indent_stack@ && l.enclosure_level == o.enclosure_level
}


// ---- specification of one step of the token iterator ------------------------------------------------
pub open spec fn nl_or_dd(k: TokenKind) -> bool { k is Newline || k is Dedent }
/// kinds that token lexers (strings, numbers, names, operators, brackets) emit: never a layout token
pub open spec fn plain_kind(k: TokenKind) -> bool { !(k is Newline) && !(k is Dedent) && !(k is Indent) && !(k is EOF) && !(k is BOF) }

/// invariant of the lexer between two calls of `next` (holds for the state the constructors build)
pub open spec fn next_inv(l: Lexer) -> bool {
    &&& lexer_wf(l)
    &&& l.col_token_starts <= 2 * l.cursor                       // columns cannot overflow
    &&& l.indent_stack@.len() <= l.lineno_token_starts           // at most one open indentation per line break
    &&& (nl_or_dd(l.prev_token.kind) ==> l.indent_stack@.len() < l.lineno_token_starts)
    &&& (nl_or_dd(l.prev_token.kind) ==> (l.col_token_starts == 0 || l.cursor > l.chars@.len()))
    &&& (l.cursor <= l.chars@.len() + 1 || l.cursor + l.indent_stack@.len() <= 2 * l.chars@.len() + 3 + (if l.prev_token.kind is EOF { 1int } else { 0int }))
}
/// termination measure of the iteration: every `next` that yields an item decreases it
pub open spec fn measure(l: Lexer) -> int { 2 * (2 * l.chars@.len() + 6 - l.cursor) + l.indent_stack@.len() }

/// what one completed step (an item yielded by `next`) guarantees
pub open spec fn step_ok(o: Lexer, f: Lexer, r: LexResult<Token>) -> bool {
    &&& next_inv(f)
    &&& f.chars@ == o.chars@
    &&& measure(f) < measure(o)                                   // progress: the stream of items is finite
    &&& (r matches Ok(t) ==> {
        &&& f.prev_token.kind == t.kind
        // indentation bookkeeping: Indent opens exactly one level, Dedent closes exactly one, nothing else touches the stack,
        // and EOF is only produced when every level has been closed => an accepted text has as many Dedents as Indents
        &&& (t.kind is Indent ==> f.indent_stack@.len() == o.indent_stack@.len() + 1)
        &&& (t.kind is Dedent ==> f.indent_stack@.len() + 1 == o.indent_stack@.len())
        &&& (!(t.kind is Indent) && !(t.kind is Dedent) ==> f.indent_stack@.len() == o.indent_stack@.len())
        &&& (t.kind is EOF ==> f.indent_stack@.len() == 0)
        // positions: inside the text, the column of the next token stays the number of source chars since its line start
        &&& (pos_ok(o) && f.cursor <= f.chars@.len() ==> pos_ok(f))
    })
}

// @trusted: derived PartialEq on the fieldless enum TokenKind is structural equality; stated only for the four kinds the contracts
// test (a general `r == (a == b)` on the 100-variant enum made every query of the unit 5-8x more expensive)
#[verifier::external_body]
fn w_kind_eq(a: TokenKind, b: TokenKind) -> (r: bool)
    ensures b is EOF ==> r == (a is EOF), b is BOF ==> r == (a is BOF), b is Newline ==> r == (a is Newline), b is Dedent ==> r == (a is Dedent),
{ a == b }
// @trusted: derived PartialEq on TokenCategory (result not used by any contract)
#[verifier::external_body]
fn w_cat_eq(a: TokenCategory, b: TokenCategory) -> (r: bool) { a == b }
/// the state built by `Lexer::new` / `Lexer::from_str` (checked textually against the two constructors by the unit script)
pub open spec fn initial_state(l: Lexer) -> bool {
    &&& l.indent_stack@.len() == 0 && l.enclosure_level == 0 && l.cursor == 0 && l.prev_token.kind is BOF
    &&& l.lineno_token_starts == 0 && l.col_token_starts == 0 && l.line_start_cursor == 0
    &&& l.interpol_stack@.len() == 1 && l.interpol_stack@[0] is Not
    &&& l.chars@.len() <= 0x03FF_FFF0     // texts above 2**26 - 16 chars are outside the claim
}
/// the iteration starts in a state that satisfies the invariant of `next` and has exact positions
proof fn lemma_initial_state(l: Lexer)
    requires initial_state(l)
    ensures next_inv(l), pos_ok(l), measure(l) == 2 * (2 * l.chars@.len() + 6)
{
    reveal_with_fuel(no_nl, 2);
}
/// the measure is a natural number: with `step_ok` (strict decrease at every item) the token stream of `lex()` is finite,
/// and it has at most `2 * (2 * len + 6)` items
proof fn lemma_measure_nonneg(l: Lexer)
    requires next_inv(l)
    ensures measure(l) >= 0
{
}

// @verified-in: the other arm-group copies of Lexer::next (R2c: every arm keeps its body in exactly one copy; elsewhere the path is cut)
#[verifier::external_body]
fn ext_other_copy() -> (r: Option<LexResult<Token>>) ensures false { unimplemented!() }
// @trusted: char::is_ascii_digit
#[verifier::external_body]
fn w_is_ascii_digit(c: char) -> (r: bool) ensures r == ('0' <= c && c <= '9') { c.is_ascii_digit() }
// @trusted: unicode_xid is_xid_start: a line break and a space are not identifier characters (UAX #31)
#[verifier::external_body]
fn w_is_xid_start(c: char) -> (r: bool) ensures r ==> (c != '\n' && c != ' ') { unimplemented!() }
// @trusted: unicode_xid is_xid_continue: a line break and a space are not identifier characters (UAX #31)
#[verifier::external_body]
fn w_is_xid_continue(c: char) -> (r: bool) ensures r ==> (c != '\n' && c != ' ') { unimplemented!() }
// @trusted: char::to_string is the one-char string
#[verifier::external_body]
fn w_char_to_string(c: char) -> (r: String) ensures r@ == seq![c] { c.to_string() }
// @trusted: `s == "<literal>"` on a String: the result is not used by any contract (it only selects a branch)
#[verifier::external_body]
fn w_str_eq_lit(s: &String, lit: &str) -> (r: bool) { s == lit }
// @trusted: str::starts_with(char): the result only selects IntLit/NatLit
#[verifier::external_body]
fn w_starts_with_char(s: &String, c: char) -> (r: bool) { s.starts_with(c) }
// @trusted: Lexer::is_zero (str::replace): the result only selects IntLit/NatLit
#[verifier::external_body]
fn w_is_zero(s: &String) -> (r: bool) { unimplemented!() }
// @trusted: String::len() in bytes equals the number of chars for a string of ASCII spaces
#[verifier::external_body]
fn w_spaces_len(s: &String) -> (r: usize)
    requires forall|i: int| 0 <= i < s@.len() ==> s@[i] == ' '
    ensures r == s@.len()
{ s.len() }
// @trusted: String::is_empty
#[verifier::external_body]
fn w_string_is_empty(s: &String) -> (r: bool) ensures r == (s@.len() == 0) { s.is_empty() }
// @trusted: " ".repeat(n) has n chars
#[verifier::external_body]
fn w_repeat_space(n: usize) -> (r: String) ensures r@.len() == n { " ".repeat(n) }
// @trusted: String + "<literal>": the length of the literal is computed by the rewriter
#[verifier::external_body]
fn w_concat_lit(s: String, lit: &str, Ghost(n): Ghost<nat>) -> (r: String) ensures r@.len() == s@.len() + n { s + lit }
// @trusted: R9 a string literal passed as &str: its length in chars is computed from the literal by the rewriter
#[verifier::external_body]
fn w_lit(s: &'static str, Ghost(n): Ghost<nat>) -> (r: &'static str) ensures r@.len() == n { s }
// @trusted: the keyword table of lex_symbol (`match &cont[..] { "and" => AndOp, ... _ => Symbol }`) is NOT verified (str patterns); every kind it can yield is a plain (non-layout) kind
#[verifier::external_body]
fn w_symbol_kind(cont: &String) -> (r: TokenKind) ensures plain_kind(r) { unimplemented!() }
// @trusted: the fold over the indent stack in lex_indent_dedent (closure with captured mutable state; not expressible in Verus) is NOT verified: nothing is assumed about its two results except that the sum over an empty stack is the initial value 0
#[verifier::external_body]
fn w_fold_indents(stack: &Vec<usize>, spaces_len: usize) -> (r: (usize, bool)) ensures stack@.len() == 0 ==> r.0 == 0 { unimplemented!() }
// @trusted: usize::cmp
#[verifier::external_body]
fn w_cmp_usize(a: usize, b: usize) -> (r: core::cmp::Ordering)
    ensures (r is Less) == (a < b), (r is Equal) == (a == b), (r is Greater) == (a > b)
{ a.cmp(&b) }
// @trusted: usize::saturating_sub
#[verifier::external_body]
fn w_sat_sub(a: usize, b: usize) -> (r: usize) ensures r == (if a >= b { a - b } else { 0 }) { a.saturating_sub(b) }
// @trusted: Lexer::is_definable_operator (match on str literals, NOT verified): the result only selects Symbol or an error; none of the listed operator texts contains a line break
#[verifier::external_body]
fn w_is_definable_operator(s: &String) -> (r: bool) ensures r ==> forall|i: int| 0 <= i < s@.len() ==> s@[i] != '\n' { unimplemented!() }
// @trusted: String::insert(0, c) prepends one char
#[verifier::external_body]
fn w_insert_front(s: &mut String, c: char) ensures final(s)@.len() == old(s)@.len() + 1 { s.insert(0, c) }
// @trusted: str::contains(char): the result only selects a hint text
#[verifier::external_body]
fn w_contains_char(s: &String, c: char) -> (r: bool) { s.contains(c) }

} // verus!
