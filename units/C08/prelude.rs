// C08 prelude (hand-written): lexer state skeleton stubs, string wrappers, position specification.
use vstd::prelude::*;

verus! {

// @trusted: R1 opaque payload type
#[verifier::external_body]
pub struct Opaque { _p: core::marker::PhantomData<()> }

// @trusted: R1 erg_common::Str (interned string) abstracted by its chars
#[verifier::external_body]
pub struct Str { _p: core::marker::PhantomData<()> }
impl Str {
    pub uninterp spec fn view(&self) -> Seq<char>;
}
impl Clone for Str {
    // @trusted: Str::clone returns an equal string
    #[verifier::external_body]
    fn clone(&self) -> (r: Self) ensures r@ == self@ { unimplemented!() }
}

// @trusted: R3 error values are opaque (message text is not part of any contract)
#[verifier::external_body]
pub struct LexError { _p: core::marker::PhantomData<()> }
pub type LexResult<T> = Result<T, LexError>;
// @trusted: R3 construction of an error value from a location
#[verifier::external_body]
fn ext_lex_error() -> LexError { unimplemented!() }

// @trusted: CacheSet<str>::get interns the text: the result has the same chars
#[verifier::external_body]
fn w_cache_get(cache: &Opaque, cont: &str) -> (r: Str) ensures r@ == cont@ { unimplemented!() }
// @trusted: str::chars().count() is the number of chars
#[verifier::external_body]
fn w_chars_count(s: &Str) -> (r: usize) ensures r == s@.len() { unimplemented!() }
// @trusted: str::lines().count() is at most chars + 1
#[verifier::external_body]
fn w_lines_count(s: &Str) -> (r: usize) ensures r <= s@.len() + 1 { unimplemented!() }
// @trusted: R9 `"<literal>".to_string()`: the length is computed from the literal by the rewriter
#[verifier::external_body]
fn w_lit_string(s: &str, Ghost(n): Ghost<nat>) -> (r: String) ensures r@.len() == n { s.to_string() }
// @trusted: R9 String::push_str with a literal whose length is computed by the rewriter
#[verifier::external_body]
fn w_push_lit(s: &mut String, lit: &str, Ghost(n): Ghost<nat>) ensures final(s)@.len() == old(s)@.len() + n { s.push_str(lit) }
// @trusted: String::push_str appends
#[verifier::external_body]
fn w_push_str(s: &mut String, x: &str) ensures final(s)@ == old(s)@ + x@ { s.push_str(x) }
// @trusted: str::to_string copies the chars
#[verifier::external_body]
fn w_to_string(x: &str) -> (r: String) ensures r@ == x@ { x.to_string() }
// @trusted: String::clear
#[verifier::external_body]
fn w_clear(s: &mut String) ensures final(s)@.len() == 0 { s.clear() }
// @trusted: R3 format!("\\{c}"): a backslash and one char
#[verifier::external_body]
fn w_backslash_char(c: char) -> (r: String) ensures r@.len() == 2 { unimplemented!() }
// @trusted: char::is_ascii_hexdigit
#[verifier::external_body]
fn w_is_ascii_hexdigit(c: char) -> (r: bool) ensures r ==> c != '\n' { c.is_ascii_hexdigit() }
// @trusted: char::from_u32(u32::from_str_radix(hex, 16).unwrap()).unwrap(): two hex digits always denote a scalar value (<= 0xFF); the precondition carries the length; that the two chars ARE hex digits is established by the is_ascii_hexdigit checks in the code and is not tracked here
#[verifier::external_body]
fn w_hex_to_char(hex: &String) -> (r: char)
    requires hex@.len() == 2
{ char::from_u32(u32::from_str_radix(hex, 16).unwrap()).unwrap() }
// @trusted: <[T]>::last().unwrap() on the interpolation stack: PANICS when empty (=> precondition)
#[verifier::external_body]
fn w_last_interp(v: &Vec<Interpolation>) -> (r: &Interpolation)
    requires v@.len() > 0
    ensures *r == v@[v@.len() - 1]
{ v.last().unwrap() }
// @trusted: Vec<char>::get(i).copied()
#[verifier::external_body]
fn w_get_copied(v: &Vec<char>, i: usize) -> (r: Option<char>)
    ensures r == (if i < v@.len() { Some(v@[i as int]) } else { None::<char> })
{ v.get(i).copied() }

// ---- specification: lexer representation and the position invariant ---------------------------------
/// representation invariant: the cursor is at most one past the end (consume() at end of input still advances it),
/// the line start is behind the cursor, the interpolation stack always has its `Not` bottom element, sizes fit the counters
pub open spec fn lexer_wf(l: Lexer) -> bool {
    &&& l.chars@.len() <= 0x0FFF_FFFF
    &&& l.cursor <= l.chars@.len() + 1
    &&& l.line_start_cursor <= l.cursor
    &&& l.interpol_stack@.len() >= 1
    &&& l.interpol_stack@[0] is Not   // the bottom of the interpolation stack is the `Not` sentinel pushed by the constructors
    &&& l.lineno_token_starts <= l.cursor
    &&& l.col_token_starts <= 0x7FFF_FFFF
}
/// the recorded line start really is the start of the line the cursor is on
pub open spec fn line_fresh(l: Lexer) -> bool {
    &&& (l.line_start_cursor == 0 || (l.line_start_cursor <= l.chars@.len() && l.chars@[l.line_start_cursor - 1] == '\n'))
    &&& forall|k: int| l.line_start_cursor <= k < l.cursor && k < l.chars@.len() ==> l.chars@[k] != '\n'
}
/// the column of the next token is the number of source chars since the start of its line
pub open spec fn pos_ok(l: Lexer) -> bool {
    line_fresh(l) && l.col_token_starts == l.cursor - l.line_start_cursor
}
/// nothing but the scanning position changed
pub open spec fn same_source(l: Lexer, o: Lexer) -> bool {
    l.chars@ == o.chars@ && l.indent_stack@ == o.indent_stack@ && l.enclosure_level == o.enclosure_level
}

} // verus!
