"""C08: the whole token iterator of the lexer (erg_parser/lex.rs Iterator::next and every function it calls; token.rs Token::new).
Verus on the real text: totality (no unwrap on None, no index/counter/column overflow), termination (a measure decreases at every
yielded item), exact indentation bookkeeping (Indent/Dedent/EOF vs. the indent stack) and position bookkeeping (the column of the next
token equals the number of source characters since the start of its line)."""
import os
import re

from vlib.extract import Source, make_mask, match_close, LostAnchor
from vlib.snippet import Snippet, Undecided
from vlib.verus_unit import VerusUnit
from vlib import rules

HERE = os.path.dirname(os.path.abspath(__file__))
LEX = 'crates/erg_parser/lex.rs'
TOKEN = 'crates/erg_parser/token.rs'


def lit_len(lit_src):
    """number of chars of a Rust string literal body (between the quotes)"""
    n = 0
    i = 0
    while i < len(lit_src):
        if lit_src[i] == '\\':
            if lit_src[i + 1] == 'u':
                i = lit_src.index('}', i) + 1
            elif lit_src[i + 1] == 'x':
                i += 4
            else:
                i += 2
        else:
            i += 1
        n += 1
    return n


def errors_r3(sn):
    for pat in (r'\bSelf::(str_line_break_error|invalid_escape_error|unclosed_string_error|unclosed_interpol_error)\s*\(',
                r'\bLexError::(syntax_error|simple_syntax_error|feature_error|compiler_bug)\s*\('):
        while True:
            mask = make_mask(sn.text)
            m = re.search(pat, mask)
            if not m:
                break
            cp = match_close(mask, m.end() - 1)
            rules.guard_dropped(sn, re.sub(r'\b(switch_lang|format|fn_name_full|fn_name|line)!', 'M', sn.text[m.end():cp]), 'a lexer error constructor')
            sn.replace_range('R3', m.start(), cp + 1, 'ext_lex_error()', "%s..) -> ext_lex_error()" % pat)


def is_some_and_r4(sn):
    """R4: `self.peek_X_ch().is_some_and(|c| E)` -> `(match self.peek_X_ch() { Some(c) => E, None => false })` (balanced parentheses)"""
    while True:
        mask = make_mask(sn.text)
        m = re.search(r'self\s*\.peek_(cur|next)_ch\(\)\s*\.is_some_and\(\|c\|', mask)
        if not m:
            break
        cp = match_close(mask, m.end() - len('|c|') - 1)
        body = sn.text[m.end():cp].strip()
        sn.replace_range('R4', m.start(), cp + 1, '(match self.peek_%s_ch() { Some(c) => %s, None => false })' % (m.group(1), body),
                         "Option::is_some_and(|c| E) -> match { Some(c) => E, None => false }")


def lexer_rewrites(sn):
    rules.strip_vis_attrs(sn)
    errors_r3(sn)
    # string literal construction / appends: lengths computed from the literal (R9)
    sn.rw('R9', r'"((?:[^"\\]|\\.)*)"\.to_string\(\)', lambda m: 'w_lit_string("%s", Ghost(%d))' % (m.group(1), lit_len(m.group(1))), code_only=False)
    sn.rw('R9', r'\b(\w+)\.push_str\("((?:[^"\\]|\\.)*)"\)', lambda m: 'w_push_lit(&mut %s, "%s", Ghost(%d))' % (m.group(1), m.group(2), lit_len(m.group(2))), code_only=False)
    sn.rw('R4', r'\b(\w+)\.push_str\(quote\.quotes\(\)\);', r'w_push_str(&mut \1, quote.quotes());')
    sn.rw('R4', r'quote\.quotes\(\)\.to_string\(\)', 'w_to_string(quote.quotes())')
    sn.rw('R3', r'&format!\("\\\\\{(\w+)\}"\)', r'&w_backslash_char(\1)', code_only=False)
    sn.rw('R4', r'\b(\w+)\.is_ascii_hexdigit\(\)', r'w_is_ascii_hexdigit(\1)')
    sn.rw('R4', r'self\.chars\.get\(([^;]*?)\)\.copied\(\)', r'w_get_copied(&self.chars, \1)')
    sn.rw('R4', r'\bs\.clear\(\);', 'w_clear(&mut s);')
    sn.rw('R4', r'self\.interpol_stack\.last\(\)\.copied\(\)\.unwrap\(\)', '(*w_last_interp(&self.interpol_stack))')
    sn.rw('R4', r'self\.interpol_stack\.last\(\)\.unwrap\(\)', 'w_last_interp(&self.interpol_stack)')
    sn.rw('R8', r'char::from_u32\(\s*u32::from_str_radix\(&hex, 16\)\.unwrap\(\)\s*\)\s*\.unwrap\(\)', 'w_hex_to_char(&hex)')
    sn.rw('R7', r'\bfor _ in 0\.\.2\b', 'for verif_i in 0usize..2')
    # --- number / symbol / indentation lexers and Iterator::next
    rules.option_closures(sn)
    sn.rw('R4', r'\b(\w+)\.is_ascii_digit\(\)', r'w_is_ascii_digit(\1)')
    sn.rw('R4', r'\b(\w+)\.is_xid_start\(\)', r'w_is_xid_start(\1)')
    sn.rw('R4', r'\b(\w+)\.is_xid_continue\(\)', r'w_is_xid_continue(\1)')
    sn.rw('R4', r"\('０'\.\.='９'\)\.contains\(&c\)", "('０' <= c && c <= '９')", code_only=False)
    sn.rw('R4', r"matches!\(cur, '0'\.\.='7'\)", "('0' <= cur && cur <= '7')", code_only=False)
    sn.rw('R9', r'\b(first_ch|invalid)\.to_string\(\)', r'w_char_to_string(\1)')
    sn.rw('R9', r'self\.peek_cur_ch\(\)\.unwrap\(\)\.to_string\(\)', 'w_char_to_string(self.peek_cur_ch().unwrap())')
    sn.rw('R4', r'\bnum == "0"', 'w_str_eq_lit(&num, "0")', code_only=False)
    sn.rw('R4', r"\bnum\.starts_with\('-'\)", "w_starts_with_char(&num, '-')", code_only=False)
    sn.rw('R4', r'Self::is_zero\(&num\)', 'w_is_zero(&num)')
    sn.rw('R9', r'&\(num \+ "_"\)', '&w_concat_lit(num, "_", Ghost(1))', code_only=False)
    sn.rw('R4', r'\b(spaces|cont)\.is_empty\(\)', r'w_string_is_empty(&\1)')
    sn.rw('R4', r'\bspaces\.len\(\)', 'w_spaces_len(&spaces)')
    sn.rw('R9', r'&" "\.repeat\(indent_len\)', '&w_repeat_space(indent_len)', code_only=False)
    sn.rw('R4', r'self\.enclosure_level\.saturating_sub\(1\)', 'w_sat_sub(self.enclosure_level, 1)')
    sn.rw('R4', r'(?<![\w.])(\w+)\.saturating_sub\((\w+)\)', r'w_sat_sub(\1, \2)')
    # mutable by-value parameter -> immutable parameter + `let mut` (Verus has no `mut` parameters)
    sn.rw('R7', r'fn (\w+)\(&mut self, mut num: String\)([^{]*)\{', r'fn \1(&mut self, num_0: String)\2{\n        let mut num = num_0;')
    # string literals passed where the contract needs their length
    sn.rw('R9', r'(self\.(?:accept|deny_feature)\(\s*\w+,\s*|self\.deny_feature\(|self\.emit_singleline_token\(\s*\w+,\s*)"((?:[^"\\]|\\.)*)"', lambda m: '%sw_lit("%s", Ghost(%d))' % (m.group(1), m.group(2), lit_len(m.group(2))), code_only=False)
    sn.rw('R9', r'self\.lex_ratio\("\."\.into\(\)\)', 'self.lex_ratio(w_lit_string(".", Ghost(1)))', code_only=False)
    rules.diagnostics(sn)
    sn.rw('R3', r'"(?:[^"\\]|\\.)*"\s*\.into\(\)', 'ext_msg()', code_only=False)
    sn.rw('R3', r'\bext_msg\(\)\s*\.into\(\)', 'ext_msg()')


def build(run):
    src = Source(run.repo, LEX)
    tsrc = Source(run.repo, TOKEN)
    unit = VerusUnit('C08', run.scratch)
    unit.raw_file(os.path.join(HERE, 'prelude.rs'))
    unit.raw("verus! {\nuse TokenKind::*;\n")
    tk = Snippet(tsrc.item('enum', 'TokenKind'), 'enum TokenKind')
    rules.erase_enum_payloads(tk, set(), derives='#[derive(Clone, Copy, PartialEq, Eq)]\n')
    unit.add(tk)
    tok = Snippet(tsrc.item('struct', 'Token'), 'struct Token')
    from units.C14.unit import keep_struct_fields
    keep_struct_fields(tok, {'TokenKind', 'Str', 'u32'}, 'Token')
    unit.add(tok)
    unit.raw("""impl Clone for Token {
    // @trusted: derived Clone on Token copies every field
    #[verifier::external_body]
    fn clone(&self) -> (r: Self) ensures r.kind == self.kind, r.content@ == self.content@, r.lineno == self.lineno, r.col_begin == self.col_begin, r.col_end == self.col_end { unimplemented!() }
}
impl Token {
""")
    tn = Snippet(tsrc.fn('new', impl=r'Token'), 'Token::new')
    rules.strip_vis_attrs(tn)
    tn.rw('R5', r'fn new<S: Into<Str>>\(kind: TokenKind, cont: S,', 'fn new(kind: TokenKind, cont: Str,', expect=1)
    tn.rw('R5', r'cont\.into\(\)', 'cont', expect=1)
    tn.rw('R4', r'content\.chars\(\)\.count\(\)', 'w_chars_count(&content)', expect=1)
    tn.contract("""requires col_begin + cont@.len() <= u32::MAX,
    ensures res.kind == kind, res.content@ == cont@, res.lineno == lineno, res.col_begin == col_begin,
        res.col_end == col_begin + cont@.len(),   // a token ends where its text ends""")
    unit.add(tn)
    for (f, spec) in (('is', "ensures kind is EOF ==> res == (self.kind is EOF), kind is BOF ==> res == (self.kind is BOF), kind is Newline ==> res == (self.kind is Newline), kind is Dedent ==> res == (self.kind is Dedent),"), ('category', ""), ('category_is', "")):
        tf = Snippet(tsrc.fn(f, impl=r'Token'), 'Token::' + f)
        rules.strip_vis_attrs(tf)
        # derived PartialEq on a fieldless enum (deriving Structural on the 100-variant TokenKind makes every query 5x slower)
        tf.rw('R4', r'self\.kind == kind', 'w_kind_eq(self.kind, kind)')
        tf.rw('R4', r'self\.kind\.category\(\) == category', 'w_cat_eq(self.kind.category(), category)')
        tf.contract(spec)
        unit.add(tf)
    unit.raw("}\n")
    tc = Snippet(tsrc.item('enum', 'TokenCategory'), 'enum TokenCategory')
    rules.erase_enum_payloads(tc, set(), derives='#[derive(Clone, Copy, PartialEq, Eq)]\n')
    unit.add(tc)
    unit.raw("impl TokenKind {\n")
    kc = Snippet(tsrc.fn('category', impl=r'TokenKind'), 'TokenKind::category')
    rules.strip_vis_attrs(kc)
    kc.contract("")   # total; C08 does not depend on the content of the category table
    unit.add(kc)
    unit.raw("}\n")
    for e in ('OpFix', 'Quote', 'Interpolation'):
        en = Snippet(src.item('enum', e), 'enum ' + e)
        rules.erase_enum_payloads(en, {'Quote'}, derives='#[derive(Clone, Copy, PartialEq, Eq)]\n')
        unit.add(en)
    unit.raw("impl Quote {\n")
    for f, spec in (('quotes', "ensures res@.len() == 3,"), ('char', "ensures res == (if *self is Single { '\\'' } else { '\"' }), res != '\\n',"),
                    ('token_kind', "ensures plain_kind(res),")):
        q = Snippet(src.fn(f, impl=r'Quote'), 'Quote::' + f)
        rules.strip_vis_attrs(q)
        q.contract(spec)
        if f == 'quotes':
            q.body_prologue("proof { reveal_strlit(\"'''\"); reveal_strlit(\"\\\"\\\"\\\"\"); }")
        unit.add(q)
    unit.raw("}\n")
    # the two constructors are not brought into Verus (Input, normalize_newline, chars().collect()); their struct literals are checked
    # textually against `initial_state` of the prelude (a changed initial value is a lost anchor, exit 2)
    for ctor in ('new', 'from_str'):
        ct = ' '.join(src.fn(ctor, impl=r'Lexer').text.split())
        for frag in ('indent_stack: vec![]', 'enclosure_level: 0', 'cursor: 0', 'prev_token: Token::new(TokenKind::BOF, "", 0, 0)', 'lineno_token_starts: 0',
                     'col_token_starts: 0', 'line_start_cursor: 0', 'interpol_stack: vec![Interpolation::Not]'):
            if frag not in ct:
                raise LostAnchor("Lexer::%s: initial value `%s` not found (initial_state of the prelude no longer describes the constructor)" % (ctor, frag))
    lx = Snippet(src.item('struct', 'Lexer'), 'struct Lexer')
    keep_struct_fields(lx, {'Vec<char>', 'Vec<usize>', 'usize', 'Token', 'u32', 'Vec<Interpolation>'}, 'Lexer')
    unit.add(lx)
    unit.raw("impl Lexer {\n")

    def add(fname, spec, label=None, post=None, loops=(), hints=None, impl=r'Lexer', probe=False):
        sn = Snippet(src.fn(fname, impl=impl), 'Lexer::' + fname)
        lexer_rewrites(sn)
        if post:
            post(sn)
        # %ACC%: the local String that accumulates the token text, whatever it is called
        macc = re.search(r'let mut (\w+) = w_lit_string\("", ', sn.text)
        if macc:
            spec = spec.replace('%ACC%', macc.group(1))
            loops = [(k, inv.replace('%ACC%', macc.group(1))) for (k, inv) in loops]
        elif '%ACC%' in spec or any('%ACC%' in inv for (_, inv) in loops):
            raise LostAnchor("Lexer::%s: no accumulator `let mut x = \"\".to_string()`" % fname)
        sn.contract(spec)
        if hints:
            hints(sn)
        FUEL = "proof { reveal_with_fuel(no_nl, 6); }"   # up to five chars are consumed between two invariant points (`\\xHH`)
        for (k, inv) in loops:
            sn.loop_spec(k, inv, body_prologue=FUEL)
        if 'fn is_' not in sn.text[:40] and 'peek_' not in fname and fname not in ('consume', 'accept', 'deny_feature', 'op_fix', 'prev_can_be_receiver'):
            sn.body_prologue(FUEL)
        unit.add(sn)
        if probe:
            # vacuity probe: the same text under the same precondition with `ensures false` must be rejected
            pr = Snippet(src.fn(fname, impl=impl), 'vacuity-probe Lexer::' + fname)
            lexer_rewrites(pr)
            if post:
                post(pr)
            pr.rename_fn(fname + '__vacuity_probe')
            pr.contract(spec.rstrip() + "\n        false,")
            for (k, inv) in loops:
                pr.loop_spec(k, inv)
            unit.add(pr)
            run.extra.setdefault("vacuity_probe_labels", []).append(pr.label)
        return sn

    add('is_bidi', "ensures res ==> c != '\\n' && c != '#' && c != ' ',")
    add('consume', """requires old(self).cursor < usize::MAX,
    ensures final(self).cursor == old(self).cursor + 1,
        res == (if old(self).cursor < old(self).chars@.len() { Some(old(self).chars@[old(self).cursor as int]) } else { None::<char> }),
        same_source(*final(self), *old(self)), final(self).col_token_starts == old(self).col_token_starts, final(self).lineno_token_starts == old(self).lineno_token_starts,
        final(self).line_start_cursor == old(self).line_start_cursor, final(self).interpol_stack@ == old(self).interpol_stack@, final(self).prev_token == old(self).prev_token,""")
    add('peek_prev_prev_ch', "ensures res == (if self.cursor >= 2 && self.cursor - 2 < self.chars@.len() { Some(self.chars@[self.cursor - 2]) } else { None::<char> }),")
    add('peek_prev_ch', "ensures res == (if self.cursor >= 1 && self.cursor - 1 < self.chars@.len() { Some(self.chars@[self.cursor - 1]) } else { None::<char> }),")
    add('peek_cur_ch', "ensures res == (if self.cursor < self.chars@.len() { Some(self.chars@[self.cursor as int]) } else { None::<char> }),")
    add('peek_next_ch', "requires self.cursor < usize::MAX,\n    ensures res == (if self.cursor + 1 < self.chars@.len() { Some(self.chars@[self.cursor + 1]) } else { None::<char> }),")
    EMIT_FRAME = """same_source(*final(self), *old(self)), final(self).cursor == old(self).cursor, final(self).lineno_token_starts == old(self).lineno_token_starts,
        final(self).line_start_cursor == old(self).line_start_cursor, final(self).interpol_stack@ == old(self).interpol_stack@,
        final(self).prev_token.kind == kind,"""

    def emit_post(sn):
        sn.rw('R4', r'self\.str_cache\.get\(cont\)', 'w_cache_get(&self.str_cache, cont)', expect=1)
        sn.rw('R4', r'cont\.chars\(\)\.count\(\)', 'w_chars_count(&cont)', expect=1)
        sn.rw('R4', r'cont\.lines\(\)\.count\(\)', 'w_lines_count(&cont)')
        sn.rw('R4', r"cont\.matches\('\\n'\)\.count\(\)", 'w_newline_count(&cont)', code_only=False)
    add('emit_singleline_token', """requires old(self).col_token_starts + cont@.len() <= 0x7FFF_FFFF, old(self).lineno_token_starts < u32::MAX,
    ensures res.kind == kind, res.content@ == cont@,
        res.lineno == old(self).lineno_token_starts + 1, res.col_begin == old(self).col_token_starts,   // the token is reported where it begins
        final(self).col_token_starts == old(self).col_token_starts + cont@.len(),
        %s""" % EMIT_FRAME, post=emit_post)
    add('emit_multiline_token', """requires col_begin + cont@.len() <= 0x7FFF_FFFF, old(self).col_token_starts + cont@.len() <= 0x7FFF_FFFF, ln_begin < u32::MAX,
    ensures res.kind == kind, res.content@ == cont@, res.col_begin == col_begin, res.lineno == ln_begin + 1,   // reported at the line and column handed in
        final(self).col_token_starts == old(self).col_token_starts + cont@.len(),
        %s""" % EMIT_FRAME, post=emit_post)
    add('sync_col', """requires lexer_wf(*old(self)),
    ensures final(self).col_token_starts == old(self).cursor - old(self).line_start_cursor,
        same_source(*final(self), *old(self)), final(self).cursor == old(self).cursor, final(self).lineno_token_starts == old(self).lineno_token_starts,
        final(self).line_start_cursor == old(self).line_start_cursor, final(self).interpol_stack@ == old(self).interpol_stack@,
        final(self).prev_token == old(self).prev_token,
        lexer_wf(*final(self)), line_fresh(*old(self)) ==> pos_ok(*final(self)),""")
    FRAME = """same_source(*final(self), *old(self)), final(self).cursor >= old(self).cursor, lexer_wf(*final(self)),
        final(self).cursor <= final(self).chars@.len() + 1,"""
    PLAIN = " plain_kind(final(self).prev_token.kind), res matches Ok(t) ==> t.kind == final(self).prev_token.kind,"
    add('invalid_unicode_character', """requires lexer_wf(*old(self)), old(self).cursor <= old(self).chars@.len() + 1, old(self).col_token_starts + s@.len() <= 0x7FFF_FFFF, old(self).lineno_token_starts < u32::MAX,
    ensures %s final(self).cursor == old(self).cursor, final(self).interpol_stack@ == old(self).interpol_stack@, final(self).line_start_cursor == old(self).line_start_cursor,
        final(self).lineno_token_starts == old(self).lineno_token_starts, final(self).prev_token.kind is Illegal,
        final(self).col_token_starts == old(self).col_token_starts + s@.len(),""" % FRAME)

    def comment_post(sn):
        rules.option_closures(sn)
    add('lex_comment', """requires lexer_wf(*old(self)), old(self).cursor < old(self).chars@.len(), old(self).chars@[old(self).cursor as int] == '#', old(self).col_token_starts <= 0x1FFF_FFFF, old(self).lineno_token_starts < u32::MAX,
    ensures %s final(self).interpol_stack@ == old(self).interpol_stack@, final(self).line_start_cursor == old(self).line_start_cursor,
        final(self).lineno_token_starts == old(self).lineno_token_starts,
        // a comment runs up to, not including, the end of the line: no newline is swallowed
        line_fresh(*old(self)) ==> line_fresh(*final(self)),   // no line break is swallowed
        res is Ok ==> (final(self).cursor == final(self).chars@.len() || final(self).chars@[final(self).cursor as int] == '\\n'),
        final(self).cursor > old(self).cursor,   // progress: at least the `#` is consumed
        res is Ok ==> final(self).col_token_starts == old(self).col_token_starts && final(self).prev_token == old(self).prev_token,
        res is Err ==> plain_kind(final(self).prev_token.kind) && final(self).col_token_starts == old(self).col_token_starts + (final(self).cursor - old(self).cursor),""" % FRAME, post=comment_post, loops=[(0, """invariant
            lexer_wf(*self), same_source(*self, *old(self)), self.cursor >= old(self).cursor, self.cursor <= self.chars@.len(),
            self.interpol_stack@ == old(self).interpol_stack@, self.line_start_cursor == old(self).line_start_cursor,
            self.lineno_token_starts == old(self).lineno_token_starts, self.col_token_starts == old(self).col_token_starts,
            old(self).col_token_starts <= 0x1FFF_FFFF, old(self).lineno_token_starts < u32::MAX,
            %ACC%@.len() == self.cursor - old(self).cursor, self.prev_token == old(self).prev_token, old(self).chars@[old(self).cursor as int] == '#',
            line_fresh(*old(self)) ==> line_fresh(*self),
        decreases self.chars@.len() - self.cursor,""")])


    add('lex_raw_ident', """requires lexer_wf(*old(self)), old(self).cursor >= 1, old(self).cursor <= old(self).chars@.len(), old(self).col_token_starts <= 0x1FFF_FFFF, old(self).lineno_token_starts < u32::MAX,
    ensures %s final(self).interpol_stack@ == old(self).interpol_stack@, final(self).line_start_cursor == old(self).line_start_cursor,
        final(self).lineno_token_starts == old(self).lineno_token_starts,
        line_fresh(*old(self)) ==> line_fresh(*final(self)),   // no line break is swallowed
        // the token is reported where it begins and the column advances by exactly the source text consumed (opening quote included)
        final(self).col_token_starts == old(self).col_token_starts + 1 + (final(self).cursor - old(self).cursor),
        res matches Ok(t) ==> t.col_begin == old(self).col_token_starts && t.lineno == old(self).lineno_token_starts + 1,""" % (FRAME + PLAIN), loops=[(0, """invariant
            lexer_wf(*self), same_source(*self, *old(self)), self.cursor >= old(self).cursor, self.cursor <= self.chars@.len(),
            self.interpol_stack@ == old(self).interpol_stack@, self.line_start_cursor == old(self).line_start_cursor,
            self.lineno_token_starts == old(self).lineno_token_starts, self.col_token_starts == old(self).col_token_starts,
            old(self).col_token_starts <= 0x1FFF_FFFF, old(self).lineno_token_starts < u32::MAX,
            s@.len() == 1 + (self.cursor - old(self).cursor),
            line_fresh(*old(self)) ==> line_fresh(*self),
        decreases self.chars@.len() - self.cursor,""")])

    STR_PRE = "requires lexer_wf(*old(self)), old(self).cursor >= 1, old(self).cursor <= old(self).chars@.len(), old(self).col_token_starts <= 0x1FFF_FFFF, old(self).lineno_token_starts < u32::MAX - 2,"
    SNAP = lambda sn: sn.insert_at(r'match c \{', "            let ghost verif_c0 = self.cursor;", where='before')
    add('lex_single_str_', STR_PRE + """
    ensures %s final(self).line_start_cursor == old(self).line_start_cursor, final(self).lineno_token_starts == old(self).lineno_token_starts,
        final(self).interpol_stack@.len() >= 1,
        res is Ok ==> (line_fresh(*old(self)) ==> line_fresh(*final(self))),
        res matches Ok(t) ==> t.col_begin == old(self).col_token_starts && t.lineno == old(self).lineno_token_starts + 1,""" % (FRAME + PLAIN),
        loops=[(0, """invariant
            lexer_wf(*self), same_source(*self, *old(self)), self.cursor >= old(self).cursor, self.cursor <= self.chars@.len(),
            self.line_start_cursor == old(self).line_start_cursor, self.lineno_token_starts == old(self).lineno_token_starts,
            self.col_token_starts == old(self).col_token_starts, self.interpol_stack@ == old(self).interpol_stack@,
            old(self).col_token_starts <= 0x1FFF_FFFF, old(self).lineno_token_starts < u32::MAX - 2,
            s@.len() <= 1 + 2 * (self.cursor - old(self).cursor),
            line_fresh(*old(self)) ==> line_fresh(*self),
        decreases self.chars@.len() - self.cursor,"""),
               (1, """invariant
                                    lexer_wf(*self), same_source(*self, *old(self)), self.cursor >= old(self).cursor + 2, self.cursor <= self.chars@.len(),
                                    self.line_start_cursor == old(self).line_start_cursor, self.lineno_token_starts == old(self).lineno_token_starts,
                                    self.col_token_starts == old(self).col_token_starts, self.interpol_stack@ == old(self).interpol_stack@,
                                    old(self).col_token_starts <= 0x1FFF_FFFF, old(self).lineno_token_starts < u32::MAX - 2,
                                    hex@.len() == verif_i, verif_i <= 2,
                                    self.cursor == verif_c0 + 2 + verif_i, verif_c0 >= old(self).cursor,
                                    s@.len() <= 1 + 2 * (verif_c0 - old(self).cursor),
                                    line_fresh(*old(self)) ==> line_fresh(*self),""")], hints=SNAP)
    add('lex_single_str', STR_PRE + """
    ensures %s final(self).col_token_starts == final(self).cursor - final(self).line_start_cursor, final(self).line_start_cursor == old(self).line_start_cursor, final(self).lineno_token_starts == old(self).lineno_token_starts,
        final(self).interpol_stack@.len() >= 1,
        // after a single-line string literal (whatever escape sequences it contains) the next token's column is exact
        (res is Ok && line_fresh(*old(self))) ==> pos_ok(*final(self)),
        res matches Ok(t) ==> t.col_begin == old(self).col_token_starts && t.lineno == old(self).lineno_token_starts + 1,""" % (FRAME + PLAIN))
    ML_PRE = "requires lexer_wf(*old(self)), old(self).cursor >= 3, old(self).cursor <= old(self).chars@.len(), old(self).col_token_starts <= 0x1FFF_FFFF, old(self).lineno_token_starts < 0x1FFF_FFFF,"
    ML_INV = """invariant
            lexer_wf(*self), same_source(*self, *old(self)), self.cursor >= old(self).cursor, self.cursor <= self.chars@.len(),
            self.interpol_stack@ == old(self).interpol_stack@,
            self.lineno_token_starts >= old(self).lineno_token_starts, self.lineno_token_starts - old(self).lineno_token_starts <= self.cursor - old(self).cursor,
            self.col_token_starts <= 0x1FFF_FFFF, col_begin == old(self).col_token_starts, ln_begin == old(self).lineno_token_starts,
            old(self).col_token_starts <= 0x1FFF_FFFF, old(self).lineno_token_starts < 0x1FFF_FFFF,
            s@.len() <= 3 + 2 * (self.cursor - old(self).cursor),
            line_fresh(*old(self)) ==> line_fresh(*self),
        decreases self.chars@.len() - self.cursor,"""
    add('lex_multi_line_str_', ML_PRE + """
    ensures %s final(self).lineno_token_starts >= old(self).lineno_token_starts, final(self).interpol_stack@.len() >= 1,
        (res is Ok && line_fresh(*old(self))) ==> line_fresh(*final(self)),
        // the literal is reported at the line and column where it begins, whatever line breaks and escapes it contains
        res matches Ok(t) ==> t.col_begin == old(self).col_token_starts && t.lineno == old(self).lineno_token_starts + 1,""" % (FRAME + PLAIN), loops=[(0, ML_INV)])
    add('lex_multi_line_str', ML_PRE + """
    ensures %s final(self).col_token_starts == final(self).cursor - final(self).line_start_cursor, final(self).lineno_token_starts >= old(self).lineno_token_starts, final(self).interpol_stack@.len() >= 1,
        // after a multi-line string the next token's column counts from the start of the string's LAST line
        (res is Ok && line_fresh(*old(self))) ==> pos_ok(*final(self)),
        res matches Ok(t) ==> t.col_begin == old(self).col_token_starts && t.lineno == old(self).lineno_token_starts + 1,""" % (FRAME + PLAIN))
    IM_PRE = "requires lexer_wf(*old(self)), old(self).cursor >= 1, old(self).cursor <= old(self).chars@.len(), old(self).col_token_starts <= 0x1FFF_FFFF, old(self).lineno_token_starts < 0x1FFF_FFFF,"
    IM_INV = """invariant
            lexer_wf(*self), same_source(*self, *old(self)), self.cursor >= old(self).cursor, self.cursor <= self.chars@.len(),
            self.interpol_stack@ == old(self).interpol_stack@,
            self.lineno_token_starts >= old(self).lineno_token_starts, self.lineno_token_starts - old(self).lineno_token_starts <= self.cursor - old(self).cursor,
            self.col_token_starts <= 0x1FFF_FFFF, col_begin == old(self).col_token_starts, ln_begin == old(self).lineno_token_starts,
            old(self).col_token_starts <= 0x1FFF_FFFF, old(self).lineno_token_starts < 0x1FFF_FFFF,
            s@.len() <= 1 + 2 * (self.cursor - old(self).cursor),
            line_fresh(*old(self)) ==> line_fresh(*self),
        decreases self.chars@.len() - self.cursor,"""
    add('lex_interpolation_mid_', IM_PRE + """
    ensures %s final(self).lineno_token_starts >= old(self).lineno_token_starts,
        (res is Ok && line_fresh(*old(self))) ==> line_fresh(*final(self)),
        // the piece is reported where its `}` stands, even if it runs over several lines
        res matches Ok(t) ==> t.col_begin == old(self).col_token_starts && t.lineno == old(self).lineno_token_starts + 1,""" % (FRAME + PLAIN), loops=[(0, IM_INV)])
    add('lex_interpolation_mid', IM_PRE + """
    ensures %s final(self).col_token_starts == final(self).cursor - final(self).line_start_cursor, final(self).lineno_token_starts >= old(self).lineno_token_starts,
        // after the tail of an interpolated string the next token's column is exact
        (res is Ok && line_fresh(*old(self))) ==> pos_ok(*final(self)),
        res matches Ok(t) ==> t.col_begin == old(self).col_token_starts && t.lineno == old(self).lineno_token_starts + 1,""" % (FRAME + PLAIN))
    # ---------------------------------------------------------------- number and name lexers
    # A single-line token lexer is entered with `n0` chars of the token already consumed and collected; it consumes more chars of the
    # same line and emits exactly the collected text: the column advances by the source text consumed, no line break is swallowed.
    def line_tok(n0, pre_extra=''):
        pre = ("requires lexer_wf(*old(self)), old(self).cursor <= old(self).chars@.len(), "
               "old(self).col_token_starts + 2 * (%s) <= 2 * old(self).cursor, %s" % (n0, pre_extra))
        post = """
    ensures %s final(self).interpol_stack@ == old(self).interpol_stack@, final(self).line_start_cursor == old(self).line_start_cursor,
        final(self).lineno_token_starts == old(self).lineno_token_starts,
        final(self).col_token_starts == old(self).col_token_starts + (%s) + (final(self).cursor - old(self).cursor),
        final(self).cursor <= final(self).chars@.len(),
        line_fresh(*old(self)) ==> line_fresh(*final(self)),   // no line break is swallowed
        res matches Ok(t) ==> t.col_begin == old(self).col_token_starts && t.lineno == old(self).lineno_token_starts + 1,""" % (FRAME + PLAIN, n0)
        return pre + post

    def line_inv(n0, var='num'):
        return """invariant
            lexer_wf(*self), same_source(*self, *old(self)), self.cursor >= old(self).cursor, self.cursor <= self.chars@.len(),
            self.interpol_stack@ == old(self).interpol_stack@, self.line_start_cursor == old(self).line_start_cursor,
            self.lineno_token_starts == old(self).lineno_token_starts, self.col_token_starts == old(self).col_token_starts,
            self.prev_token == old(self).prev_token,
            old(self).col_token_starts + 2 * (%s) <= 2 * old(self).cursor,
            %s@.len() == (%s) + (self.cursor - old(self).cursor),
            line_fresh(*old(self)) ==> line_fresh(*self),
        decreases self.chars@.len() - self.cursor,""" % (n0, var, n0)

    CUR_NOT_NL = "old(self).cursor < old(self).chars@.len(), old(self).chars@[old(self).cursor as int] != '\\n',"
    add('is_valid_start_symbol_ch', "ensures res ==> c != '\\n' && c != ' ',")
    add('is_valid_continue_symbol_ch', "ensures res ==> c != '\\n' && c != ' ',")
    add('lex_exponent', line_tok('mantissa@.len()', CUR_NOT_NL), loops=[(0, line_inv('mantissa@.len()') + "\n")],
        hints=lambda sn: None)
    add('lex_ratio', line_tok('intpart_and_point@.len()'), loops=[(0, line_inv('intpart_and_point@.len()'))])
    add('lex_bin', line_tok('num_0@.len()'), loops=[(0, line_inv('num_0@.len()'))])
    add('lex_oct', line_tok('num_0@.len()'), loops=[(0, line_inv('num_0@.len()'))])
    add('lex_hex', line_tok('num_0@.len()'), loops=[(0, line_inv('num_0@.len()'))])
    add('lex_num_dot', line_tok('num_0@.len()', CUR_NOT_NL))
    add('lex_num', line_tok('1'), loops=[(0, line_inv('1'))])

    def symbol_post(sn):
        # the keyword table (match on str literals) is outside Verus: replaced by a stub that may return any non-layout kind (R2-style erasure)
        mask = make_mask(sn.text)
        m = re.search(r'let kind = match &cont\[\.\.\] \{', mask)
        if not m:
            raise LostAnchor("lex_symbol: keyword table `let kind = match &cont[..] {` not found")
        cb = match_close(mask, m.end() - 1)
        end = sn.text.index(';', cb) + 1
        sn.replace_range('R2', m.start(), end, 'let kind = w_symbol_kind(&cont);', "keyword table `match &cont[..] {..}` -> w_symbol_kind(&cont) (unverified, any plain kind)")
    add('lex_symbol', line_tok('1'), post=symbol_post, loops=[(0, line_inv('1', 'cont'))])
    # ---------------------------------------------------------------- comments, indentation, the iterator step
    add('accept', """requires old(self).col_token_starts + cont@.len() <= 0x7FFF_FFFF, old(self).lineno_token_starts < u32::MAX,
    ensures res matches Some(Ok(t)) && t.kind == kind && t.content@ == cont@ && t.lineno == old(self).lineno_token_starts + 1 && t.col_begin == old(self).col_token_starts,
        final(self).col_token_starts == old(self).col_token_starts + cont@.len(),
        %s""" % EMIT_FRAME)
    add('deny_feature', """requires old(self).col_token_starts + cont@.len() <= 0x7FFF_FFFF, old(self).lineno_token_starts < u32::MAX,
    ensures res matches Some(Err(_)), final(self).prev_token.kind is Illegal,
        final(self).col_token_starts == old(self).col_token_starts + cont@.len(),
        same_source(*final(self), *old(self)), final(self).cursor == old(self).cursor, final(self).lineno_token_starts == old(self).lineno_token_starts,
        final(self).line_start_cursor == old(self).line_start_cursor, final(self).interpol_stack@ == old(self).interpol_stack@,""")
    add('op_fix', "")
    add('prev_can_be_receiver', "")
    add('lex_multi_line_comment', """requires lexer_wf(*old(self)), old(self).cursor < old(self).chars@.len(), old(self).chars@[old(self).cursor as int] == '#', old(self).col_token_starts <= 2 * old(self).cursor,
    ensures %s final(self).interpol_stack@ == old(self).interpol_stack@,
        final(self).col_token_starts <= 2 * final(self).cursor, final(self).cursor > old(self).cursor,
        final(self).lineno_token_starts >= old(self).lineno_token_starts,
        res is Ok ==> final(self).prev_token == old(self).prev_token && final(self).cursor <= final(self).chars@.len() && (line_fresh(*old(self)) ==> line_fresh(*final(self))),
        res is Err ==> plain_kind(final(self).prev_token.kind),""" % FRAME, loops=[(0, """invariant
            lexer_wf(*self), same_source(*self, *old(self)), self.cursor >= old(self).cursor, self.cursor <= self.chars@.len(),
            self.interpol_stack@ == old(self).interpol_stack@, self.prev_token == old(self).prev_token,
            old(self).col_token_starts <= 2 * old(self).cursor,
            self.col_token_starts + 2 * s@.len() <= 2 * self.cursor,
            self.lineno_token_starts >= old(self).lineno_token_starts,
            -(self.cursor - old(self).cursor) <= nest_level <= self.cursor - old(self).cursor, old(self).chars@[old(self).cursor as int] == '#',
            line_fresh(*old(self)) ==> (line_fresh(*self) || self.cursor >= self.chars@.len()),
        ensures self.cursor >= self.chars@.len(),   // the loop is left only at the end of the text
        decreases self.chars@.len() - self.cursor,""")])

    def indent_post(sn):
        # the fold with a closure that captures mutable state is outside Verus: replaced by a stub (nothing assumed except: the sum over an empty stack is 0)
        mask = make_mask(sn.text)
        a = re.search(r'let mut is_valid_dedent = false;', mask)
        b = re.search(r'let sum_indent = self\.indent_stack\.iter\(\)\.fold\(0, calc_indent_and_validate\);', mask)
        if not a or not b or b.start() < a.start():
            raise LostAnchor("lex_indent_dedent: fold over the indent stack not found")
        sn.replace_range('R2', a.start(), b.end(), 'let (sum_indent, is_valid_dedent) = w_fold_indents(&self.indent_stack, spaces_len);',
                         "closure-fold over indent_stack (is_valid_dedent / sum_indent) -> w_fold_indents (unverified stub)")
        sn.rw('R4', r'match sum_indent\.cmp\(&spaces_len\) \{', 'match w_cmp_usize(sum_indent, spaces_len) {', expect=1)
    ALL_SPACES = "forall|i: int| 0 <= i < spaces@.len() ==> spaces@[i] == ' '"
    add('lex_indent_dedent', """requires lexer_wf(*old(self)), %s,
        old(self).line_start_cursor + spaces@.len() <= old(self).cursor, old(self).lineno_token_starts + spaces@.len() <= old(self).cursor,
        old(self).enclosure_level + spaces@.len() <= old(self).cursor,
        old(self).col_token_starts + 2 * spaces@.len() <= 2 * old(self).cursor,
        old(self).indent_stack@.len() < old(self).lineno_token_starts,
        old(self).col_token_starts == 0 || old(self).cursor - spaces@.len() > old(self).chars@.len(),
    ensures final(self).chars@ == old(self).chars@, final(self).interpol_stack@ == old(self).interpol_stack@, final(self).enclosure_level == old(self).enclosure_level,
        final(self).lineno_token_starts == old(self).lineno_token_starts, final(self).line_start_cursor == old(self).line_start_cursor,
        // same indentation: nothing is emitted, the column moves past the spaces
        res is None ==> final(self).col_token_starts == old(self).col_token_starts + spaces@.len() && final(self).cursor == old(self).cursor
            && final(self).indent_stack@ == old(self).indent_stack@ && final(self).prev_token == old(self).prev_token,
        res matches Some(r) ==> ({
            // indentation deeper than CPython allows: an error, no level is opened
            ||| (r is Err && final(self).cursor == old(self).cursor && final(self).indent_stack@ == old(self).indent_stack@
                 && final(self).col_token_starts == old(self).col_token_starts + spaces@.len() && final(self).prev_token.kind is Indent && spaces@.len() >= 1)
            // deeper: exactly one level is opened and an Indent is emitted
            ||| (r is Ok && r->Ok_0.kind is Indent && final(self).cursor == old(self).cursor && final(self).indent_stack@.len() == old(self).indent_stack@.len() + 1
                 && final(self).col_token_starts == old(self).col_token_starts + spaces@.len() && final(self).prev_token.kind is Indent && spaces@.len() >= 1)
            // shallower: exactly one level is closed, the spaces are given back (they are lexed again for the next level)
            ||| (final(self).cursor == old(self).cursor - spaces@.len() && final(self).indent_stack@.len() + 1 == old(self).indent_stack@.len()
                 && final(self).col_token_starts == old(self).col_token_starts && final(self).prev_token.kind is Dedent && (r matches Ok(t) ==> t.kind is Dedent))
        }),""" % ALL_SPACES, post=indent_post, probe=True)
    add('lex_space_indent_dedent', """requires next_inv(*old(self)), !(old(self).prev_token.kind is EOF),
    ensures
        // no layout token at this point: only spaces were skipped
        res is None ==> lexer_wf(*final(self)) && same_source(*final(self), *old(self)) && final(self).prev_token == old(self).prev_token
            && final(self).interpol_stack@ == old(self).interpol_stack@ && final(self).lineno_token_starts == old(self).lineno_token_starts
            && final(self).line_start_cursor == old(self).line_start_cursor && final(self).cursor >= old(self).cursor
            && (final(self).cursor == old(self).cursor || final(self).cursor <= final(self).chars@.len())
            && final(self).col_token_starts == old(self).col_token_starts + (final(self).cursor - old(self).cursor)
            && (line_fresh(*old(self)) ==> line_fresh(*final(self))),
        res matches Some(r) ==> step_ok(*old(self), *final(self), r),""", loops=[(0, """invariant
            lexer_wf(*self), same_source(*self, *old(self)), self.cursor >= old(self).cursor, self.cursor <= self.chars@.len() || self.cursor == old(self).cursor,
            self.interpol_stack@ == old(self).interpol_stack@, self.line_start_cursor == old(self).line_start_cursor,
            self.lineno_token_starts == old(self).lineno_token_starts, self.col_token_starts == old(self).col_token_starts,
            self.prev_token == old(self).prev_token, next_inv(*old(self)),
            spaces@.len() == self.cursor - old(self).cursor,
            forall|i: int| 0 <= i < spaces@.len() ==> spaces@[i] == ' ',
            line_fresh(*old(self)) ==> line_fresh(*self),
        decreases self.chars@.len() - self.cursor,""")], probe=True)
    def next_post(sn):
        sn.rw('R5', r'fn next\(&mut self\) -> Option<Self::Item>', 'fn next(&mut self) -> Option<LexResult<Token>>', expect=1)
        sn.rw('R4', r'\bop\.insert\(0, \'`\'\);', "w_insert_front(&mut op, '`');", code_only=False, expect=1)
        sn.rw('R4', r'Self::is_definable_operator\(&op\[\.\.\]\)', 'w_is_definable_operator(&op)', expect=1)
        sn.rw('R4', r"\bop\.contains\('\+'\)", "w_contains_char(&op, '+')", code_only=False, expect=1)
    NEXT_INV = """invariant
                next_inv(*self), self.chars@ == old(self).chars@, self.indent_stack@ == old(self).indent_stack@,
                self.cursor >= old(self).cursor, self.prev_token.kind == old(self).prev_token.kind,
                pos_ok(*old(self)) ==> pos_ok(*self),
            decreases 2 * self.chars@.len() + 6 - self.cursor,"""
    TICK_INV = """invariant_except_break
                        self.cursor <= self.chars@.len(), op@.len() == self.cursor - verif_t0,
                        // positions: either no line break has been consumed, or it is part of the operator text (then the text is not definable)
                        pos_ok(*old(self)) ==> (no_nl(self.chars@, verif_ls0 as int, self.cursor as int) || verif_nl_at >= 0),
                        verif_nl_at >= 0 ==> (verif_nl_at < op@.len() && op@[verif_nl_at] == '\\n'),
                    invariant
                        lexer_wf(*self), self.chars@ == old(self).chars@, self.indent_stack@ == old(self).indent_stack@, !(old(self).prev_token.kind is EOF),
                        verif_t0 >= old(self).cursor + 1, verif_t0 <= self.chars@.len(), self.cursor >= verif_t0,
                        self.col_token_starts == verif_col0, self.line_start_cursor == verif_ls0, self.lineno_token_starts == verif_ln0,
                        verif_col0 + 2 <= 2 * verif_t0, self.indent_stack@.len() <= self.lineno_token_starts,
                        pos_ok(*old(self)) ==> (verif_col0 + 1 == verif_t0 - verif_ls0 && line_start_ok(*self)),
                    ensures
                        self.cursor <= self.chars@.len() + 1, op@.len() + 1 == self.cursor - verif_t0,
                    decreases self.chars@.len() + 1 - self.cursor,"""
    NEXT_SPEC = """requires next_inv(*old(self)),
    ensures
        // the stream ends after EOF, and only then
        res is None <==> old(self).prev_token.kind is EOF,
        res is None ==> next_inv(*final(self)) && final(self).chars@ == old(self).chars@,
        // every item: representation invariant kept, progress made, indentation bookkeeping exact, position bookkeeping exact
        res matches Some(r) ==> step_ok(*old(self), *final(self), r),"""
    # Iterator::next is one 450-line match: its verification condition is split by ARM GROUPS. Every copy is the same verbatim text with
    # the same contract; in copy k the arms outside group k keep pattern and guard and get the body `ext_other_copy()` (ensures false:
    # the path is cut there because it is verified in the copy that keeps the arm). Every arm keeps its body in exactly one copy.
    base = Snippet(src.fn('next', impl=r'Iterator for Lexer'), 'Lexer::next')
    lexer_rewrites(base)
    next_post(base)
    from vlib.extract import split_match_arms
    bmask = make_mask(base.text)
    mm = re.search(r'\breturn match self\.consume\(\) \{', bmask)
    if not mm:
        raise LostAnchor("Lexer::next: `return match self.consume() {` not found")
    ob = mm.end() - 1
    cb = match_close(bmask, ob)
    mbody = base.text[ob:cb + 1]
    pats = [' '.join(mbody[ps:pe].split()) for (ps, pe, bs, be) in split_match_arms(mbody)]
    if len(set(pats)) != len(pats):
        raise Undecided("Lexer::next: duplicate arm patterns")
    GROUP = int(os.environ.get('C08_NEXT_GROUP', '1'))
    groups = [pats[k:k + GROUP] for k in range(0, len(pats), GROUP)]
    run.extra["next_arm_groups"] = {"arms": len(pats), "copies": len(groups), "rule": "R2c: every arm of the top-level match keeps its body in exactly one copy"}
    for gi, grp in enumerate(groups):
        sn = base.copy('Lexer::next[arms %d-%d: %s]' % (gi * GROUP, gi * GROUP + len(grp) - 1, ' '.join(grp)[:60]))
        keep = set(grp)
        sn.erase_arms('R2c', lambda pat: ' '.join(pat.split()) not in keep, stub='ext_other_copy()', match_ordinal=0, drop_guard=False)
        sn.rename_fn('next__g%d' % gi)
        sn.kani_attrs('#[verifier::spinoff_prover]')   # own solver process: the copies are checked in parallel
        sn.contract(NEXT_SPEC)
        sn.body_prologue("proof { reveal_with_fuel(no_nl, 6); }")
        loops = [(0, NEXT_INV)]
        if "Some('`')" in keep:
            sn.insert_at(r'let mut op = ', "                    let ghost verif_t0 = self.cursor; let ghost verif_col0 = self.col_token_starts; let ghost verif_ls0 = self.line_start_cursor; let ghost verif_ln0 = self.lineno_token_starts; let ghost mut verif_nl_at: int = -1;", where='before')
            sn.insert_at(r'op\.push\(c\);', "                        proof { if c == '\\n' && verif_nl_at < 0 { verif_nl_at = op@.len() - 1; } }", where='after')
            loops.append((1, TICK_INV))
        for (k, inv) in loops:
            sn.loop_spec(k, inv, body_prologue="proof { reveal_with_fuel(no_nl, 6); }")
        unit.add(sn)
        if gi == len(groups) - 1:
            # vacuity probe: the same text under the same precondition with `ensures false` must be rejected
            pr = base.copy('vacuity-probe Lexer::next')
            pr.erase_arms('R2c', lambda pat: ' '.join(pat.split()) not in keep, stub='ext_other_copy()', match_ordinal=0, drop_guard=False)
            pr.rename_fn('next__vacuity_probe')
            pr.contract(NEXT_SPEC + "\n        false,")
            pr.loop_spec(0, NEXT_INV)
            unit.add(pr)
            run.extra.setdefault("vacuity_probe_labels", []).append(pr.label)
    unit.raw("}\nimpl Interpolation {\n")
    add('is_in', "ensures res == !(*self is Not),", impl=r'Interpolation')
    unit.raw("}\n} // verus!\n")
    run.sample({"function": "Iterator::next for Lexer (36 arm-group copies)", "requires": "next_inv(old)", "ensures": "None exactly after EOF; Some(r): next_inv(final), measure(final) < measure(old), Ok(t): Indent/Dedent/EOF vs. indent stack exact, pos_ok(old) && cursor inside the text ==> pos_ok(final)"})
    run.sample({"function": "Lexer::lex_space_indent_dedent / lex_indent_dedent", "ensures": "None: only spaces skipped, column advanced by them; Some(r): step_ok - deeper opens exactly one level (Indent), shallower closes exactly one and gives the spaces back (Dedent), deeper than 100 is an error"})
    run.sample({"function": "Lexer::lex_num / lex_num_dot / lex_ratio / lex_exponent / lex_bin / lex_oct / lex_hex / lex_symbol", "ensures": "total, terminate, consume only chars of the current line (line_fresh preserved), the column advances by exactly the source text consumed, the token is reported where it begins"})
    run.sample({"function": "Lexer::lex_interpolation_mid", "ensures": "total (the interpolation stack is never popped below its sentinel), terminates; Ok: the next column is exact"})
    run.sample({"function": "Lexer::lex_multi_line_str", "ensures": "total, terminates; Ok: token reported at its first column; afterwards column == source chars since the start of the last line of the literal"})
    run.sample({"function": "Lexer::lex_single_str", "ensures": "total (no unwrap on None at end of input), terminates; Ok: the token is reported at the column where it begins and the column of the next token equals the source chars consumed on the line, whatever escapes the literal contains"})
    run.sample({"function": "Lexer::lex_raw_ident", "ensures": "total; terminates; Ok(t): t.col_begin == column at entry, column advances by exactly the source chars consumed; no newline swallowed"})
    run.sample({"function": "Lexer::emit_singleline_token", "ensures": "token.col_begin == col_token_starts at entry, token.lineno == line + 1; column advances by the content length"})
    run.sample({"function": "Lexer::consume / peek_*", "ensures": "return exactly the char at (relative to) the cursor or None past the end; only the cursor moves"})
    return unit


def run(run, replay=None):
    from units.C08 import cex
    run.fallbacks.append(("Lexer", lambda: cex.find(run)))
    if run.tier == 'thorough':
        run.explorations.append(("Lexer (random texts)", lambda: cex.explore_random(run)))
    unit = build(run)
    res = unit.run(rlimit=240, threads=16)
    run.add_verus(unit, res, cex_finder=lambda f: cex.find(run, f), expect_fail=tuple(run.extra.get('vacuity_probe_labels', ())))
