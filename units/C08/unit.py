"""C08 (partial): lexer primitives and string/comment lexers (erg_parser/lex.rs, token.rs). Verus on the real text:
totality (no unwrap on None, no index/overflow panic), termination, and position bookkeeping (the column of the next token
equals the number of source characters since the start of its line)."""
import os
import re

from vlib.extract import Source, make_mask, match_close, LostAnchor
from vlib.snippet import Snippet, Undecided
from vlib.verus_unit import VerusUnit
from vlib import rules

HERE = os.path.dirname(os.path.abspath(__file__))
LEX = 'crates/erg_parser/lex.rs'
TOKEN = 'crates/erg_parser/token.rs'


def lit_len(lit_src):
    """number of chars of a Rust string literal body (between the quotes)"""
    n = 0
    i = 0
    while i < len(lit_src):
        if lit_src[i] == '\\':
            if lit_src[i + 1] == 'u':
                i = lit_src.index('}', i) + 1
            elif lit_src[i + 1] == 'x':
                i += 4
            else:
                i += 2
        else:
            i += 1
        n += 1
    return n


def errors_r3(sn):
    for pat in (r'\bSelf::(str_line_break_error|invalid_escape_error|unclosed_string_error|unclosed_interpol_error)\s*\(',
                r'\bLexError::(syntax_error|simple_syntax_error|feature_error)\s*\('):
        while True:
            mask = make_mask(sn.text)
            m = re.search(pat, mask)
            if not m:
                break
            cp = match_close(mask, m.end() - 1)
            sn.replace_range('R3', m.start(), cp + 1, 'ext_lex_error()', "%s..) -> ext_lex_error()" % pat)


def lexer_rewrites(sn):
    rules.strip_vis_attrs(sn)
    errors_r3(sn)
    # string literal construction / appends: lengths computed from the literal (R9)
    sn.rw('R9', r'"((?:[^"\\]|\\.)*)"\.to_string\(\)', lambda m: 'w_lit_string("%s", Ghost(%d))' % (m.group(1), lit_len(m.group(1))), code_only=False)
    sn.rw('R9', r'\b(\w+)\.push_str\("((?:[^"\\]|\\.)*)"\)', lambda m: 'w_push_lit(&mut %s, "%s", Ghost(%d))' % (m.group(1), m.group(2), lit_len(m.group(2))), code_only=False)
    sn.rw('R4', r'\b(\w+)\.push_str\(quote\.quotes\(\)\);', r'w_push_str(&mut \1, quote.quotes());')
    sn.rw('R4', r'quote\.quotes\(\)\.to_string\(\)', 'w_to_string(quote.quotes())')
    sn.rw('R3', r'&format!\("\\\\\{(\w+)\}"\)', r'&w_backslash_char(\1)', code_only=False)
    sn.rw('R4', r'\b(\w+)\.is_ascii_hexdigit\(\)', r'w_is_ascii_hexdigit(\1)')
    sn.rw('R4', r'self\.chars\.get\(([^;]*?)\)\.copied\(\)', r'w_get_copied(&self.chars, \1)')
    sn.rw('R4', r'\bs\.clear\(\);', 'w_clear(&mut s);')
    sn.rw('R4', r'self\.interpol_stack\.last\(\)\.copied\(\)\.unwrap\(\)', '(*w_last_interp(&self.interpol_stack))')
    sn.rw('R4', r'self\.interpol_stack\.last\(\)\.unwrap\(\)', 'w_last_interp(&self.interpol_stack)')
    sn.rw('R8', r'char::from_u32\(\s*u32::from_str_radix\(&hex, 16\)\.unwrap\(\)\s*\)\s*\.unwrap\(\)', 'w_hex_to_char(&hex)')
    sn.rw('R7', r'\bfor _ in 0\.\.2\b', 'for verif_i in 0usize..2')
    rules.diagnostics(sn)


def build(run):
    src = Source(run.repo, LEX)
    tsrc = Source(run.repo, TOKEN)
    unit = VerusUnit('C08', run.scratch)
    unit.raw_file(os.path.join(HERE, 'prelude.rs'))
    unit.raw("verus! {\nuse TokenKind::*;\n")
    tk = Snippet(tsrc.item('enum', 'TokenKind'), 'enum TokenKind')
    rules.erase_enum_payloads(tk, set(), derives='#[derive(Clone, Copy, PartialEq, Eq)]\n')
    unit.add(tk)
    tok = Snippet(tsrc.item('struct', 'Token'), 'struct Token')
    from units.C14.unit import keep_struct_fields
    keep_struct_fields(tok, {'TokenKind', 'Str', 'u32'}, 'Token')
    unit.add(tok)
    unit.raw("""impl Clone for Token {
    // @trusted: derived Clone on Token copies every field
    #[verifier::external_body]
    fn clone(&self) -> (r: Self) ensures r.kind == self.kind, r.content@ == self.content@, r.lineno == self.lineno, r.col_begin == self.col_begin, r.col_end == self.col_end { unimplemented!() }
}
impl Token {
""")
    tn = Snippet(tsrc.fn('new', impl=r'Token'), 'Token::new')
    rules.strip_vis_attrs(tn)
    tn.rw('R5', r'fn new<S: Into<Str>>\(kind: TokenKind, cont: S,', 'fn new(kind: TokenKind, cont: Str,', expect=1)
    tn.rw('R5', r'cont\.into\(\)', 'cont', expect=1)
    tn.rw('R4', r'content\.chars\(\)\.count\(\)', 'w_chars_count(&content)', expect=1)
    tn.contract("""requires col_begin + cont@.len() <= u32::MAX,
    ensures res.kind == kind, res.content@ == cont@, res.lineno == lineno, res.col_begin == col_begin,
        res.col_end == col_begin + cont@.len(),   // a token ends where its text ends""")
    unit.add(tn)
    unit.raw("}\n")
    for e in ('Quote', 'Interpolation'):
        en = Snippet(src.item('enum', e), 'enum ' + e)
        rules.erase_enum_payloads(en, {'Quote'}, derives='#[derive(Clone, Copy, PartialEq, Eq)]\n')
        unit.add(en)
    unit.raw("impl Quote {\n")
    for f, spec in (('quotes', "ensures res@.len() == 3,"), ('char', "ensures res == (if *self is Single { '\\'' } else { '\"' }), res != '\\n',"),
                    ('token_kind', "")):
        q = Snippet(src.fn(f, impl=r'Quote'), 'Quote::' + f)
        rules.strip_vis_attrs(q)
        q.contract(spec)
        if f == 'quotes':
            q.body_prologue("proof { reveal_strlit(\"'''\"); reveal_strlit(\"\\\"\\\"\\\"\"); }")
        unit.add(q)
    unit.raw("}\n")
    lx = Snippet(src.item('struct', 'Lexer'), 'struct Lexer')
    keep_struct_fields(lx, {'Vec<char>', 'Vec<usize>', 'usize', 'Token', 'u32', 'Vec<Interpolation>'}, 'Lexer')
    unit.add(lx)
    unit.raw("impl Lexer {\n")

    def add(fname, spec, label=None, post=None, loops=(), hints=None):
        sn = Snippet(src.fn(fname, impl=r'Lexer'), 'Lexer::' + fname)
        lexer_rewrites(sn)
        if post:
            post(sn)
        sn.contract(spec)
        if hints:
            hints(sn)
        for (k, inv) in loops:
            sn.loop_spec(k, inv)
        unit.add(sn)
        return sn

    add('is_bidi', "ensures res ==> c != '\\n',")
    add('consume', """requires old(self).cursor < usize::MAX,
    ensures final(self).cursor == old(self).cursor + 1,
        res == (if old(self).cursor < old(self).chars@.len() { Some(old(self).chars@[old(self).cursor as int]) } else { None::<char> }),
        same_source(*final(self), *old(self)), final(self).col_token_starts == old(self).col_token_starts, final(self).lineno_token_starts == old(self).lineno_token_starts,
        final(self).line_start_cursor == old(self).line_start_cursor, final(self).interpol_stack@ == old(self).interpol_stack@,""")
    add('peek_prev_prev_ch', "ensures res == (if self.cursor >= 2 && self.cursor - 2 < self.chars@.len() { Some(self.chars@[self.cursor - 2]) } else { None::<char> }),")
    add('peek_prev_ch', "ensures res == (if self.cursor >= 1 && self.cursor - 1 < self.chars@.len() { Some(self.chars@[self.cursor - 1]) } else { None::<char> }),")
    add('peek_cur_ch', "ensures res == (if self.cursor < self.chars@.len() { Some(self.chars@[self.cursor as int]) } else { None::<char> }),")
    add('peek_next_ch', "requires self.cursor < usize::MAX,\n    ensures res == (if self.cursor + 1 < self.chars@.len() { Some(self.chars@[self.cursor + 1]) } else { None::<char> }),")
    EMIT_FRAME = """same_source(*final(self), *old(self)), final(self).cursor == old(self).cursor, final(self).lineno_token_starts == old(self).lineno_token_starts,
        final(self).line_start_cursor == old(self).line_start_cursor, final(self).interpol_stack@ == old(self).interpol_stack@,"""

    def emit_post(sn):
        sn.rw('R4', r'self\.str_cache\.get\(cont\)', 'w_cache_get(&self.str_cache, cont)', expect=1)
        sn.rw('R4', r'cont\.chars\(\)\.count\(\)', 'w_chars_count(&cont)', expect=1)
        sn.rw('R4', r'cont\.lines\(\)\.count\(\)', 'w_lines_count(&cont)')
    add('emit_singleline_token', """requires old(self).col_token_starts + cont@.len() <= 0x7FFF_FFFF, old(self).lineno_token_starts < u32::MAX,
    ensures res.kind == kind, res.content@ == cont@,
        res.lineno == old(self).lineno_token_starts + 1, res.col_begin == old(self).col_token_starts,   // the token is reported where it begins
        final(self).col_token_starts == old(self).col_token_starts + cont@.len(),
        %s""" % EMIT_FRAME, post=emit_post)
    add('emit_multiline_token', """requires col_begin + cont@.len() <= 0x7FFF_FFFF, old(self).col_token_starts + cont@.len() <= 0x7FFF_FFFF, old(self).lineno_token_starts <= u32::MAX - 2,
    ensures res.kind == kind, res.content@ == cont@, res.col_begin == col_begin,
        final(self).col_token_starts == old(self).col_token_starts + cont@.len(),
        %s""" % EMIT_FRAME, post=emit_post)
    add('sync_col', """requires lexer_wf(*old(self)),
    ensures final(self).col_token_starts == old(self).cursor - old(self).line_start_cursor,
        same_source(*final(self), *old(self)), final(self).cursor == old(self).cursor, final(self).lineno_token_starts == old(self).lineno_token_starts,
        final(self).line_start_cursor == old(self).line_start_cursor, final(self).interpol_stack@ == old(self).interpol_stack@,
        lexer_wf(*final(self)), line_fresh(*old(self)) ==> pos_ok(*final(self)),""")
    FRAME = """same_source(*final(self), *old(self)), final(self).cursor >= old(self).cursor, lexer_wf(*final(self)),"""
    add('invalid_unicode_character', """requires lexer_wf(*old(self)), old(self).col_token_starts + s@.len() <= 0x7FFF_FFFF, old(self).lineno_token_starts < u32::MAX,
    ensures %s final(self).cursor == old(self).cursor, final(self).interpol_stack@ == old(self).interpol_stack@, final(self).line_start_cursor == old(self).line_start_cursor,
        final(self).lineno_token_starts == old(self).lineno_token_starts,""" % FRAME)

    def comment_post(sn):
        sn.rw('R4', r"self\.peek_cur_ch\(\)\.map\(\|cur\| cur != '\\n'\)\.unwrap_or\(false\)",
              lambda m: "(match self.peek_cur_ch() { Some(cur) => cur != '\\n', None => false })", expect=1)
    add('lex_comment', """requires lexer_wf(*old(self)), old(self).cursor <= old(self).chars@.len(), old(self).col_token_starts <= 0x1FFF_FFFF, old(self).lineno_token_starts < u32::MAX,
    ensures %s final(self).interpol_stack@ == old(self).interpol_stack@, final(self).line_start_cursor == old(self).line_start_cursor,
        final(self).lineno_token_starts == old(self).lineno_token_starts,
        // a comment runs up to, not including, the end of the line: no newline is swallowed
        forall|k: int| old(self).cursor <= k < final(self).cursor ==> k < final(self).chars@.len() && final(self).chars@[k] != '\\n',
        res is Ok ==> (final(self).cursor == final(self).chars@.len() || final(self).chars@[final(self).cursor as int] == '\\n'),
        res is Ok ==> final(self).col_token_starts == old(self).col_token_starts,""" % FRAME, post=comment_post, loops=[(0, """invariant
            lexer_wf(*self), same_source(*self, *old(self)), self.cursor >= old(self).cursor, self.cursor <= self.chars@.len(),
            self.interpol_stack@ == old(self).interpol_stack@, self.line_start_cursor == old(self).line_start_cursor,
            self.lineno_token_starts == old(self).lineno_token_starts, self.col_token_starts == old(self).col_token_starts,
            old(self).col_token_starts <= 0x1FFF_FFFF, old(self).lineno_token_starts < u32::MAX,
            s@.len() == self.cursor - old(self).cursor,
            forall|k: int| old(self).cursor <= k < self.cursor ==> k < self.chars@.len() && self.chars@[k] != '\\n',
        decreases self.chars@.len() - self.cursor,""")])


    add('lex_raw_ident', """requires lexer_wf(*old(self)), old(self).cursor >= 1, old(self).cursor <= old(self).chars@.len(), old(self).col_token_starts <= 0x1FFF_FFFF, old(self).lineno_token_starts < u32::MAX,
    ensures %s final(self).interpol_stack@ == old(self).interpol_stack@, final(self).line_start_cursor == old(self).line_start_cursor,
        final(self).lineno_token_starts == old(self).lineno_token_starts,
        forall|k: int| old(self).cursor <= k < final(self).cursor ==> k < final(self).chars@.len() && final(self).chars@[k] != '\\n',
        // the token is reported where it begins and the column advances by exactly the source text consumed (opening quote included)
        res matches Ok(t) ==> t.col_begin == old(self).col_token_starts && t.lineno == old(self).lineno_token_starts + 1
            && final(self).col_token_starts == old(self).col_token_starts + 1 + (final(self).cursor - old(self).cursor),""" % FRAME, loops=[(0, """invariant
            lexer_wf(*self), same_source(*self, *old(self)), self.cursor >= old(self).cursor, self.cursor <= self.chars@.len(),
            self.interpol_stack@ == old(self).interpol_stack@, self.line_start_cursor == old(self).line_start_cursor,
            self.lineno_token_starts == old(self).lineno_token_starts, self.col_token_starts == old(self).col_token_starts,
            old(self).col_token_starts <= 0x1FFF_FFFF, old(self).lineno_token_starts < u32::MAX,
            s@.len() == 1 + (self.cursor - old(self).cursor),
            forall|k: int| old(self).cursor <= k < self.cursor ==> k < self.chars@.len() && self.chars@[k] != '\\n',
        decreases self.chars@.len() - self.cursor,""")])

    STR_PRE = "requires lexer_wf(*old(self)), old(self).cursor >= 1, old(self).cursor <= old(self).chars@.len(), old(self).col_token_starts <= 0x1FFF_FFFF, old(self).lineno_token_starts < u32::MAX - 2,"
    SNAP = lambda sn: sn.insert_at(r'match c \{', "            let ghost verif_c0 = self.cursor;", where='before')
    add('lex_single_str_', STR_PRE + """
    ensures %s final(self).line_start_cursor == old(self).line_start_cursor, final(self).lineno_token_starts == old(self).lineno_token_starts,
        final(self).interpol_stack@.len() >= 1,
        res is Ok ==> forall|k: int| old(self).cursor <= k < final(self).cursor ==> k < final(self).chars@.len() && final(self).chars@[k] != '\\n',
        res matches Ok(t) ==> t.col_begin == old(self).col_token_starts && t.lineno == old(self).lineno_token_starts + 1,""" % FRAME,
        loops=[(0, """invariant
            lexer_wf(*self), same_source(*self, *old(self)), self.cursor >= old(self).cursor, self.cursor <= self.chars@.len(),
            self.line_start_cursor == old(self).line_start_cursor, self.lineno_token_starts == old(self).lineno_token_starts,
            self.col_token_starts == old(self).col_token_starts, self.interpol_stack@ == old(self).interpol_stack@,
            old(self).col_token_starts <= 0x1FFF_FFFF, old(self).lineno_token_starts < u32::MAX - 2,
            s@.len() <= 1 + 2 * (self.cursor - old(self).cursor),
            forall|k: int| old(self).cursor <= k < self.cursor ==> k < self.chars@.len() && self.chars@[k] != '\\n',
        decreases self.chars@.len() - self.cursor,"""),
               (1, """invariant
                                    lexer_wf(*self), same_source(*self, *old(self)), self.cursor >= old(self).cursor + 2, self.cursor <= self.chars@.len(),
                                    self.line_start_cursor == old(self).line_start_cursor, self.lineno_token_starts == old(self).lineno_token_starts,
                                    self.col_token_starts == old(self).col_token_starts, self.interpol_stack@ == old(self).interpol_stack@,
                                    old(self).col_token_starts <= 0x1FFF_FFFF, old(self).lineno_token_starts < u32::MAX - 2,
                                    hex@.len() == verif_i, verif_i <= 2,
                                    self.cursor == verif_c0 + 2 + verif_i, verif_c0 >= old(self).cursor,
                                    s@.len() <= 1 + 2 * (verif_c0 - old(self).cursor),
                                    forall|k: int| old(self).cursor <= k < self.cursor ==> k < self.chars@.len() && self.chars@[k] != '\\n',""")], hints=SNAP)
    add('lex_single_str', STR_PRE + """
    ensures %s final(self).line_start_cursor == old(self).line_start_cursor, final(self).lineno_token_starts == old(self).lineno_token_starts,
        final(self).interpol_stack@.len() >= 1,
        // after a single-line string literal (whatever escape sequences it contains) the next token's column is exact
        (res is Ok && line_fresh(*old(self))) ==> pos_ok(*final(self)),
        res matches Ok(t) ==> t.col_begin == old(self).col_token_starts && t.lineno == old(self).lineno_token_starts + 1,""" % FRAME)
    ML_PRE = "requires lexer_wf(*old(self)), old(self).cursor >= 3, old(self).cursor <= old(self).chars@.len(), old(self).col_token_starts <= 0x1FFF_FFFF, old(self).lineno_token_starts < 0x1FFF_FFFF,"
    ML_INV = """invariant
            lexer_wf(*self), same_source(*self, *old(self)), self.cursor >= old(self).cursor, self.cursor <= self.chars@.len(),
            self.interpol_stack@ == old(self).interpol_stack@,
            self.lineno_token_starts >= old(self).lineno_token_starts, self.lineno_token_starts - old(self).lineno_token_starts <= self.cursor - old(self).cursor,
            self.col_token_starts <= 0x1FFF_FFFF, col_begin == old(self).col_token_starts,
            old(self).col_token_starts <= 0x1FFF_FFFF, old(self).lineno_token_starts < 0x1FFF_FFFF,
            s@.len() <= 3 + 2 * (self.cursor - old(self).cursor),
            line_fresh(*old(self)) ==> line_fresh(*self),
        decreases self.chars@.len() - self.cursor,"""
    add('lex_multi_line_str_', ML_PRE + """
    ensures %s final(self).interpol_stack@.len() >= 1,
        (res is Ok && line_fresh(*old(self))) ==> line_fresh(*final(self)),
        res matches Ok(t) ==> t.col_begin == old(self).col_token_starts,""" % FRAME, loops=[(0, ML_INV)])
    add('lex_multi_line_str', ML_PRE + """
    ensures %s final(self).interpol_stack@.len() >= 1,
        // after a multi-line string the next token's column counts from the start of the string's LAST line
        (res is Ok && line_fresh(*old(self))) ==> pos_ok(*final(self)),
        res matches Ok(t) ==> t.col_begin == old(self).col_token_starts,""" % FRAME)
    IM_PRE = "requires lexer_wf(*old(self)), old(self).cursor >= 1, old(self).cursor <= old(self).chars@.len(), old(self).col_token_starts <= 0x1FFF_FFFF, old(self).lineno_token_starts < 0x1FFF_FFFF,"
    IM_INV = """invariant
            lexer_wf(*self), same_source(*self, *old(self)), self.cursor >= old(self).cursor, self.cursor <= self.chars@.len(),
            self.interpol_stack@ == old(self).interpol_stack@,
            self.lineno_token_starts >= old(self).lineno_token_starts, self.lineno_token_starts - old(self).lineno_token_starts <= self.cursor - old(self).cursor,
            self.col_token_starts <= 0x1FFF_FFFF,
            old(self).col_token_starts <= 0x1FFF_FFFF, old(self).lineno_token_starts < 0x1FFF_FFFF,
            s@.len() <= 1 + 2 * (self.cursor - old(self).cursor),
            line_fresh(*old(self)) ==> line_fresh(*self),
        decreases self.chars@.len() - self.cursor,"""
    add('lex_interpolation_mid_', IM_PRE + """
    ensures %s
        (res is Ok && line_fresh(*old(self))) ==> line_fresh(*final(self)),""" % FRAME, loops=[(0, IM_INV)])
    add('lex_interpolation_mid', IM_PRE + """
    ensures %s
        // after the tail of an interpolated string the next token's column is exact
        (res is Ok && line_fresh(*old(self))) ==> pos_ok(*final(self)),""" % FRAME)
    unit.raw("}\n} // verus!\n")
    run.sample({"function": "Lexer::lex_interpolation_mid", "ensures": "total (the interpolation stack is never popped below its sentinel), terminates; Ok: the next column is exact"})
    run.sample({"function": "Lexer::lex_multi_line_str", "ensures": "total, terminates; Ok: token reported at its first column; afterwards column == source chars since the start of the last line of the literal"})
    run.sample({"function": "Lexer::lex_single_str", "ensures": "total (no unwrap on None at end of input), terminates; Ok: the token is reported at the column where it begins and the column of the next token equals the source chars consumed on the line, whatever escapes the literal contains"})
    run.sample({"function": "Lexer::lex_raw_ident", "ensures": "total; terminates; Ok(t): t.col_begin == column at entry, column advances by exactly the source chars consumed; no newline swallowed"})
    run.sample({"function": "Lexer::emit_singleline_token", "ensures": "token.col_begin == col_token_starts at entry, token.lineno == line + 1; column advances by the content length"})
    run.sample({"function": "Lexer::consume / peek_*", "ensures": "return exactly the char at (relative to) the cursor or None past the end; only the cursor moves"})
    return unit


def run(run, replay=None):
    from units.C08 import cex
    run.fallbacks.append(("Lexer", lambda: cex.find(run)))
    unit = build(run)
    res = unit.run(rlimit=80)
    run.add_verus(unit, res, cex_finder=lambda f: cex.find(run, f))
