"""C03 (partial): refinement subtyping is sound for integer predicates.
Context::is_super_pred_of (compare.rs) on comparison atoms, True/False and conjunctions of them (unbounded depth),
TyParamOrdering::{canbe_eq,canbe_le,canbe_ge,is_lt,is_gt}. Verus."""
import os
import re

from vlib.extract import Source
from vlib.snippet import Snippet, Undecided
from vlib.verus_unit import VerusUnit
from vlib import rules
from units.C32 import unit as c32

HERE = os.path.dirname(os.path.abspath(__file__))
COMPARE_RS = 'crates/erg_compiler/context/compare.rs'
TYPARAM_RS = 'crates/erg_compiler/ty/typaram.rs'
CTX_MOD = 'crates/erg_compiler/context/mod.rs'

# every predicate of TyParamOrdering, specified on the exact orderings try_cmp returns for constants
ORD_SPECS = {
    'canbe_eq': "ensures ord_exact(self) ==> res == (self is Equal),",
    'canbe_lt': "ensures ord_exact(self) ==> res == (self is Less),",
    'canbe_gt': "ensures ord_exact(self) ==> res == (self is Greater),",
    'canbe_le': "ensures ord_exact(self) ==> res == (self is Less || self is Equal),",
    'canbe_ge': "ensures ord_exact(self) ==> res == (self is Greater || self is Equal),",
    'canbe_ne': "",  # (matches NotEqual | Any only: no meaningful reading on exact orderings; extracted without a contract)
    'is_lt': "ensures ord_exact(*self) ==> res == (*self is Less),",
    'is_le': "ensures ord_exact(*self) ==> res == (*self is Less || *self is Equal),",
    'is_gt': "ensures ord_exact(*self) ==> res == (*self is Greater),",
    'is_ge': "ensures ord_exact(*self) ==> res == (*self is Greater || *self is Equal),",
    'is_eq': "ensures ord_exact(*self) ==> res == (*self is Equal),",
    'is_ne': "ensures ord_exact(*self) ==> res == (*self is Less || *self is Greater),",
}


def out_of_scope_arm(pat):
    p = ' '.join(pat.split())
    if re.search(r'\bPred(icate)?::(Or|Call|General\w+)\b', p):
        return True
    if re.search(r'Pred::And\(_, _\), Pred::And\(_, _\)', p):
        return True
    return False


def build(run):
    unit = VerusUnit('C03', run.scratch)
    src = c32.pred_common(unit, run)
    unit.raw("} // verus!\n")
    unit.raw_file(os.path.join(HERE, 'prelude_extra.rs'))
    unit.raw("verus! {\nuse TyParamOrdering::*;\n")
    tsrc = Source(run.repo, TYPARAM_RS)
    en = Snippet(tsrc.item('enum', 'TyParamOrdering'), 'enum TyParamOrdering')
    rules.erase_enum_payloads(en, set(), derives='#[derive(Clone, Copy)]\n')
    unit.add(en)
    msrc = Source(run.repo, CTX_MOD)
    var = Snippet(msrc.item('enum', 'Variance'), 'enum Variance')
    rules.erase_enum_payloads(var, set())
    unit.add(var)
    unit.raw("impl TyParamOrdering {\n")
    for f, spec in ORD_SPECS.items():
        sn = Snippet(tsrc.fn(f, impl=r'TyParamOrdering'), 'TyParamOrdering::' + f)
        rules.strip_vis_attrs(sn)
        sn.contract(spec)
        unit.add(sn)
    unit.raw("}\n")
    csrc = Source(run.repo, COMPARE_RS)
    f = Snippet(csrc.fn('is_super_pred_of', impl=r'Context'), 'Context::is_super_pred_of')
    rules.strip_vis_attrs(f)
    rules.diagnostics(f)
    f.rw('R3', r'if DEBUG_MODE \{\s*\}', '')
    f.erase_arms('R2', out_of_scope_arm)
    # R4: Option::is_some_and(closure) -> match
    f.rw('R4', r'(self\s*\.\s*try_cmp\([^)]*\))\s*\.is_some_and\(\|(\w+)\|\s*([^)]*\(\))\)',
         r'(match \1 { Some(\2) => \3, None => false })')
    f.rw('R4', r'if lhs == rhs \{', 'if *lhs == *rhs {', expect=1)  # PartialEq for &A delegates to A
    # R4: Option::map(closure).unwrap_or(false) -> match (definition of map/unwrap_or)
    f.rw('R4', r'(self\s*\.\s*try_cmp\([^)]*\))\s*\.map\(\|(\w+)\|\s*([^)]*\(\))\)\s*\.unwrap_or\(false\)',
         r'(match \1 { Some(\2) => \3, None => false })')
    # R4: `a != b` on two `&TyParam` compares the referents
    f.rw('R4', r'\brhs_ne != rhs_eq\b', '*rhs_ne != *rhs_eq', expect=1)
    classes = ['Value', 'Equal', 'NotEqual', 'GreaterEqual', 'LessEqual', 'And']
    copies = []
    for a in classes:
        for b in classes:
            if a == 'And' and b == 'And':
                continue
            c = f.copy('Context::is_super_pred_of[%s,%s]' % (a, b))
            c.rename_fn('is_super_pred_of__%s_%s' % (a, b))
            c.contract("""requires pred_ok(*lhs), pred_ok(*rhs), *lhs is %s, *rhs is %s,
    ensures res ==> forall|i: int| #[trigger] sat(*rhs, i) ==> sat(*lhs, i),""" % (a, b))
            c.body_prologue("broadcast use group_sat;")
            copies.append(c)
    f.contract("""requires pred_ok(*lhs), pred_ok(*rhs), !(*lhs is And && *rhs is And),
    ensures res ==> forall|i: int| #[trigger] sat(*rhs, i) ==> sat(*lhs, i),
    decreases pred_size(*lhs) + pred_size(*rhs),""")
    f.body_prologue("broadcast use group_sat;")
    unit.raw("impl Context {\n")
    unit.add(f)
    for c in copies:
        unit.add(c)
    unit.raw("}\n} // verus!\n")
    run.sample({"function": "Context::is_super_pred_of", "requires": "atoms over integer constants, True/False and conjunctions; not And x And",
                "ensures": "res ==> forall i. sat(rhs, i) ==> sat(lhs, i)   (soundness of the accepted implication, unbounded conjunction depth)"})
    return unit


def explore(run):
    """Bounded run-time-checked contract on the REAL refinement subtyping judgement (Context::subtype_of on {I: Int | P} / {I: Int | Q}):
    covers the compound arms of is_super_pred_of that are R2-erased in the Verus unit ((And, And), (Or, Or), (lhs, Or), (Or, rhs)...)."""
    import json
    import subprocess
    from vlib import replay as rp
    binary = rp.build(run, 'c03')
    p = subprocess.run([binary], capture_output=True, text=True, timeout=1200)
    lines = [ln for ln in p.stdout.split('\n') if ln.strip().startswith('{')]
    if not lines:
        return {"found": False, "note": "replay produced no result: %s" % p.stderr[-300:]}
    j = json.loads(lines[-1])
    run.extra["bounded_contract_on_refinement_subtyping"] = {"pairs": j.get("pairs"), "accepted": j.get("accepted"),
        "universe": "P, Q over the 12 comparison atoms (==, !=, >=, <=) x constants {-1, 0, 2}, all conjunctions and disjunctions of two of them, the strict comparisons < and > (Predicate::lt / gt), the negation (Predicate::invert) of every compound, and the 12 interval types a..b, a<..b, a..<b, a<..<b built by constructors::int_interval (297 refinement types, all pairs)",
        "contract": "accepted => every integer of -6..=8 satisfying P satisfies Q (soundness only)"}
    fds = [{"key": v["pair"], "verdict": "%s, but I = %d satisfies the first predicate and not the second" % (v["pair"], v["witness"]),
            "how": "the real Context::subtype_of on refinement types built with the real Predicate constructors; denotation evaluated independently",
            "input": {"pair": v["pair"], "witness": v["witness"]}, "oracle": "set inclusion of the two predicates on -6..=8", "replay_cmd": binary} for v in j.get("violations", [])]
    return {"found": bool(fds), "findings": fds, "note": "%d pairs, %d accepted, %d unsound acceptances" % (j.get("pairs", 0), j.get("accepted", 0), len(fds))}


def run(run, replay=None):
    from units.C03 import cex as _cex
    run.explorations.append(("refinement subtyping", lambda: explore(run)))
    run.fallbacks.append(("refinement subtyping (programs checked by the real compiler)", lambda: _cex.find(run)))
    unit = build(run)
    res = unit.run(rlimit=60)
    run.add_verus(unit, res, cex_finder=lambda f: _cex.find(run, f))
    # The assumed contract of Context::try_cmp on constants rests on its first two steps being literally the equality test and the
    # value comparison that the Kani unit verifies; a change of that glue is a lost anchor (exit 2), not silently accepted.
    from vlib.extract import Source, LostAnchor
    ctc = ' '.join(Source(run.repo, 'crates/erg_compiler/context/compare.rs').fn('try_cmp', impl=r'Context').text.split())
    for frag in ('if l == r { return Some(Equal); }', '(TyParam::Value(l), TyParam::Value(r)) => l.try_cmp(r).map(Into::into),'):
        if frag not in ctc:
            raise LostAnchor("Context::try_cmp: `%s` not found (the chain Context::try_cmp -> ValueObj::try_cmp the assumed contract rests on)" % frag)
    from units.C03 import kani as _kani
    _kani.run_kani(run)     # the value comparison Context::try_cmp bottoms out in (ValueObj::try_cmp, PartialEq for ValueObj)
    run.assumptions.append("Context::try_cmp on integer-constant TyParams: its two first steps (`l == r`, then `l.try_cmp(r).map(Into::into)` for two values) are checked textually and ValueObj::try_cmp / PartialEq for ValueObj are verified by Kani over the full domain of the integer classes; the glue between them (TyParam::Value wrapping, PartialEq for TyParam, From<Ordering> for TyParamOrdering) stays assumed. Callee contracts assumed, not proved: supertype_of_tp on integer-constant TyParams (equality), TyParam::has_upper_bound/has_lower_bound (true on integer constants), TyParam::eq complete on integer constants.")
    run.assumptions.append("Not carried: the (And, And), (Or, Or), (lhs, Or), (Or, rhs), Call and General* arms (iterator/closure/Set::get_by/reduce_preds) and structural_supertype_of's refinement arm that calls this function. Observation (read, not machine-checked): the (And, And) arm checks for every rhs conjunct that SOME lhs conjunct is a super-predicate of it, where soundness needs that for every lhs conjunct some rhs conjunct is below it.")
