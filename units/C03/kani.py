"""C03 Kani unit: the comparison of constant values that the refinement judgement bottoms out in.
`Context::try_cmp(TyParam::Value(l), TyParam::Value(r))` is `l.try_cmp(r)` (ValueObj, value.rs) after an `l == r` test (PartialEq for
ValueObj). The Verus unit ASSUMED that this chain returns the exact ordering of two integer constants; here that contract is checked on
the real text of `ValueObj::try_cmp`, `PartialEq for ValueObj`, `TryFrom<&ValueObj> for f64` and `is_num`, loop-free over the full
domain of every pair of integer classes (Int: i32, Nat: u64, Bool)."""
import os
import re

from vlib.extract import Source
from vlib.snippet import Snippet
from vlib.kani_unit import KaniUnit
from vlib import rules

HERE = os.path.dirname(os.path.abspath(__file__))
VALUE_RS = 'crates/erg_compiler/ty/value.rs'
KEEP = {'i32', 'u64', 'bool', 'Float'}
TY = {'Int': 'i32', 'Nat': 'u64', 'Bool': 'bool'}


def mk(cls, var):
    return "ValueObj::%s(%s)" % (cls, var)


def ival(cls, var):
    return "(%s as i128)" % var


def build(run):
    src = Source(run.repo, VALUE_RS)
    unit = KaniUnit('C03', run.scratch)
    unit.raw(open(os.path.join(os.path.dirname(HERE), 'C04', 'kani_prelude.rs')).read())
    fl = Snippet(src.item('struct', 'Float', with_attrs=True), 'struct Float')
    unit.add(fl)
    unit.add(Snippet(src.impl_block(r'Deref for Float'), 'impl Deref for Float'))
    en = Snippet(src.item('enum', 'ValueObj'), 'enum ValueObj')
    variants = rules.erase_enum_payloads(en, KEEP, derives='#[derive(Clone)]\n')
    erased = [v for (v, kind, tys) in variants if any('Opaque' in t for t in tys)]
    rx = re.compile(r'\b(?:Self|ValueObj)::(%s)\b\s*(\(\s*([^)]*)\)|\{)' % '|'.join(erased))

    def pred(pat):
        if rules.or_pattern_with_guard(pat):
            return True
        for m in rx.finditer(pat):
            if m.group(2).startswith('{') or (m.group(3) or '').strip() not in ('_', '..'):
                return True
        return False
    unit.add(en)
    # PartialEq for ValueObj (arms over erased payloads are R2-erased; none of them matches an integer class)
    eqf = Snippet(src.fn('eq', impl=r'PartialEq for ValueObj'), 'PartialEq for ValueObj::eq')
    eqf.erase_arms('R2', pred)
    unit.raw("impl PartialEq for ValueObj {\n")
    unit.add(eqf)
    unit.raw("}\n")
    unit.add(Snippet(src.impl_block(r'TryFrom<&ValueObj> for f64'), 'impl TryFrom<&ValueObj> for f64'))
    unit.raw("impl ValueObj {\n")
    isn = Snippet(src.fn('is_num', impl=r'ValueObj'), 'ValueObj::is_num')
    unit.add(isn)
    tc = Snippet(src.fn('try_cmp', impl=r'ValueObj'), 'ValueObj::try_cmp')
    rules.diagnostics(tc)
    rules.aborts(tc)
    # the catch-all arm goes through try_eq on clones (non-numeric values): unspecified here
    # (the arm that binds both operands to plain identifiers, whatever they are called)
    tc.erase_arms('R2', lambda pat: pred(pat) or re.match(r'^\(\s*[a-z_]\w*\s*,\s*[a-z_]\w*\s*\)\s*$', pat.strip()) is not None)
    unit.add(tc)
    unit.raw("}\n")
    hs = []
    for a in ('Int', 'Nat', 'Bool'):
        for b in ('Int', 'Nat', 'Bool'):
            name = "h_try_cmp__%s_%s" % (a, b)
            text = """
    #[kani::proof]
    fn %s() {
        let a: %s = kani::any();
        let b: %s = kani::any();
        let res = %s.try_cmp(&%s);
        kani::cover!(res.is_some(), "some result reachable");
        // `None` (unknown) is always allowed; an ordering must be the ordering of the two integers
        let want = %s.cmp(&%s);
        assert!(res.is_none() || res == Some(want), "postcondition try_cmp[%s,%s]: the exact ordering of the two integers or None");
        // the equality test that precedes it in Context::try_cmp must not identify different integers
        if %s == %s { assert!(want == Ordering::Equal, "postcondition PartialEq for ValueObj[%s,%s]: equal values only"); }
    }
""" % (name, TY[a], TY[b], mk(a, 'a'), mk(b, 'b'), ival(a, 'a'), ival(b, 'b'), a, b, mk(a, 'a'), mk(b, 'b'), a, b)
            unit.harness(text)
            hs.append((name, "ValueObj::try_cmp[%s,%s]" % (a, b), "res is None or the exact ordering of the two integer values; `==` holds only for equal integers"))
    return unit, hs


def run_kani(run):
    unit, hs = build(run)
    res = unit.run([h[0] for h in hs], jobs=9, timeout_s=900)
    run.note_functions(unit.snippets)
    for (h, label, spec) in hs:
        r = res[h]
        if r.status == 'SUCCESS':
            bad_cover = [c for c in r.covers if c[1] != 'SATISFIED']
            if bad_cover or not r.covers:
                run.undecided.append("kani %s: vacuity guard: cover %r" % (h, bad_cover))
                continue
            run.add_obligation(label, 'kani', True, time_s=r.time_s, cmd=r.cmd.replace(h, '<harness>'))
            run.sample({"obligation": label, "backend": "kani loop-free, full domain", "ensures": spec})
        elif r.status == 'FAILURE':
            descs = sorted(set(d for (d, _) in r.failed))
            key = "%s|kani|%s" % (label, descs[0][:100] if descs else 'failed')
            pb = unit.run_one(h, timeout_s=600, playback=True)
            vals = (pb.cex or {}).get("playback_values_in_order_of_kani_any_calls") or []
            cex = {"found": bool(vals), "how": "Kani concrete playback on the extracted real functions (pure functions of their two operands: the printed values are the failing input)",
                   "input": vals[:4], "failed_checks": descs,
                   "replay_cmd": "x: {<first value>} = <second value>   # accepted by `erg check` when try_cmp answers Equal for different integers"} if vals else None
            run.add_obligation(key, 'kani', False, detail={"msg": "Kani harness %s FAILED: %s" % (h, '; '.join("%s @ %s" % f for f in r.failed[:6])), "rendered": r.log_tail[-2500:]},
                               time_s=r.time_s, cmd=r.cmd.replace(h, '<harness>'), cex=cex)
        else:
            run.undecided.append("kani %s: %s %s" % (h, r.status, r.log_tail[-400:].replace('\n', ' ') if r.status == 'ERROR' else ''))
