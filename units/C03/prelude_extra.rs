// C03 additions to the C32 prelude: the callee contracts is_super_pred_of relies on.
verus! {

pub use Predicate as Pred;

// @trusted: R1 the checker context is opaque
#[verifier::external_body]
pub struct Context { _p: core::marker::PhantomData<()> }

// @trusted: R2 erased arm body: result unspecified (over-approximation, nothing assumed)
#[verifier::external_body]
fn ext_opaque_arm<T>() -> T { unimplemented!() }

impl Context {
    // @trusted: ASSUMED CALLEE CONTRACT Context::try_cmp (compare.rs, ~400 lines over TyParam, not extracted): on integer-constant operands it returns the exact ordering of the two integers, or None
    #[verifier::external_body]
    fn try_cmp(&self, l: &TyParam, r: &TyParam) -> (res: Option<TyParamOrdering>)
        ensures res matches Some(o) ==> (
            (o is Less && tp_val(*l) < tp_val(*r))
            || (o is Equal && tp_val(*l) == tp_val(*r))
            || (o is Greater && tp_val(*l) > tp_val(*r)))
    { unimplemented!() }

    // @trusted: ASSUMED CALLEE CONTRACT Context::supertype_of_tp on integer constants: true only for equal integers
    #[verifier::external_body]
    fn supertype_of_tp(&self, l: &TyParam, r: &TyParam, v: Variance) -> (res: bool)
        ensures res ==> tp_val(*l) == tp_val(*r)
    { unimplemented!() }
}

impl TyParam {
    // @trusted: ASSUMED CALLEE CONTRACT TyParam::has_upper_bound: integer constants are bounded (true)
    #[verifier::external_body]
    fn has_upper_bound(&self) -> (r: bool) ensures r { unimplemented!() }
    // @trusted: ASSUMED CALLEE CONTRACT TyParam::has_lower_bound: integer constants are bounded (true)
    #[verifier::external_body]
    fn has_lower_bound(&self) -> (r: bool) ensures r { unimplemented!() }
}

/// predicates of the statement: comparison atoms over integer constants, True/False, and their conjunctions
pub open spec fn pred_ok(p: Predicate) -> bool
    decreases p
{
    match p {
        Predicate::Value(v) => v is Bool,
        Predicate::Equal { .. } | Predicate::NotEqual { .. } | Predicate::GreaterEqual { .. } | Predicate::LessEqual { .. } => true,
        Predicate::And(l, r) => pred_ok(*l) && pred_ok(*r),
        _ => false,
    }
}
pub open spec fn pred_size(p: Predicate) -> nat
    decreases p
{
    match p {
        Predicate::And(l, r) => 1 + pred_size(*l) + pred_size(*r),
        _ => 1,
    }
}

/// exact orderings (what try_cmp returns on constants)
pub open spec fn ord_exact(o: TyParamOrdering) -> bool { o is Less || o is Equal || o is Greater }

} // verus!
