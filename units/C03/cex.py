"""Replay / fallback for C03 on the REAL checker: programs `f(x: {I: Int | P}): {I: Int | Q} = x` for all pairs of comparison atoms
(and two-atom conjunctions) over small constants are type-checked by the compiler built from the tree under check; oracle:
if the program is accepted then every integer satisfying P satisfies Q (evaluated here in Python)."""
import itertools
import os
import subprocess

from units.C14.cex import build_erg

OPS = {'==': lambda i, c: i == c, '!=': lambda i, c: i != c, '>=': lambda i, c: i >= c, '<=': lambda i, c: i <= c,
       '>': lambda i, c: i > c, '<': lambda i, c: i < c}
CONSTS = [-1, 0, 2]


def atoms():
    return [(op, c) for op in OPS for c in CONSTS]


def show(p):
    return ' and '.join("I %s %d" % a for a in p)


def sat(p, i):
    return all(OPS[op](i, c) for (op, c) in p)


def find(run, failure=None):
    erg = build_erg(run)
    work = os.path.join(run.scratch, 'c03')
    os.makedirs(work, exist_ok=True)
    single = [(a,) for a in atoms()]
    conj = [(a, b) for a in atoms()[:9] for b in atoms()[9:]][:24]
    cases = [(p, q) for p in single for q in single] + [(p, q) for p in conj for q in single[:9]] + [(p, q) for p in single[:9] for q in conj]
    n = 0
    for (p, q) in cases:
        if all(sat(q, i) for i in range(-6, 8) if sat(p, i)):
            continue   # P implies Q: accepting is right, rejecting is allowed (soundness only)
        n += 1
        src = os.path.join(work, 'p%d.er' % n)
        open(src, 'w').write("f(x: {I: Int | %s}): {I: Int | %s} = x\n" % (show(p), show(q)))
        r = subprocess.run([erg, 'check', src], capture_output=True, text=True, timeout=120, cwd=work)
        if r.returncode == 0 and 'rror' not in (r.stdout + r.stderr):
            wit = [i for i in range(-6, 8) if sat(p, i) and not sat(q, i)][0]
            return {"found": True, "how": "all pairs of comparison atoms / two-atom conjunctions over the constants %s checked by the real compiler" % CONSTS,
                    "input": {"program": open(src).read().strip()}, "real_result": "accepted (exit 0)",
                    "oracle": "I = %d satisfies `%s` but not `%s`" % (wit, show(p), show(q)),
                    "verdict": "the checker accepts a refinement subtyping that does not hold", "replay_cmd": "%s check %s" % (erg, src)}
    return {"found": False, "note": "no unsound acceptance among %d non-implications" % n}
