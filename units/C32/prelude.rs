// C32 / C03 prelude (hand-written): denotation of refinement predicates over one integer variable.
use vstd::prelude::*;

verus! {

// @trusted: R1 opaque payload types (TyParam, Str, ...); verified functions only move/compare them
#[verifier::external_body]
#[verifier::reject_recursive_types_in_ground_variants]
pub struct Opaque { _p: core::marker::PhantomData<()> }

pub type Str = Opaque;

// @trusted: R1 opaque payload type TyParam (right-hand side of a comparison atom)
#[verifier::external_body]
#[verifier::reject_recursive_types_in_ground_variants]
pub struct TyParam { _p: core::marker::PhantomData<()> }

impl Clone for TyParam {
    // @trusted: clone returns an equal value (std contract of Clone)
    #[verifier::external_body]
    fn clone(&self) -> (r: Self) ensures r == *self { unimplemented!() }
}
impl PartialEq for TyParam {
    // @trusted: PartialEq on TyParam: true implies equal values; on the integer-constant right-hand sides the property speaks about, false implies different integers (used only by C03's `I != a :> I == b` arm)
    #[verifier::external_body]
    fn eq(&self, other: &Self) -> (r: bool)
        ensures r ==> *self == *other, !r ==> tp_val(*self) != tp_val(*other)
    { unimplemented!() }
}

impl Clone for Opaque {
    // @trusted: clone returns an equal value (std contract of Clone for the payload types)
    #[verifier::external_body]
    fn clone(&self) -> (r: Self) ensures r == *self { unimplemented!() }
}
impl PartialEq for Opaque {
    // @trusted: PartialEq on payloads (Str, TyParam) is sound: `a == b` returning true implies equal values; completeness is not assumed
    #[verifier::external_body]
    fn eq(&self, other: &Self) -> (r: bool) ensures r ==> *self == *other { unimplemented!() }
}

// erg_common::set::Set<T>: abstracted by its mathematical view
// @trusted: R1 external collection type erg_common::set::Set (hash set); view() is its set of elements
#[verifier::external_body]
#[verifier::accept_recursive_types(T)]
pub struct Set<T> { _p: core::marker::PhantomData<T> }

impl<T> Set<T> {
    pub uninterp spec fn view(&self) -> vstd::set::Set<T>;

    // @trusted: Set::union returns the union of the element sets (erg_common::set, not extracted)
    #[verifier::external_body]
    pub fn union(&self, other: &Set<T>) -> (r: Set<T>)
        ensures r@ == self@.union(other@)
    { unimplemented!() }

    // @trusted: Set::insert adds the element (erg_common::set, not extracted)
    #[verifier::external_body]
    pub fn insert(&mut self, v: T) -> (b: bool)
        ensures final(self)@ == old(self)@.insert(v)
    { unimplemented!() }

    // @trusted: the `set!{a, b}` macro builds the two-element set (R4)
    #[verifier::external_body]
    pub fn pair(a: T, b: T) -> (r: Set<T>)
        ensures r@ == vstd::set::Set::<T>::empty().insert(a).insert(b)
    { unimplemented!() }
}

impl PartialEq for Predicate {
    // @trusted: derived PartialEq on Predicate is sound (true implies structurally equal); completeness is never used
    #[verifier::external_body]
    fn eq(&self, other: &Self) -> (r: bool) ensures r ==> *self == *other { unimplemented!() }
}

// ---------------------------------------------------------------- denotation
/// integer denoted by the right-hand side of a comparison atom (uninterpreted: any TyParam denotes some integer;
/// for integer constants it is the constant, which is all C03's callee contracts rely on)
pub uninterp spec fn tp_val(t: TyParam) -> int;

/// sat(p, i): integer i satisfies predicate p (all atoms speak about the one refinement variable).
/// Uninterpreted, axiomatised by constructor below. Consistency: the axioms are the clauses of a
/// well-founded recursive definition on finite predicate trees (each right-hand side mentions sat only on
/// strict sub-terms), with sat left arbitrary on Const/Call/Attr/General*/Failure leaves.
pub uninterp spec fn sat(p: Predicate, i: int) -> bool;

// The axioms are stated on an arbitrary predicate p with a constructor test, so that they apply to
// `sat(self, i)` after a `match self` without needing datatype extensionality.
// @trusted: SPECIFICATION AXIOM Value(Bool b) denotes b
#[verifier::external_body]
pub broadcast proof fn axiom_sat_value(p: Predicate, i: int)
    ensures (p is Value && p->Value_0 is Bool) ==> #[trigger] sat(p, i) == p->Value_0->Bool_0 {}
// @trusted: SPECIFICATION AXIOM `I == c`
#[verifier::external_body]
pub broadcast proof fn axiom_sat_eq(p: Predicate, i: int)
    ensures p is Equal ==> #[trigger] sat(p, i) == (i == tp_val(p->Equal_rhs)) {}
// @trusted: SPECIFICATION AXIOM `I != c`
#[verifier::external_body]
pub broadcast proof fn axiom_sat_ne(p: Predicate, i: int)
    ensures p is NotEqual ==> #[trigger] sat(p, i) == (i != tp_val(p->NotEqual_rhs)) {}
// @trusted: SPECIFICATION AXIOM `I >= c`
#[verifier::external_body]
pub broadcast proof fn axiom_sat_ge(p: Predicate, i: int)
    ensures p is GreaterEqual ==> #[trigger] sat(p, i) == (i >= tp_val(p->GreaterEqual_rhs)) {}
// @trusted: SPECIFICATION AXIOM `I <= c`
#[verifier::external_body]
pub broadcast proof fn axiom_sat_le(p: Predicate, i: int)
    ensures p is LessEqual ==> #[trigger] sat(p, i) == (i <= tp_val(p->LessEqual_rhs)) {}
// @trusted: SPECIFICATION AXIOM conjunction
#[verifier::external_body]
pub broadcast proof fn axiom_sat_and(p: Predicate, i: int)
    ensures p is And ==> #[trigger] sat(p, i) == (sat(*p->And_0, i) && sat(*p->And_1, i)) {}
// @trusted: SPECIFICATION AXIOM disjunction over a set of predicates
#[verifier::external_body]
pub broadcast proof fn axiom_sat_or(p: Predicate, i: int)
    ensures p is Or ==> #[trigger] sat(p, i) == (exists|q: Predicate| p->Or_0@.contains(q) && #[trigger] sat(q, i)) {}
// @trusted: SPECIFICATION AXIOM negation
#[verifier::external_body]
pub broadcast proof fn axiom_sat_not(p: Predicate, i: int)
    ensures p is Not ==> #[trigger] sat(p, i) == !sat(*p->Not_0, i) {}
// @trusted: SPECIFICATION AXIOM general (expression-level) equality atoms: != is the complement of ==
#[verifier::external_body]
pub broadcast proof fn axiom_sat_general_ne(p: Predicate, i: int)
    ensures p is GeneralNotEqual ==> #[trigger] sat(p, i)
        == !sat(Predicate::GeneralEqual { lhs: p->GeneralNotEqual_lhs, rhs: p->GeneralNotEqual_rhs }, i) {}

pub broadcast group group_sat {
    axiom_sat_value, axiom_sat_eq, axiom_sat_ne, axiom_sat_ge, axiom_sat_le, axiom_sat_and, axiom_sat_or, axiom_sat_not,
    axiom_sat_general_ne,
}

/// height of a predicate tree along And-nesting (termination measure of `and`)
pub open spec fn and_height(p: Predicate) -> nat
    decreases p
{
    match p {
        Predicate::And(l, r) => 1 + and_height(*l) + and_height(*r),
        _ => 0,
    }
}

// ---- witnesses (vacuity guards): the axioms admit the intended model on concrete atoms --------------
proof fn witness_sat_examples(lhs: Str, c: TyParam)
    requires tp_val(c) == 5
{
    broadcast use group_sat;
    assert(sat(Predicate::Equal { lhs, rhs: c }, 5));
    assert(!sat(Predicate::Equal { lhs, rhs: c }, 6));
    assert(sat(Predicate::GreaterEqual { lhs, rhs: c }, 7));
    assert(!sat(Predicate::LessEqual { lhs, rhs: c }, 7));
    assert(sat(Predicate::And(Box::new(Predicate::GreaterEqual { lhs, rhs: c }), Box::new(Predicate::NotEqual { lhs, rhs: c })), 6));
    assert(!sat(Predicate::And(Box::new(Predicate::GreaterEqual { lhs, rhs: c }), Box::new(Predicate::NotEqual { lhs, rhs: c })), 5));
}

} // verus!
