"""C32: refinement predicate combinators denote set operations (Verus, unbounded predicate trees)."""
import os
import re

from vlib.extract import Source
from vlib.snippet import Snippet, Undecided
from vlib.verus_unit import VerusUnit
from vlib import rules

HERE = os.path.dirname(os.path.abspath(__file__))
PRED_RS = 'crates/erg_compiler/ty/predicate.rs'
VALUE_RS = 'crates/erg_compiler/ty/value.rs'

KEEP_PRED = {'ValueObj', 'Str', 'TyParam', 'Option<Str>', 'Vec<TyParam>', 'Box<Predicate>', 'Set<Predicate>'}

PRED_VARIANTS = []

SPECS = {
    'eq': "ensures forall|i: int| #[trigger] sat(res, i) == (i == tp_val(rhs)),",
    'ne': "ensures forall|i: int| #[trigger] sat(res, i) == (i != tp_val(rhs)),",
    'ge': "ensures forall|i: int| #[trigger] sat(res, i) == (i >= tp_val(rhs)),",
    'le': "ensures forall|i: int| #[trigger] sat(res, i) == (i <= tp_val(rhs)),",
    'gt': "ensures forall|i: int| #[trigger] sat(res, i) == (i > tp_val(rhs)),",
    'lt': "ensures forall|i: int| #[trigger] sat(res, i) == (i < tp_val(rhs)),",
    'and': "ensures forall|i: int| #[trigger] sat(res, i) == (sat(lhs, i) && sat(rhs, i)),\n    decreases and_height(lhs) + and_height(rhs),",
    'or': "ensures forall|i: int| #[trigger] sat(res, i) == (sat(lhs, i) || sat(rhs, i)),",
    'invert': "requires !(self is GeneralLessEqual) && !(self is GeneralGreaterEqual),\n    ensures forall|i: int| #[trigger] sat(res, i) == !sat(self, i),",
}


def check_operator_impl(src, trait, method, callee):
    """R4 side condition: `impl <trait> for Predicate` is literally `Self::<callee>(self, rhs)` / `self.invert()`."""
    blk = src.impl_block(r'%s for Predicate' % trait)
    body = src.fn(method, impl=r'%s for Predicate' % trait).text
    norm = ' '.join(body.split())
    want = {"and": "Self::and(self, rhs)", "or": "Self::or(self, rhs)", "invert": "self.invert()"}[callee]
    if want not in norm:
        raise Undecided("impl %s for Predicate is no longer `%s` (R4 rewrite of the operator not justified)" % (trait, want))
    return Snippet(blk, 'impl %s for Predicate' % trait)


def pred_common(unit, run):
    """Shared by C32 and C03: prelude, ValueObj and Predicate enums. Returns Source of predicate.rs."""
    src = Source(run.repo, PRED_RS)
    vsrc = Source(run.repo, VALUE_RS)
    unit.raw_file(os.path.join(HERE, 'prelude.rs'))
    unit.raw("verus! {\n")
    ven = Snippet(vsrc.item('enum', 'ValueObj'), 'enum ValueObj')
    rules.erase_enum_payloads(ven, {'i32', 'u64', 'bool'})
    unit.add(ven)
    pen = Snippet(src.item('enum', 'Predicate'), 'enum Predicate')
    info = rules.erase_enum_payloads(pen, KEEP_PRED)
    PRED_VARIANTS[:] = [v for (v, k, t) in info]
    unit.add(pen)
    return src


def add_combinators(unit, src, which, run):
    consts = []
    for c in ('TRUE', 'FALSE'):
        sp = src.item('const', c)
        consts.append(Snippet(sp, 'Predicate::' + c))
    unit.raw("impl Predicate {\n")
    for c in consts:
        unit.add(c)
    bitand = check_operator_impl(src, 'BitAnd', 'bitand', 'and')
    check_operator_impl(src, 'BitOr', 'bitor', 'or')
    check_operator_impl(src, 'Not', 'not', 'invert')
    for f in which:
        sn = Snippet(src.fn(f, impl=r'Predicate'), 'Predicate::' + f)
        rules.strip_vis_attrs(sn)
        rules.split_or_guard_arms(sn)
        sn.rw('R4', r'\*(\w+)\s*&\s*(\w+)', r'Predicate::and(*\1, \2)')
        sn.rw('R4', r'\b(\w+)\.as_ref\(\)\s*==\s*&(\w+)', r'*\1 == \2')  # Box::as_ref(&b) == &x  <=>  *b == x
        sn.rw('R4', r'set!\s*\{\s*(\w+)\s*,\s*(\w+)\s*\}', r'Set::pair(\1, \2)')
        if f == 'invert':
            # one obligation per constructor of the argument (class copies of the same verbatim body)
            for v in PRED_VARIANTS:
                if v in ('GeneralLessEqual', 'GeneralGreaterEqual'):
                    continue  # expression-level atoms outside the statement; see assumptions
                c = sn.copy('Predicate::invert[%s]' % v)
                c.rename_fn('invert__%s' % v)
                c.contract("requires self is %s,\n    ensures forall|i: int| #[trigger] sat(res, i) == !sat(self, i)," % v)
                c.body_prologue("broadcast use group_sat;")
                unit.add(c)
            run.sample({"function": "Predicate::invert", "classes": [v for v in PRED_VARIANTS], "ensures": "forall i. sat(res, i) == !sat(self, i)"})
            continue
        sn.contract(SPECS[f])
        sn.body_prologue("broadcast use group_sat;")
        unit.add(sn)
        run.sample({"function": "Predicate::" + f, "ensures": ' '.join(SPECS[f].split())})
    unit.raw("}\n")


def build(run):
    unit = VerusUnit('C32', run.scratch)
    src = pred_common(unit, run)
    add_combinators(unit, src, ['eq', 'ne', 'ge', 'le', 'gt', 'lt', 'and', 'or', 'invert'], run)
    unit.raw("} // verus!\n")
    return unit


def run(run, replay=None):
    from units.C32 import cex as _cex
    run.fallbacks.append(("Predicate combinators (bounded enumeration)", lambda: _cex.find(run)))
    unit = build(run)
    res = unit.run(rlimit=60)
    run.add_verus(unit, res, cex_finder=lambda f: _cex.find(run, f))
    run.assumptions.append("All comparison atoms of a predicate speak about the one refinement variable (the `lhs: Str` field is ignored by the denotation); right-hand sides denote integers through the uninterpreted tp_val.")
    run.assumptions.append("invert on General<=/General>= (expression-level atoms, outside the statement's comparison atoms) is excluded by precondition: the code maps GeneralLessEqual to GeneralGreaterEqual, which is not the complement.")
