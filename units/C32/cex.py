"""Replay / fallback for C32: bounded enumeration of predicate trees on the REAL combinators (replay/src/c32.rs)."""
import json
import subprocess

from vlib import replay


def find(run, failure=None, depth=1):
    binary = replay.build(run, 'c32')
    p = subprocess.run([binary, str(depth)], capture_output=True, text=True, timeout=1800)
    try:
        js = json.loads(p.stdout.strip().split('\n')[-1])
    except Exception:
        return {"found": False, "note": "replay produced no result: " + (p.stderr[-300:] or p.stdout[-300:])}
    if js["violation"]:
        return {"found": True, "how": "all predicate trees of depth <= %d over the constants {-1,0,1,2} built with the real combinators; satisfying sets over -4..5 by an independent evaluator" % depth,
                "input": js["violation"].split(';')[0], "real_result": js["violation"], "oracle": "intersection / union / complement of the operands' sets",
                "verdict": js["violation"], "replay_cmd": "%s %d" % (binary, depth)}
    return {"found": False, "note": "no disagreement on %d predicates (%d evaluations)" % (js["predicates"], js["checked"])}
