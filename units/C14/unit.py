"""C14 (partial): the code generator's bookkeeping primitives (codegen.rs): stack depth / stacksize, lasti == code length,
EXTENDED_ARG encoding, jump patching, line table. Verus on the real text."""
import os
import re

from vlib.extract import Source, make_mask, match_close
from vlib.snippet import Snippet, Undecided
from vlib.verus_unit import VerusUnit
from vlib import rules

HERE = os.path.dirname(os.path.abspath(__file__))
CODEGEN = 'crates/erg_compiler/codegen.rs'
CODEOBJ = 'crates/erg_compiler/ty/codeobj.rs'
PYUTIL = 'crates/erg_common/python_util.rs'

IMPL = r'PyCodeGenerator'


def keep_struct_fields(sn, keep_types, name):
    """R1 for structs: field types not in keep_types become Opaque; visibility/attrs dropped; all fields pub."""
    t = rules.strip_comments(sn.text)
    m = re.search(r'\bstruct\s+%s\s*\{' % name, t)
    body = t[m.end():t.rindex('}')]
    fields = []
    erased = 0
    for part in rules.split_top(body):
        p = part.strip()
        while p.startswith('#['):
            k = match_close(make_mask(p), 1)
            p = p[k + 1:].strip()
        if not p:
            continue
        fm = re.match(r'(?:pub(?:\([^)]*\))?\s+)?(\w+)\s*:\s*(.*)$', p, re.S)
        fname, ty = fm.group(1), ' '.join(fm.group(2).split())
        if ty not in keep_types:
            ty = 'Opaque'
            erased += 1
        fields.append("    pub %s: %s," % (fname, ty))
    new = "pub struct %s {\n%s\n}\n" % (name, '\n'.join(fields))
    sn.replace_range('R1', 0, len(sn.text), new, "struct %s: %d field types -> Opaque; attributes, visibility and doc comments dropped; field list/order kept" % (name, erased))


def crash_r6(sn):
    """R6: `self.crash(<msg>);` (-> !) becomes ext_abort::<()>() [requires false]."""
    while True:
        mask = make_mask(sn.text)
        m = re.search(r'\bself\.crash\s*\(', mask)
        if not m:
            break
        cp = match_close(mask, m.end() - 1)
        end = cp + 1
        sn.replace_range('R6', m.start(), end, 'ext_abort::<()>()', "self.crash(..) -> ext_abort() [requires false]")


def common(sn):
    rules.strip_vis_attrs(sn)
    sn.rw('R3', r'(?m)^\s*log!\([^;]*\);\s*\n', '', code_only=False)
    rules.diagnostics(sn)
    crash_r6(sn)
    sn.rw('R4', r'self\.py_version\.minor >= Some\((\d+)\)', r'w_minor_ge(self.py_version.minor, \1)')
    sn.rw('R8', r'u16::try_from\((\w+)\)\.unwrap\(\)\.to_be_bytes\(\)', r'w_u16_to_be(u16::try_from(\1).unwrap())')
    sn.rw('R8', r'u32::try_from\((\w+)\)\.unwrap\(\)\.to_be_bytes\(\)', r'w_u32_to_be(u32::try_from(\1).unwrap())')
    # *X.code.get_mut(i).unwrap() = v;   ->  w_set(&mut X.code, i, v);
    sn.rw('R4', r'\*(self\.mut_cur_block_codeobj\(\))\.code\.get_mut\(([^)]*)\)\.unwrap\(\) = ([^;]*);', r'w_set(&mut \1.code, \2, \3);')
    sn.rw('R4', r'\*self\.cur_block_codeobj\(\)\.code\.get\(([^)]*)\)\.unwrap\(\)', r'w_get(&self.cur_block_codeobj().code, \1)')
    sn.rw('R4', r'\*self\.cur_block_codeobj\(\)\.code\.last\(\)\.unwrap\(\)', r'w_last(&self.cur_block_codeobj().code)')
    sn.rw('R4', r'\bself\.cur_block_codeobj\(\)\.code\.last\(\)\.unwrap\(\)', r'w_last(&self.cur_block_codeobj().code)')
    sn.rw('R4', r'\bCommonOpcode::is_jump_op\(', 'w_is_jump_op(')
    sn.rw('R4', r'((?:self\.)?\w+(?:\(\))?)\.saturating_sub\((\w+)\)', r'w_sat_sub(\1, \2)')
    sn.rw('R4', r'self\s*\.mut_cur_block_codeobj\(\)\s*\.code\s*\.insert\(([^,]*),\s*([^;]*)\);', r'w_insert(&mut self.mut_cur_block_codeobj().code, \1, \2);')
    sn.rw('R4', r'self\.mut_cur_block_codeobj\(\)\.code\.extend_from_slice\((\w+)\);', r'w_extend_from_slice(&mut self.mut_cur_block_codeobj().code, \1);')


PRE = "old(self).nonempty()"
FRAME = "final(self).frame(old(self))"

SPECS = {
    'cur_block': "requires self.nonempty(),\n    ensures *res == self.cur(),",
    'mut_cur_block': "requires %s,\n    ensures *res == old(self).cur(),\n        final(self).units.0@ == old(self).units.0@.update(old(self).units.0@.len() - 1, *final(res)),\n        final(self).py_version == old(self).py_version," % PRE,
    'cur_block_codeobj': "requires self.nonempty(),\n    ensures *res == self.cur().codeobj,",
    'mut_cur_block_codeobj': """requires %s,
    ensures *res == old(self).cur().codeobj,
        final(self).units.0@.len() == old(self).units.0@.len(),
        final(self).units.0@ == old(self).units.0@.update(old(self).units.0@.len() - 1, final(self).cur()),
        final(self).cur().codeobj == *final(res),
        final(self).cur().stack_len == old(self).cur().stack_len, final(self).cur().lasti == old(self).cur().lasti,
        final(self).cur().prev_lasti == old(self).cur().prev_lasti, final(self).cur().prev_lineno == old(self).cur().prev_lineno,
        final(self).cur().id == old(self).cur().id,
        final(self).py_version == old(self).py_version,""" % PRE,
    'stack_len': "requires self.nonempty(),\n    ensures res == self.cur().stack_len,",
    'lasti': "requires self.nonempty(),\n    ensures res == self.cur().lasti,",
    'stack_inc': """requires %s, old(self).cur().stack_len < u32::MAX,
    ensures %s, only_stack_changed(final(self).cur(), old(self).cur()),
        final(self).cur().stack_len == old(self).cur().stack_len + 1,
        final(self).cur().codeobj.stacksize == (if old(self).cur().stack_len + 1 > old(self).cur().codeobj.stacksize { (old(self).cur().stack_len + 1) as u32 } else { old(self).cur().codeobj.stacksize }),
        unit_wf(old(self).cur()) ==> unit_wf(final(self).cur()),   // the declared stack size never falls behind the tracked depth""" % (PRE, FRAME),
    'stack_inc_n': """requires %s, n <= u32::MAX - old(self).cur().stack_len,
    ensures %s, only_stack_changed(final(self).cur(), old(self).cur()),
        final(self).cur().stack_len == old(self).cur().stack_len + n,
        final(self).cur().codeobj.stacksize == (if old(self).cur().stack_len + n > old(self).cur().codeobj.stacksize { (old(self).cur().stack_len + n) as u32 } else { old(self).cur().codeobj.stacksize }),
        unit_wf(old(self).cur()) ==> unit_wf(final(self).cur()),""" % (PRE, FRAME),
    'stack_dec': """requires %s, old(self).cur().stack_len > 0,   // otherwise the generator aborts with an internal error (crash)
    ensures %s, only_stack_changed(final(self).cur(), old(self).cur()),
        final(self).cur().stack_len == old(self).cur().stack_len - 1,
        final(self).cur().codeobj.stacksize == old(self).cur().codeobj.stacksize,
        unit_wf(old(self).cur()) ==> unit_wf(final(self).cur()),""" % (PRE, FRAME),
    'stack_dec_n': """requires %s, n <= old(self).cur().stack_len,
    ensures %s, only_stack_changed(final(self).cur(), old(self).cur()),
        final(self).cur().stack_len == old(self).cur().stack_len - n,
        final(self).cur().codeobj.stacksize == old(self).cur().codeobj.stacksize,
        unit_wf(old(self).cur()) ==> unit_wf(final(self).cur()),""" % (PRE, FRAME),
    'write_instr': """requires %s, old(self).cur().lasti == old(self).cur().codeobj.code@.len(), old(self).cur().lasti < usize::MAX,
    ensures %s, only_code_changed(final(self).cur(), old(self).cur()),
        final(self).cur().codeobj.code@ == old(self).cur().codeobj.code@.push(code),
        final(self).cur().lasti == final(self).cur().codeobj.code@.len(),""" % (PRE, FRAME),
    'write_bytes': """requires %s, old(self).cur().lasti == old(self).cur().codeobj.code@.len(), old(self).cur().lasti + bytes@.len() <= usize::MAX,
    ensures %s, only_code_changed(final(self).cur(), old(self).cur()),
        final(self).cur().codeobj.code@ == old(self).cur().codeobj.code@ + bytes@,
        final(self).cur().lasti == final(self).cur().codeobj.code@.len(),""" % (PRE, FRAME),
    'fill_jump': """requires %s, idx + 2 < old(self).cur().codeobj.code@.len(), idx + 2 <= usize::MAX,   // (second conjunct is implied: a Vec is never longer than usize::MAX)
        jump_arg(old(self).py_version.minor, jump_to) <= 0xFFFF,   // otherwise the unwrap panics
    ensures %s, only_code_changed(final(self).cur(), old(self).cur()), final(self).cur().lasti == old(self).cur().lasti,
        ({  let arg = jump_arg(old(self).py_version.minor, jump_to);
            // the 16-bit argument is split over the reserved EXTENDED_ARG (high byte at idx) and the jump (low byte at idx + 2);
            // decoded as CPython does, (code[idx] << 8) | code[idx + 2] == arg; every other byte is untouched
            final(self).cur().codeobj.code@ == old(self).cur().codeobj.code@.update(idx as int, (arg / 256) as u8).update(idx + 2, (arg %% 256) as u8) }),""" % (PRE, FRAME),
}


def build(run):
    src = Source(run.repo, CODEGEN)
    csrc = Source(run.repo, CODEOBJ)
    psrc = Source(run.repo, PYUTIL)
    unit = VerusUnit('C14', run.scratch)
    unit.raw_file(os.path.join(HERE, 'prelude.rs'))
    unit.raw("verus! {\n")
    pv = Snippet(psrc.item('struct', 'PythonVersion'), 'struct PythonVersion')
    keep_struct_fields(pv, {'u8', 'Option<u8>'}, 'PythonVersion')
    unit.add(pv)
    co = Snippet(csrc.item('struct', 'CodeObj'), 'struct CodeObj')
    keep_struct_fields(co, {'u32', 'Vec<u8>'}, 'CodeObj')
    unit.add(co)
    un = Snippet(src.item('struct', 'PyCodeGenUnit'), 'struct PyCodeGenUnit')
    keep_struct_fields(un, {'usize', 'u32', 'PythonVersion', 'CodeObj'}, 'PyCodeGenUnit')
    unit.add(un)
    ge = Snippet(src.item('struct', 'PyCodeGenerator'), 'struct PyCodeGenerator')
    keep_struct_fields(ge, {'PythonVersion', 'PyCodeGenStack', 'usize'}, 'PyCodeGenerator')
    unit.add(ge)
    osrc = Source(run.repo, 'crates/erg_common/opcode.rs')
    cop = Snippet(osrc.item('enum', 'CommonOpcode'), 'enum CommonOpcode')
    rules.erase_enum_payloads(cop, set(), derives='#[derive(Clone, Copy)]\n#[repr(u8)]\n')
    unit.add(cop)
    unit.raw("impl PyCodeGenerator {\n")
    for f in ['cur_block', 'mut_cur_block', 'cur_block_codeobj', 'mut_cur_block_codeobj', 'stack_len', 'lasti',
              'stack_inc', 'stack_inc_n', 'stack_dec', 'stack_dec_n', 'write_instr', 'write_bytes', 'fill_jump']:
        sn = Snippet(src.fn(f, impl=IMPL), 'PyCodeGenerator::' + f)
        common(sn)
        if f == 'write_instr':
            sn.rw('R5', r'fn write_instr<C: Into<u8>>\(&mut self, code: C\)', 'fn write_instr(&mut self, code: u8)', expect=1)
            sn.rw('R5', r'code\.into\(\)', 'code', expect=1)
        sn.contract(SPECS[f])
        unit.add(sn)
        if f in ('stack_inc', 'stack_dec', 'write_instr', 'fill_jump'):
            run.sample({"function": "PyCodeGenerator::" + f, "contract": ' '.join(SPECS[f].split())[:400]})
    # ---- EXTENDED_ARG encoding -----------------------------------------------------------------------
    ea = Snippet(src.fn('extend_arg', impl=IMPL), 'PyCodeGenerator::extend_arg')
    common(ea)
    # R4: `for b in s.iter().rev().skip(1) { .. }` visits s[len-2], .., s[0]: the same traversal as an index loop
    ea.rw('R4', r'for (\w+) in (\w+)\.iter\(\)\.rev\(\)\.skip\(1\) \{',
          r'let mut verif_k: usize = w_sat_sub(\2.len(), 1);\n        while verif_k > 0 {\n            verif_k -= 1;\n            let \1 = &\2[verif_k];', expect=1)
    ea.contract("""requires %s, old(self).cur().lasti == old(self).cur().codeobj.code@.len(),
        before_instr <= old(self).cur().codeobj.code@.len(), bytes@.len() >= 1,
        old(self).cur().lasti + 2 * (bytes@.len() - 1) <= usize::MAX,
    ensures %s, only_code_changed(final(self).cur(), old(self).cur()),
        res == 2 * (bytes@.len() - 1),
        final(self).cur().lasti == final(self).cur().codeobj.code@.len(),
        // one (EXTENDED_ARG, byte) pair per leading byte, most significant first, inserted in front of the instruction
        final(self).cur().codeobj.code@ == old(self).cur().codeobj.code@.subrange(0, before_instr as int)
            + ext_pairs_range(0, bytes@.len() - 1, bytes@)
            + old(self).cur().codeobj.code@.subrange(before_instr as int, old(self).cur().codeobj.code@.len() as int),""" % (PRE, FRAME))
    ea.loop_spec(0, """invariant
            self.nonempty(), self.frame(old(self)), only_code_changed(self.cur(), old(self).cur()),
            bytes@.len() >= 1, verif_k <= bytes@.len() - 1,
            before_instr <= old(self).cur().codeobj.code@.len(),
            old(self).cur().lasti == old(self).cur().codeobj.code@.len(),
            old(self).cur().lasti + 2 * (bytes@.len() - 1) <= usize::MAX,
            shift_bytes == 2 * (bytes@.len() - 1 - verif_k),
            self.cur().lasti == old(self).cur().lasti + 2 * (bytes@.len() - 1 - verif_k),
            self.cur().lasti == self.cur().codeobj.code@.len(),
            self.cur().codeobj.code@ == old(self).cur().codeobj.code@.subrange(0, before_instr as int)
                + ext_pairs_range(verif_k as int, bytes@.len() - 1, bytes@)
                + old(self).cur().codeobj.code@.subrange(before_instr as int, old(self).cur().codeobj.code@.len() as int),
        decreases verif_k,""")
    ea.insert_at(r'shift_bytes \+= 2;', """            proof {
                let oc = old(self).cur().codeobj.code@;
                let pre = oc.subrange(0, before_instr as int);
                let post = oc.subrange(before_instr as int, oc.len() as int);
                let tail = ext_pairs_range(verif_k as int + 1, bytes@.len() - 1, bytes@);
                assert(self.cur().codeobj.code@ =~= pre + (seq![144u8, bytes@[verif_k as int]] + tail) + post);
            }""", where='after')
    unit.add(ea)
    run.sample({"function": "PyCodeGenerator::extend_arg", "ensures": "code == old[..at] ++ (EXTENDED_ARG, b_i) pairs for all but the last byte ++ old[at..]; returns the number of bytes inserted; lasti == code.len()"})

    ec = Snippet(src.fn('edit_code', impl=IMPL), 'PyCodeGenerator::edit_code')
    common(ec)
    ec.contract("""requires %s, old(self).cur().lasti == old(self).cur().codeobj.code@.len(),
        idx < old(self).cur().codeobj.code@.len(), arg <= u32::MAX,
        arg > 255 ==> (idx >= 1 && old(self).cur().lasti + 6 <= usize::MAX),
    ensures %s, only_code_changed(final(self).cur(), old(self).cur()),
        final(self).cur().lasti == final(self).cur().codeobj.code@.len(),
        arg <= 255 ==> res == 0 && final(self).cur().codeobj.code@ == old(self).cur().codeobj.code@.update(idx as int, arg as u8),
        arg > 255 ==> res == 6 && ({
            let oc = old(self).cur().codeobj.code@;
            let be = seq![(arg / 16777216) as u8, ((arg / 65536) %% 256) as u8, ((arg / 256) %% 256) as u8, (arg %% 256) as u8];
            // [.., EXTENDED_ARG b0, EXTENDED_ARG b1, EXTENDED_ARG b2, op, b3, ..]: decodes to arg; nothing else changes
            final(self).cur().codeobj.code@ == oc.subrange(0, idx - 1) + ext_pairs_range(0, 3, be) + seq![oc[idx - 1], be[3]] + oc.subrange(idx + 1, oc.len() as int)
        }),""" % (PRE, FRAME))
    ec.insert_at(r'self\.extend_arg\(before_instr, &bytes\)', """                proof {
                    let oc = old(self).cur().codeobj.code@;
                    let c1 = self.cur().codeobj.code@;
                    let be = seq![(arg / 16777216) as u8, ((arg / 65536) %% 256) as u8, ((arg / 256) %% 256) as u8, (arg %% 256) as u8];
                    lemma_ext_pairs_ext(0, 3, bytes@, be);
                    let p = ext_pairs_range(0, 3, be);
                    assert(c1.subrange(0, idx - 1) + p + c1.subrange(idx - 1, c1.len() as int)
                        =~= oc.subrange(0, idx - 1) + p + seq![oc[idx - 1], be[3]] + oc.subrange(idx + 1, oc.len() as int));
                    lemma_ext_pairs_len(0, 3, bytes@);
                }""" % (), where='before')
    unit.add(ec)

    wa = Snippet(src.fn('write_arg', impl=IMPL), 'PyCodeGenerator::write_arg')
    common(wa)
    wa.contract("""requires %s, old(self).cur().lasti == old(self).cur().codeobj.code@.len(), code <= u32::MAX,
        old(self).cur().lasti + 8 <= usize::MAX,
        // an argument that needs EXTENDED_ARG follows an opcode byte, and jumps are written with a reserved
        // EXTENDED_ARG and patched by fill_jump (never relocated here)
        code > 255 ==> (old(self).cur().codeobj.code@.len() >= 1 && !is_jump(old(self).cur().codeobj.code@.last())),
    ensures %s, only_code_changed(final(self).cur(), old(self).cur()),
        final(self).cur().lasti == final(self).cur().codeobj.code@.len(),
        res == final(self).cur().codeobj.code@.len() - old(self).cur().codeobj.code@.len(),   // "returns: shift bytes"
        code <= 255 ==> final(self).cur().codeobj.code@ == old(self).cur().codeobj.code@.push(code as u8),
        (255 < code && code <= 65535) ==> ({
            let oc = old(self).cur().codeobj.code@;
            final(self).cur().codeobj.code@ == oc.subrange(0, oc.len() - 1) + seq![144u8, (code / 256) as u8] + seq![oc.last(), (code %% 256) as u8]
        }),
        code > 65535 ==> ({
            let oc = old(self).cur().codeobj.code@;
            let be = seq![(code / 16777216) as u8, ((code / 65536) %% 256) as u8, ((code / 256) %% 256) as u8, (code %% 256) as u8];
            final(self).cur().codeobj.code@ == oc.subrange(0, oc.len() - 1) + ext_pairs_range(0, 3, be) + seq![oc.last(), be[3]]
        }),""" % (PRE, FRAME))
    wa.insert_at(r'self\.extend_arg\(before_instr, &bytes\) \+ 1', """                    proof {
                        let oc = old(self).cur().codeobj.code@;
                        let c1 = self.cur().codeobj.code@;
                        reveal_with_fuel(ext_pairs_range, 3);
                        lemma_ext_pairs_len(0, 1, bytes@);
                        assert(c1.subrange(0, oc.len() - 1) + ext_pairs_range(0, 1, bytes@) + c1.subrange(oc.len() - 1, c1.len() as int)
                            =~= oc.subrange(0, oc.len() - 1) + seq![144u8, (code / 256) as u8] + seq![oc.last(), (code %% 256) as u8]);
                    }""" % (), where='before', occurrence=0)
    wa.insert_at(r'self\.extend_arg\(before_instr, &bytes\) \+ 1', """                    proof {
                        let oc = old(self).cur().codeobj.code@;
                        let c1 = self.cur().codeobj.code@;
                        let be = seq![(code / 16777216) as u8, ((code / 65536) %% 256) as u8, ((code / 256) %% 256) as u8, (code %% 256) as u8];
                        lemma_ext_pairs_ext(0, 3, bytes@, be);
                        lemma_ext_pairs_len(0, 3, bytes@);
                        assert(c1.subrange(0, oc.len() - 1) + ext_pairs_range(0, 3, be) + c1.subrange(oc.len() - 1, c1.len() as int)
                            =~= oc.subrange(0, oc.len() - 1) + ext_pairs_range(0, 3, be) + seq![oc.last(), be[3]]);
                    }""" % (), where='before', occurrence=1)
    unit.add(wa)
    run.sample({"function": "PyCodeGenerator::write_arg", "ensures": "arg < 256: one byte; else [EXTENDED_ARG hi.., op, lo] in front of / after the opcode so that CPython decodes exactly `code`; returns bytes added; lasti == code.len()"})

    cj = Snippet(src.fn('calc_edit_jump', impl=IMPL), 'PyCodeGenerator::calc_edit_jump')
    common(cj)
    cj.contract("""requires %s, old(self).cur().lasti == old(self).cur().codeobj.code@.len(),
        idx >= 1, idx < old(self).cur().codeobj.code@.len(), is_jump(old(self).cur().codeobj.code@[idx - 1]),   // otherwise: crash
        jump_arg(old(self).py_version.minor, jump_to) <= u32::MAX, old(self).cur().lasti + 6 <= usize::MAX,
    ensures %s, only_code_changed(final(self).cur(), old(self).cur()),
        final(self).cur().lasti == final(self).cur().codeobj.code@.len(),
        jump_arg(old(self).py_version.minor, jump_to) <= 255 ==> res == 0
            && final(self).cur().codeobj.code@ == old(self).cur().codeobj.code@.update(idx as int, jump_arg(old(self).py_version.minor, jump_to) as u8),
        jump_arg(old(self).py_version.minor, jump_to) > 255 ==> res == 6,""" % (PRE, FRAME))
    unit.add(cj)

    # ---- line table -------------------------------------------------------------------------------------
    pl = Snippet(src.fn('push_lnotab', impl=IMPL), 'PyCodeGenerator::push_lnotab')
    common(pl)
    # R3/R6: the unreachable `ld == 0` branch reports a compiler bug and crashes
    while True:
        mask = make_mask(pl.text)
        m = re.search(r'\bCompileError::compiler_bug\s*\(', mask)
        if not m:
            break
        cp = match_close(mask, m.end() - 1)
        mm = re.match(r'\s*\.write_to_stderr\(\);', pl.text[cp + 1:])
        end = cp + 1 + (mm.end() if mm else 0)
        pl.replace_range('R3', m.start(), end, '', "CompileError::compiler_bug(..).write_to_stderr(); removed (diagnostic before the crash)")
    pl.contract("""requires %s, unit_wf(old(self).cur()), lnotab_ok(old(self).cur().codeobj.lnotab@),
    ensures %s,
        final(self).cur().lasti == old(self).cur().lasti, final(self).cur().codeobj.code@ == old(self).cur().codeobj.code@,
        final(self).cur().stack_len == old(self).cur().stack_len, final(self).cur().codeobj.stacksize == old(self).cur().codeobj.stacksize,
        unit_wf(final(self).cur()), lnotab_ok(final(self).cur().codeobj.lnotab@),
        // a chunk on a later line than the last recorded one appends pairs whose address deltas sum to the code emitted
        // since then and whose line deltas sum to the line distance: the table keeps mapping offsets to source lines
        ({ let ln = (if expr.line() is Some { expr.line()->0 } else { 0u32 });
           (ln > old(self).cur().prev_lineno ==> (
                lnotab_sd(final(self).cur().codeobj.lnotab@) == lnotab_sd(old(self).cur().codeobj.lnotab@) + (old(self).cur().lasti - old(self).cur().prev_lasti)
                && lnotab_ld(final(self).cur().codeobj.lnotab@) == lnotab_ld(old(self).cur().codeobj.lnotab@) + (ln - old(self).cur().prev_lineno)
                && final(self).cur().prev_lineno == ln && final(self).cur().prev_lasti == old(self).cur().lasti))
           && (ln <= old(self).cur().prev_lineno ==> final(self).cur() == old(self).cur()) }),""" % (PRE, FRAME))
    INV = """invariant
                    self.nonempty(), self.frame(old(self)), unit_wf(old(self).cur()),
                    self.cur().lasti == old(self).cur().lasti, self.cur().codeobj.code@ == old(self).cur().codeobj.code@,
                    self.cur().stack_len == old(self).cur().stack_len, self.cur().codeobj.stacksize == old(self).cur().codeobj.stacksize,
                    self.cur().prev_lasti == old(self).cur().prev_lasti, self.cur().prev_lineno == old(self).cur().prev_lineno, self.cur().id == old(self).cur().id,
                    lnotab_ok(self.cur().codeobj.lnotab@), ld >= 1,
                    lnotab_sd(self.cur().codeobj.lnotab@) + sd == lnotab_sd(old(self).cur().codeobj.lnotab@) + (old(self).cur().lasti - old(self).cur().prev_lasti),
                    lnotab_ld(self.cur().codeobj.lnotab@) + ld == lnotab_ld(old(self).cur().codeobj.lnotab@) + (ln_begin - old(self).cur().prev_lineno),"""
    pl.loop_spec(0, INV + "\n                decreases sd,")
    pl.loop_spec(1, INV + "\n                    sd <= 255,\n                decreases ld,")
    # proof hints keyed by the ordinal of the `lnotab.push(..)` statements (pairs are pushed as two consecutive statements)
    n_push = len(re.findall(r'lnotab\s*\.push\(', make_mask(pl.text)))
    if n_push % 2 != 0:
        raise Undecided("push_lnotab: odd number of lnotab.push statements: pairs cannot be matched for the proof hints")
    for k in range(0, n_push, 2):
        args = re.findall(r'lnotab\s*\.push\(([^;]*)\);', pl.base if pl.base else pl.text)
    pushes = re.findall(r'lnotab\s*\.push\(([^;]*)\);', pl.text)
    for k in range(n_push - 2, -1, -2):   # back to front so that ordinals stay valid
        a, b = pushes[k].strip(), pushes[k + 1].strip()
        pl.insert_at(r'lnotab\s*\.push\(', "                proof { lemma_lnotab_push_sd(verif_t%d, (%s) as u8, (%s) as u8); lemma_lnotab_push_ld(verif_t%d, (%s) as u8, (%s) as u8); }" % (k, a, b, k, a, b), where='after', occurrence=k + 1)
        pl.insert_at(r'(self\s*\.\s*)?mut_cur_block_codeobj\(\)\s*\.\s*lnotab\s*\.push\(', "                let ghost verif_t%d = self.cur().codeobj.lnotab@;" % k, where='before', occurrence=k)
    unit.add(pl)
    run.sample({"function": "PyCodeGenerator::push_lnotab", "ensures": "sum of appended sdeltas == lasti - prev_lasti, sum of appended ldeltas == line - prev_lineno, table stays even-length with ldelta <= 127; terminates"})
    from units.C14 import emitters
    emitters.add_emitters(run, unit, src, common, PRE, FRAME)
    unit.raw("}\n} // verus!\n")
    return unit


def run(run, replay=None):
    from units.C14 import cex as _cex
    run.fallbacks.append(("line table (gap programs compiled for Python 3.9)", lambda: _cex.find_lnotab(run, {})))
    run.explorations.append(("pyc structure", lambda: _cex.explore_pyc(run)))
    unit = build(run)
    res = unit.run(rlimit=60)
    from units.C14 import cex
    run.add_verus(unit, res, cex_finder=lambda f: cex.find(run, f), expect_fail=tuple(run.extra.get('vacuity_probe_labels', ())))
    run.assumptions.append("Preconditions are the callers' obligations and are NOT carried: that each emit_* reports the interpreter's true stack effect (stack_dec is only called on a non-empty tracked stack), that jump targets handed to fill_jump are instruction boundaries within 16 bits, that the unit stack is non-empty.")
