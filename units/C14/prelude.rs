// C14 prelude (hand-written): skeleton of the code generator state, std wrappers, specification functions.
use vstd::prelude::*;

verus! {

// @trusted: R1 opaque payload type
#[verifier::external_body]
pub struct Opaque { _p: core::marker::PhantomData<()> }

// @trusted: R6 diverging call (self.crash(..), panic!, todo!): `requires false` makes reaching it an obligation
#[verifier::external_body]
fn ext_abort<T>() -> T
    requires false
{ unimplemented!() }

// @trusted: R3 diagnostics string
#[verifier::external_body]
fn ext_msg() -> String { unimplemented!() }

/// PyCodeGenStack(Vec<PyCodeGenUnit>) with the accessors `impl_stream!` gives it (std slice methods)
pub struct PyCodeGenStack(pub Vec<PyCodeGenUnit>);
impl PyCodeGenStack {
    // @trusted: <[T]>::last
    #[verifier::external_body]
    pub fn last(&self) -> (r: Option<&PyCodeGenUnit>)
        ensures self.0@.len() == 0 ==> r is None, self.0@.len() > 0 ==> r == Some(&self.0@[self.0@.len() - 1])
    { self.0.last() }
    // @trusted: <[T]>::last_mut (the returned reference is the last element; nothing else changes)
    #[verifier::external_body]
    pub fn last_mut(&mut self) -> (r: Option<&mut PyCodeGenUnit>)
        ensures old(self).0@.len() == 0 ==> r is None,
                old(self).0@.len() > 0 ==> (r is Some && *r.unwrap() == old(self).0@[old(self).0@.len() - 1]
                   && final(self).0@ == old(self).0@.update(old(self).0@.len() - 1, *final(r.unwrap())))
    { self.0.last_mut() }
}

// ---- std wrappers --------------------------------------------------------------------------------
// @trusted: Option<u8> comparison `minor >= Some(n)` (None < Some(_))
#[verifier::external_body]
fn w_minor_ge(minor: Option<u8>, n: u8) -> (r: bool) ensures r == (minor matches Some(m) && m >= n) { minor >= Some(n) }
// @trusted: u16::to_be_bytes
#[verifier::external_body]
fn w_u16_to_be(x: u16) -> (r: [u8; 2]) ensures r[0] == (x / 256) as u8, r[1] == (x % 256) as u8 { x.to_be_bytes() }
// @trusted: u32::to_be_bytes
#[verifier::external_body]
fn w_u32_to_be(x: u32) -> (r: [u8; 4])
    ensures r[0] == (x / 16777216) as u8, r[1] == ((x / 65536) % 256) as u8, r[2] == ((x / 256) % 256) as u8, r[3] == (x % 256) as u8
{ x.to_be_bytes() }
// @trusted: Vec::insert(i, x): PANICS if i > len (=> precondition); inserts x at i
#[verifier::external_body]
fn w_insert(v: &mut Vec<u8>, i: usize, x: u8)
    requires i <= old(v)@.len()
    ensures final(v)@ == old(v)@.insert(i as int, x)
{ v.insert(i, x) }
// @trusted: *v.get_mut(i).unwrap() = x : PANICS if i >= len (=> precondition); overwrites one element
#[verifier::external_body]
fn w_set(v: &mut Vec<u8>, i: usize, x: u8)
    requires i < old(v)@.len()
    ensures final(v)@ == old(v)@.update(i as int, x)
{ *v.get_mut(i).unwrap() = x; }
// @trusted: *v.get(i).unwrap() : PANICS if i >= len (=> precondition)
#[verifier::external_body]
fn w_get(v: &Vec<u8>, i: usize) -> (r: u8)
    requires i < v@.len()
    ensures r == v@[i as int]
{ *v.get(i).unwrap() }
// @trusted: *v.last().unwrap() : PANICS on an empty vector (=> precondition)
#[verifier::external_body]
fn w_last(v: &Vec<u8>) -> (r: u8)
    requires v@.len() > 0
    ensures r == v@[v@.len() - 1]
{ *v.last().unwrap() }
// @trusted: usize::saturating_sub
#[verifier::external_body]
fn w_sat_sub(a: usize, b: usize) -> (r: usize) ensures r == (if a >= b { a - b } else { 0 }) { a.saturating_sub(b) }
// @trusted: Vec::extend_from_slice
#[verifier::external_body]
fn w_extend_from_slice(v: &mut Vec<u8>, s: &[u8]) ensures final(v)@ == old(v)@ + s@ { v.extend_from_slice(s) }
// @trusted: R9 `&[0; N]`: N zero bytes
#[verifier::external_body]
fn w_zeros(n: usize) -> (r: Vec<u8>) ensures r@.len() == n, forall|k: int| 0 <= k < n ==> r@[k] == 0 { vec![0; n] }
// @trusted: CommonOpcode::is_jump_op (opcode.rs): a fixed classification of opcode bytes (checked against CPython in C16); here it is an uninterpreted function of the byte
#[verifier::external_body]
fn w_is_jump_op(op: u8) -> (r: bool) ensures r == is_jump(op) { unimplemented!() }
// @trusted: hir::Expr is opaque; ln_begin() is its first source line if known
#[verifier::external_body]
pub struct Expr { _p: core::marker::PhantomData<()> }
impl Expr {
    pub uninterp spec fn line(&self) -> Option<u32>;
    // @trusted: Locational::ln_begin on an expression
    #[verifier::external_body]
    pub fn ln_begin(&self) -> (r: Option<u32>) ensures r == self.line() { unimplemented!() }
}

// ---- specification ----------------------------------------------------------------------------------
impl PyCodeGenerator {
    pub open spec fn nonempty(&self) -> bool { self.units.0@.len() > 0 }
    pub open spec fn cur(&self) -> PyCodeGenUnit { self.units.0@[self.units.0@.len() - 1] }
    /// everything except the current unit is untouched
    pub open spec fn frame(&self, old: &PyCodeGenerator) -> bool {
        &&& self.py_version == old.py_version
        &&& self.units.0@.len() == old.units.0@.len()
        &&& forall|i: int| 0 <= i < old.units.0@.len() - 1 ==> self.units.0@[i] == old.units.0@[i]
    }
}
/// jump arguments are byte offsets up to 3.9 and instruction offsets (bytes / 2) from 3.10
pub open spec fn jump_arg(minor: Option<u8>, jump_to: usize) -> int {
    if minor matches Some(m) && m >= 10 { (jump_to / 2) as int } else { jump_to as int }
}
/// representation invariant of a unit: the declared stack size bounds the tracked depth,
/// lasti is the length of the emitted code, and the line-table cursor is behind it
pub open spec fn unit_wf(u: PyCodeGenUnit) -> bool {
    u.stack_len <= u.codeobj.stacksize && u.lasti == u.codeobj.code@.len() && u.prev_lasti <= u.lasti
}
/// a unit differs from `o` only in its code bytes and lasti
pub open spec fn only_code_changed(u: PyCodeGenUnit, o: PyCodeGenUnit) -> bool {
    u.stack_len == o.stack_len && u.codeobj.stacksize == o.codeobj.stacksize && u.prev_lasti == o.prev_lasti
    && u.prev_lineno == o.prev_lineno && u.codeobj.lnotab@ == o.codeobj.lnotab@ && u.id == o.id
}
/// a unit differs from `o` only in stack_len / stacksize
pub open spec fn only_stack_changed(u: PyCodeGenUnit, o: PyCodeGenUnit) -> bool {
    u.lasti == o.lasti && u.codeobj.code@ == o.codeobj.code@ && u.prev_lasti == o.prev_lasti
    && u.prev_lineno == o.prev_lineno && u.codeobj.lnotab@ == o.codeobj.lnotab@ && u.id == o.id
}

/// the prefix the generator writes for the big-endian argument bytes[lo..hi]:
/// EXTENDED_ARG bytes[lo], EXTENDED_ARG bytes[lo+1], ... (CPython decodes it as arg = (arg << 8) | b for each pair)
pub open spec fn ext_pairs_range(lo: int, hi: int, bytes: Seq<u8>) -> Seq<u8>
    decreases hi - lo
{
    if lo >= hi { Seq::<u8>::empty() } else { seq![144u8, bytes[lo]] + ext_pairs_range(lo + 1, hi, bytes) }
}
/// value CPython decodes from an instruction `[EXTENDED_ARG b0, ..., EXTENDED_ARG b(n-2), op, b(n-1)]`
pub open spec fn be_value(bytes: Seq<u8>) -> int
    decreases bytes.len()
{
    if bytes.len() == 0 { 0 } else { be_value(bytes.subrange(0, bytes.len() - 1)) * 256 + bytes[bytes.len() - 1] as int }
}
pub uninterp spec fn is_jump(op: u8) -> bool;
pub proof fn lemma_ext_pairs_len(lo: int, hi: int, bytes: Seq<u8>)
    requires lo <= hi
    ensures ext_pairs_range(lo, hi, bytes).len() == 2 * (hi - lo)
    decreases hi - lo
{
    if lo < hi { lemma_ext_pairs_len(lo + 1, hi, bytes); }
}
/// the prefix only depends on the bytes it covers
pub proof fn lemma_ext_pairs_ext(lo: int, hi: int, a: Seq<u8>, b: Seq<u8>)
    requires 0 <= lo <= hi <= a.len(), hi <= b.len(), forall|i: int| lo <= i < hi ==> a[i] == b[i]
    ensures ext_pairs_range(lo, hi, a) == ext_pairs_range(lo, hi, b)
    decreases hi - lo
{
    if lo < hi { lemma_ext_pairs_ext(lo + 1, hi, a, b); }
}

/// sums of a line table: (sum of address deltas, sum of line deltas); pairs are (sdelta: u8, ldelta: i8 >= 0 here)
pub open spec fn lnotab_sd(t: Seq<u8>) -> int
    decreases t.len()
{
    if t.len() < 2 { 0 } else { lnotab_sd(t.subrange(0, t.len() - 2)) + t[t.len() - 2] as int }
}
pub open spec fn lnotab_ld(t: Seq<u8>) -> int
    decreases t.len()
{
    if t.len() < 2 { 0 } else { lnotab_ld(t.subrange(0, t.len() - 2)) + t[t.len() - 1] as int }
}
pub open spec fn lnotab_ok(t: Seq<u8>) -> bool {
    t.len() % 2 == 0 && forall|i: int| 0 <= i < t.len() && i % 2 == 1 ==> t[i] <= 127
}
pub broadcast proof fn lemma_lnotab_push_sd(t: Seq<u8>, s: u8, l: u8)
    requires t.len() % 2 == 0
    ensures #[trigger] lnotab_sd(t.push(s).push(l)) == lnotab_sd(t) + s
{
    let t2 = t.push(s).push(l);
    assert(t2.subrange(0, t2.len() - 2) =~= t);
}
pub broadcast proof fn lemma_lnotab_push_ld(t: Seq<u8>, s: u8, l: u8)
    requires t.len() % 2 == 0
    ensures #[trigger] lnotab_ld(t.push(s).push(l)) == lnotab_ld(t) + l
{
    let t2 = t.push(s).push(l);
    assert(t2.subrange(0, t2.len() - 2) =~= t);
}
pub broadcast group group_lnotab { lemma_lnotab_push_sd, lemma_lnotab_push_ld }

} // verus!
