"""C14, leaf emitters: the small emit functions that do their own stack bookkeeping (emit_pop_top, emit_print_expr, _emit_compare_op,
rot2, dup_top, copy, emit_push_null). Contract: what they append is one instruction (opcode byte, argument byte, and on 3.11 the inline
cache entries CPython expects after it) and the tracked stack depth moves by exactly the stack effect the TARGET interpreter gives that
instruction. The effect / cache table is an external contract read from the installed interpreters (dis.stack_effect,
opcode._inline_cache_entries), as in C16."""
import json
import re
import subprocess

from vlib.extract import Source
from vlib.snippet import Snippet, Undecided
from units.C16 import cpython

MINORS = (7, 8, 9, 10, 11)
NAMES = None   # every opcode of the interpreter whose stack effect does not depend on its argument
PROBE = r'''
import dis, json, opcode
names = %r or sorted(dis.opmap)
out = {}
caches = getattr(opcode, '_inline_cache_entries', None)
for n in names:
    if n not in dis.opmap:
        continue
    op = dis.opmap[n]
    effs = set()
    for arg in range(0, 256):
        try:
            effs.add(dis.stack_effect(op, arg if op >= dis.HAVE_ARGUMENT else None))
        except Exception as e:
            effs.add('err')
    c = 0
    if caches is not None:
        c = caches[op] if isinstance(caches, (list, tuple)) else caches.get(n, 0)
    out[n] = {"op": op, "effects": sorted(map(str, effs)), "cache": c}
print(json.dumps(out))
'''


def interpreter_table():
    """{minor: {name: {op, effect (int, argument-independent), cache}}} from the installed interpreters"""
    tab = {}
    for m in MINORS:
        py = cpython.find_interpreter(m)
        if not py:
            continue
        p = subprocess.run([py, '-c', PROBE % (NAMES,)], capture_output=True, text=True, timeout=60)
        if p.returncode != 0:
            continue
        got = json.loads(p.stdout.strip().split('\n')[-1])
        tab[m] = {}
        for n, d in got.items():
            if len(d["effects"]) == 1 and d["effects"][0] != 'err':
                tab[m][n] = {"op": d["op"], "effect": int(d["effects"][0]), "cache": d["cache"]}
    return tab


def spec_table(tab):
    """spec fns generated from the interpreters: stack effect and number of inline cache entries of (minor, opcode byte)"""
    eff = []
    cache = []
    for m in sorted(tab):
        for n, d in sorted(tab[m].items()):
            eff.append("    if minor == %d && op == %d { %d } else   // %s" % (m, d["op"], d["effect"], n))
            cache.append("    if minor == %d && op == %d { %d } else   // %s" % (m, d["op"], d["cache"], n))
    return ("/// dis.stack_effect of the target interpreter (argument-independent for these opcodes); 1000 = not one of the opcodes listed\n"
            "pub open spec fn cpy_effect(minor: int, op: int) -> int {\n%s\n    { 1000 }\n}\n"
            "/// opcode._inline_cache_entries of the target interpreter (0 before 3.11)\n"
            "pub open spec fn cpy_cache(minor: int, op: int) -> int {\n%s\n    { 1000 }\n}\n" % ('\n'.join(eff), '\n'.join(cache)))


def enum_from_macro(src, name):
    """the enum part of the impl_u8_enum! expansion: `pub enum Name { A = n, .. }` generated from the extracted macro call"""
    sp = src.macro_call('impl_u8_enum', name + r'\s*;')
    body = sp.text[sp.text.index(';') + 1:]
    pairs = re.findall(r'(\w+)\s*=\s*(\d+)', body)
    if len(pairs) < 20:
        raise Undecided("impl_u8_enum!{%s}: only %d variants parsed" % (name, len(pairs)))
    return "#[derive(Clone, Copy)]\n#[repr(u8)]\n#[allow(non_camel_case_types)]\npub enum %s {\n%s\n}\n" % (name, '\n'.join("    %s = %s," % p for p in pairs)), sp


# what an emitter appended: one instruction [op, arg] followed by 2 * cache zero bytes; the tracked depth moved by the interpreter's effect
ONE_INSN = """requires %(PRE)s, old(self).cur().lasti == old(self).cur().codeobj.code@.len(), old(self).cur().lasti + 16 <= usize::MAX,
        old(self).py_version.minor matches Some(m) && 7 <= m <= 11,   // the supported targets
        %(EXTRA_PRE)s
    ensures %(FRAME)s, final(self).cur().lasti == final(self).cur().codeobj.code@.len(),
        %(WRITTEN)s ==> ({
            let m = old(self).py_version.minor->0 as int;
            let oc = old(self).cur().codeobj.code@;
            let nc = final(self).cur().codeobj.code@;
            let n0 = oc.len() as int;
            let opc = nc[n0] as int;
            &&& nc.len() >= n0 + 2 && nc.subrange(0, n0) == oc
            &&& %(OPS)s
            &&& nc[n0 + 1] as int == %(ARG)s
            // the inline cache entries the target interpreter expects after the instruction, all zero
            &&& nc.len() == n0 + 2 + 2 * cpy_cache(m, opc)
            &&& forall|k: int| n0 + 2 <= k < nc.len() ==> nc[k] == 0
            // the bookkeeping agrees with the interpreter
            &&& final(self).cur().stack_len - old(self).cur().stack_len == cpy_effect(m, opc)
        }),
        !(%(WRITTEN)s) ==> final(self).cur() == old(self).cur(),"""


def sn_copy(src, f, common):
    from vlib import rules
    sn = Snippet(src.fn(f, impl=r'PyCodeGenerator'), 'PyCodeGenerator::' + f)
    common(sn)
    sn.rw('R3', r'(?m)^\s*debug_power_assert!\([^;]*\);\s*\n', '', code_only=False)
    rules.aborts(sn)
    sn.rw('R6', r'\bext_abort\(\)', 'ext_abort::<()>()')
    # R5: write_instr<C: Into<u8>> is monomorphised to u8; `impl From<Enum> for u8` of impl_u8_enum! is `op as u8`
    sn.rw('R5', r'self\.write_instr\(((?:\w+::)?\w+)\)', r'self.write_instr(\1 as u8)', expect='+')
    # bare names are variants of CommonOpcode (`use erg_common::opcode::CommonOpcode::*`)
    sn.rw('R5', r'self\.write_instr\(([A-Z][A-Z_0-9]*) as u8\)', r'self.write_instr(CommonOpcode::\1 as u8)')
    sn.rw('R9', r'self\.write_bytes\(&\[0; (\d+)\]\)', r'self.write_bytes(w_zeros(\1).as_slice())')
    # the comparison operator of _emit_compare_op: only its number matters
    sn.rw('R5', r'op: CompareOp\b', 'op: u8')
    return sn


def add_emitters(run, unit, src, common, PRE, FRAME):
    from vlib.extract import Source as _S
    tab = interpreter_table()
    if not all(m in tab for m in (8, 9, 10, 11)):
        raise Undecided("interpreters 3.8-3.11 are needed for the stack-effect table of the leaf emitters")
    unit.raw("} // impl PyCodeGenerator\n" + spec_table(tab))
    run.extra["leaf_emitters_external_table"] = {str(m): tab[m] for m in sorted(tab)}
    for (crate_file, en) in (('crates/erg_common/opcode311.rs', 'Opcode311'), ('crates/erg_common/opcode310.rs', 'Opcode310'),
                             ('crates/erg_common/opcode309.rs', 'Opcode309'), ('crates/erg_common/opcode308.rs', 'Opcode308')):
        text, sp = enum_from_macro(_S(run.repo, crate_file), en)
        unit.raw("// generated from the extracted macro call impl_u8_enum!{%s; ..} (%s): the enum it expands to\n" % (en, crate_file) + text, label='enum ' + en)
    unit.raw("impl PyCodeGenerator {\n")
    O311 = lambda n: str(tab[11][n]["op"])
    specs = {
        'emit_pop_top': dict(EXTRA_PRE="old(self).cur().stack_len > 0,", WRITTEN="true", OPS="opc == CommonOpcode::POP_TOP as int", ARG="0"),
        'emit_print_expr': dict(EXTRA_PRE="old(self).cur().stack_len > 0,", WRITTEN="true", OPS="opc == Opcode311::PRINT_EXPR as int", ARG="0"),
        '_emit_compare_op': dict(EXTRA_PRE="old(self).cur().stack_len > 0, (op as int) < 256,", WRITTEN="true", OPS="opc == Opcode311::COMPARE_OP as int", ARG="(op as int)"),
        'rot2': dict(EXTRA_PRE="", WRITTEN="true", OPS="opc == (if m >= 11 { Opcode311::SWAP as int } else { Opcode310::ROT_TWO as int })", ARG="(if m >= 11 { 2int } else { 0int })"),
        'dup_top': dict(EXTRA_PRE="old(self).cur().stack_len < u32::MAX,", WRITTEN="true", OPS="opc == (if m >= 11 { Opcode311::COPY as int } else { Opcode310::DUP_TOP as int })", ARG="(if m >= 11 { 1int } else { 0int })"),
        'copy': dict(EXTRA_PRE="old(self).cur().stack_len < u32::MAX, 1 <= i < 256, (old(self).py_version.minor->0 < 11 ==> i == 1),   // otherwise: todo!()", WRITTEN="true",
                     OPS="opc == (if m >= 11 { Opcode311::COPY as int } else { Opcode310::DUP_TOP as int })", ARG="(if m >= 11 { i as int } else { 0int })"),
        'emit_push_null': dict(EXTRA_PRE="old(self).cur().stack_len < u32::MAX,", WRITTEN="(old(self).py_version.minor->0 >= 11)", OPS="opc == Opcode311::PUSH_NULL as int", ARG="0"),
    }
    for (f, d) in specs.items():
        sn = sn_copy(src, f, common)
        d = dict(d, PRE=PRE, FRAME=FRAME)
        spec = ONE_INSN % d
        sn.contract(spec)
        unit.add(sn)
        if f in ('dup_top', '_emit_compare_op', 'emit_push_null'):
            # vacuity probe: the same text under the same precondition with `ensures false` must be rejected
            pr = sn_copy(src, f, common)
            pr.rename_fn(f + '__vacuity_probe')
            pr.contract(spec.split('ensures')[0] + 'ensures false,')
            pr.label = 'vacuity-probe PyCodeGenerator::' + f
            unit.add(pr)
            run.extra.setdefault('vacuity_probe_labels', []).append(pr.label)
    run.sample({"function": "PyCodeGenerator::emit_pop_top / emit_print_expr / _emit_compare_op / rot2 / dup_top / copy / emit_push_null",
                "ensures": "append exactly one instruction (opcode, argument, and on 3.11 the zeroed inline cache entries of opcode._inline_cache_entries) and move the tracked stack depth by dis.stack_effect of that instruction under the target interpreter (3.7-3.11); nothing else changes"})
