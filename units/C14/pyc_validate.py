"""Structural validator for a .pyc written by the compiler, run UNDER THE TARGET INTERPRETER (python3.7 .. 3.11).
The oracle is CPython itself: `dis` decodes the instructions (opcode arguments, jump targets, exception table), `dis.stack_effect`
gives the stack effect of every instruction on both branch outcomes, `co_lines`/`findlinestarts` decode the line table.
Checked for every code object (recursively through co_consts):
  * every jump lands on an instruction boundary inside the code,
  * every constant / name / local / free-variable index is in range,
  * a nested function is created (MAKE_FUNCTION) with exactly as many closure cells as it has free variables,
  * the operand-stack depth reachable on any path (abstract interpretation over the control-flow graph, as compile.c's stackdepth())
    is never negative and never exceeds co_stacksize,
  * every line of the line table lies inside the source file (1..n_lines).
usage: pythonX.Y pyc_validate.py file.pyc [n_source_lines]      -> one JSON line {"ok":bool,"problems":[...],"objects":n}
"""
import dis
import json
import marshal
import sys
import types

V = sys.version_info[:2]
TOP_FILE = [None]


def code_objects(co, path='<module>'):
    yield path, co
    for c in co.co_consts:
        if isinstance(c, types.CodeType):
            yield from code_objects(c, path + '.' + c.co_name)


def line_check(co, path, n_lines, problems):
    # ---- line table (only for code that belongs to the compiled file itself: embedded helper modules carry their own file name)
    if n_lines is not None and co.co_filename == TOP_FILE[0] and '%v_codegen_' not in path:   # code of an inlined imported Erg module refers to ITS source
        try:
            if hasattr(co, 'co_lines'):
                lines = [ln for (_, _, ln) in co.co_lines() if ln is not None]
            else:
                lines = [ln for (_, ln) in dis.findlinestarts(co)]
        except Exception as ex:
            problems.append("%s: line table cannot be decoded: %r" % (path, ex))
            lines = []
        for ln in lines:
            if not (1 <= ln <= n_lines):
                problems.append("%s: line table maps code to line %d of a %d-line file" % (path, ln, n_lines))
                break


def check(co, path, n_lines, problems):
    try:
        ins = list(dis.get_instructions(co))
    except Exception as e:
        problems.append("%s: dis cannot decode the code: %r" % (path, e))
        return
    offs = {}
    for k, i in enumerate(ins):
        offs[i.offset] = k
    n = len(ins)
    end = len(co.co_code)
    # an instruction carries its EXTENDED_ARG prefixes: only the first prefix (or the bare instruction) is a jump target
    behind_prefix = set(i.offset for k, i in enumerate(ins) if k > 0 and ins[k - 1].opname == 'EXTENDED_ARG')
    hasjump = set(dis.hasjrel) | set(dis.hasjabs)
    nlocals = len(co.co_varnames)
    ncell = len(co.co_cellvars) + len(co.co_freevars)
    for i in ins:
        op = i.opcode
        arg = i.arg
        if op in hasjump:
            if i.argval not in offs:
                problems.append("%s: offset %d %s jumps to %r, which is not an instruction boundary inside the code (size %d)" % (path, i.offset, i.opname, i.argval, end))
            elif i.argval in behind_prefix:
                problems.append("%s: offset %d %s jumps to %r, behind the EXTENDED_ARG prefix of that instruction (its argument is decoded without the prefix)" % (path, i.offset, i.opname, i.argval))
        if arg is None:
            continue
        if op in dis.hasconst and not (0 <= arg < len(co.co_consts)):
            problems.append("%s: offset %d %s constant index %d out of range (%d constants)" % (path, i.offset, i.opname, arg, len(co.co_consts)))
        if op in dis.hasname:
            idx = arg
            if V >= (3, 11) and i.opname == 'LOAD_GLOBAL':
                idx = arg >> 1
            if V >= (3, 12) and i.opname == 'LOAD_ATTR':
                idx = arg >> 1
            if not (0 <= idx < len(co.co_names)):
                problems.append("%s: offset %d %s name index %d out of range (%d names)" % (path, i.offset, i.opname, idx, len(co.co_names)))
        if op in dis.haslocal:
            lim = nlocals + (ncell if V >= (3, 11) else 0)
            if not (0 <= arg < lim):
                problems.append("%s: offset %d %s local index %d out of range (%d locals)" % (path, i.offset, i.opname, arg, lim))
        if op in dis.hasfree:
            lim = (nlocals + ncell) if V >= (3, 11) else ncell
            if not (0 <= arg < lim):
                problems.append("%s: offset %d %s cell/free index %d out of range (%d)" % (path, i.offset, i.opname, arg, lim))
    # ---- closures: a nested function is created with exactly as many cells as it has free variables
    for k, i in enumerate(ins):
        if i.opname != 'MAKE_FUNCTION':
            continue
        back = [j for j in ins[max(0, k - 4):k] if j.opname != 'EXTENDED_ARG']
        consts = [j for j in back if j.opname == 'LOAD_CONST' and isinstance(j.argval, types.CodeType)]
        if not consts:
            continue
        inner = consts[-1].argval
        has_closure = bool((i.arg or 0) & 0x08)
        if not has_closure and inner.co_freevars:
            problems.append("%s: offset %d MAKE_FUNCTION creates %s without a closure although it has free variables %r" % (path, i.offset, inner.co_name, inner.co_freevars))
        if has_closure:
            tup = [j for j in ins[max(0, k - 6):k] if j.opname == 'BUILD_TUPLE']
            if tup and tup[-1].arg != len(inner.co_freevars):
                problems.append("%s: offset %d MAKE_FUNCTION gives %s a closure of %d cells, it has %d free variables %r" % (path, i.offset, inner.co_name, tup[-1].arg, len(inner.co_freevars), inner.co_freevars))
    # ---- stack depth over the CFG (3.7's dis.stack_effect cannot tell the two outcomes of a branch apart: depth is not checked there)
    if V < (3, 8):
        return line_check(co, path, n_lines, problems)
    NOFALL = {'RETURN_VALUE', 'RAISE_VARARGS', 'RERAISE', 'JUMP_FORWARD', 'JUMP_ABSOLUTE', 'JUMP_BACKWARD', 'JUMP_BACKWARD_NO_INTERRUPT', 'RETURN_CONST'}
    depth_at = {}
    inconsistent = {}
    work = [(0, 0)]
    handlers = []
    if V >= (3, 11):
        try:
            for e in dis._parse_exception_table(co):
                handlers.append(e)
        except Exception as ex:
            problems.append("%s: exception table cannot be parsed: %r" % (path, ex))
    for e in handlers:
        if e.target in offs:
            work.append((e.target, e.depth + 1 + (1 if e.lasti else 0)))
        else:
            problems.append("%s: exception handler target %d is not an instruction boundary" % (path, e.target))
    maxd = 0
    steps = 0
    bad = False
    while work and not bad:
        off, d = work.pop()
        while True:
            steps += 1
            if steps > 200000:
                problems.append("%s: depth analysis did not converge" % path)
                bad = True
                break
            if off not in offs:
                if off != end:
                    problems.append("%s: control reaches offset %d, which is not an instruction boundary" % (path, off))
                else:
                    problems.append("%s: control falls off the end of the code" % path)
                break
            if off in depth_at:
                if depth_at[off] != d and off not in inconsistent:
                    inconsistent[off] = (depth_at[off], d)
                if depth_at[off] >= d:
                    break
            depth_at[off] = d
            i = ins[offs[off]]
            op, arg = i.opcode, i.arg
            try:
                if i.opname == 'EXTENDED_ARG':
                    dj, dn = None, 0      # prefix of the next instruction (dis folds its value into that instruction's argument)
                elif op in hasjump:
                    dj = dis.stack_effect(op, arg, jump=True)
                    dn = dis.stack_effect(op, arg, jump=False)
                else:
                    dj = None
                    dn = dis.stack_effect(op, arg) if op >= dis.HAVE_ARGUMENT else dis.stack_effect(op)
            except Exception as ex:
                problems.append("%s: offset %d %s: stack_effect rejected the instruction: %r" % (path, off, i.opname, ex))
                break
            if dj is not None:
                tj = d + dj
                if tj < 0:
                    problems.append("%s: offset %d %s pops from an empty stack on the taken branch (depth %d)" % (path, off, i.opname, d))
                elif i.argval in offs:
                    maxd = max(maxd, tj)
                    work.append((i.argval, tj))
            nd = d + dn
            # the transient maximum of an instruction is bounded by max(before, after) for all opcodes the compiler emits
            if i.opname in NOFALL:
                maxd = max(maxd, d)
                break
            if nd < 0:
                problems.append("%s: offset %d %s pops from an empty stack (depth %d, effect %d)" % (path, off, i.opname, d, dn))
                break
            maxd = max(maxd, nd, d)
            nxt = offs[off] + 1
            if nxt >= n:
                problems.append("%s: control falls off the end of the code after offset %d %s" % (path, off, i.opname))
                break
            off = ins[nxt].offset
            d = nd
    # (depths that differ at a merge point are NOT reported: dis.stack_effect gives upper bounds on exception edges, so
    #  CPython's own `with` code shows such differences; like compile.c's stackdepth() only the maximum is used)
    if maxd > co.co_stacksize:
        problems.append("%s: co_stacksize %d < reachable operand-stack depth %d" % (path, co.co_stacksize, maxd))
    line_check(co, path, n_lines, problems)
    return maxd


def main():
    data = open(sys.argv[1], 'rb').read()
    n_lines = int(sys.argv[2]) if len(sys.argv) > 2 else None
    problems = []
    try:
        co = marshal.loads(data[16:] if V >= (3, 7) else data[12:])
    except Exception as e:
        print(json.dumps({"ok": False, "problems": ["marshal.loads failed: %r" % (e,)], "objects": 0}))
        return
    k = 0
    TOP_FILE[0] = co.co_filename
    for path, c in code_objects(co):
        k += 1
        check(c, path, n_lines, problems)
    print(json.dumps({"ok": not problems, "problems": problems[:20], "objects": k}))


main()
