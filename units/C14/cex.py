"""Replay for C14 line-table obligations: compile programs with line gaps / code gaps with the REAL compiler built from
$ERG_REPO for Python 3.9 (lnotab format) and let that interpreter decode the line table (dis.findlinestarts)."""
import hashlib
import os
import subprocess

from units.C16 import cpython

PY_CODE = r'''
import marshal, dis, sys
c = marshal.loads(open(sys.argv[1], 'rb').read()[16:])
print(sorted(set(l for _, l in dis.findlinestarts(c))), len(c.co_lnotab))
'''


def build_erg(run, timeout=3000):
    key = hashlib.sha256(run.repo.encode()).hexdigest()[:12]
    tgt = os.path.join(run.cache, 'erg-target-' + key)
    env = dict(os.environ)
    env['CARGO_TARGET_DIR'] = tgt
    env['CARGO_NET_OFFLINE'] = 'true'
    p = subprocess.run(['cargo', 'build', '--offline', '--bin', 'erg'], cwd=run.repo, env=env, capture_output=True, text=True, timeout=timeout)
    if p.returncode != 0:
        raise RuntimeError("erg build failed: " + p.stderr[-800:])
    return os.path.join(tgt, 'debug', 'erg')


def find_lnotab(run, failure):
    py = cpython.find_interpreter(9)
    if not py:
        return {"found": False, "note": "no Python 3.9 interpreter to decode lnotab"}
    erg = build_erg(run)
    work = os.path.join(run.scratch, 'lnotab')
    os.makedirs(work, exist_ok=True)
    for gap in (1, 100, 126, 127, 128, 200, 255, 300, 600):
        for filler in (0, 300):   # statements between the two marked lines (address delta > 255 when large)
            lines = ['print! "start"'] + ['x%d = %d' % (i, i) for i in range(filler)] + [''] * gap + ['print! "end"']
            want = [1] + list(range(2, 2 + filler)) + [1 + filler + gap + 1]
            src = os.path.join(work, 'g%d_%d.er' % (gap, filler))
            open(src, 'w').write('\n'.join(lines) + '\n')
            pyc = src[:-3] + '.pyc'
            subprocess.run([erg, '--mode', 'compile', '--py-command', py, src], capture_output=True, text=True, timeout=300, cwd=work)
            if not os.path.exists(pyc):
                continue
            out = subprocess.run([py, '-c', PY_CODE, pyc], capture_output=True, text=True, timeout=60).stdout.strip()
            try:
                got = eval(out.split(']')[0] + ']')
                tab_len = int(out.split(']')[1])
            except Exception:
                continue
            n_lines = len(lines)
            bad = [l for l in got if l < 1 or l > n_lines] or (tab_len % 2 != 0) or (got and max(got) != n_lines)
            if bad:
                return {"found": True, "how": "line-gap programs compiled by the real compiler (built from the tree under check) for Python 3.9; the line table decoded by that interpreter's dis.findlinestarts",
                        "input": {"program": "print! \"start\", %d assignments, %d blank lines, print! \"end\"" % (filler, gap), "file": src, "lines_in_file": n_lines},
                        "real_result": "lines in the table: %s ... ; len(co_lnotab)=%d" % (got[-4:], tab_len),
                        "oracle": "every line within 1..%d, last line %d, even-length table" % (n_lines, n_lines),
                        "verdict": "the emitted line table maps instructions to lines outside the source file or loses the last line",
                        "replay_cmd": "%s --mode compile --py-command %s %s && %s -c '<decode lnotab>' %s" % (erg, py, src, py, pyc)}
    return {"found": False, "note": "no bad line table on the gap programs tried"}


def find(run, failure):
    if 'push_lnotab' in failure["key"]:
        return find_lnotab(run, failure)
    return {"found": False, "note": "no replay for this function (private bookkeeping primitive of the generator; would need a hook)"}
