"""Replay for C14 line-table obligations: compile programs with line gaps / code gaps with the REAL compiler built from
$ERG_REPO for Python 3.9 (lnotab format) and let that interpreter decode the line table (dis.findlinestarts)."""
import hashlib
import os
import subprocess

from units.C16 import cpython

PY_CODE = r'''
import marshal, dis, sys
c = marshal.loads(open(sys.argv[1], 'rb').read()[16:])
print(sorted(set(l for _, l in dis.findlinestarts(c))), len(c.co_lnotab))
'''


def build_erg(run, timeout=3000):
    key = hashlib.sha256(run.repo.encode()).hexdigest()[:12]
    tgt = os.path.join(run.cache, 'erg-target-' + key)
    env = dict(os.environ)
    env['CARGO_TARGET_DIR'] = tgt
    env['CARGO_NET_OFFLINE'] = 'true'
    p = subprocess.run(['cargo', 'build', '--offline', '--bin', 'erg'], cwd=run.repo, env=env, capture_output=True, text=True, timeout=timeout)
    if p.returncode != 0:
        raise RuntimeError("erg build failed: " + p.stderr[-800:])
    return os.path.join(tgt, 'debug', 'erg')


def find_lnotab(run, failure):
    py = cpython.find_interpreter(9)
    if not py:
        return {"found": False, "note": "no Python 3.9 interpreter to decode lnotab"}
    erg = build_erg(run)
    work = os.path.join(run.scratch, 'lnotab')
    os.makedirs(work, exist_ok=True)
    for gap in (1, 100, 126, 127, 128, 200, 255, 300, 600):
        for filler in (0, 300):   # statements between the two marked lines (address delta > 255 when large)
            lines = ['print! "start"'] + ['x%d = %d' % (i, i) for i in range(filler)] + [''] * gap + ['print! "end"']
            want = [1] + list(range(2, 2 + filler)) + [1 + filler + gap + 1]
            src = os.path.join(work, 'g%d_%d.er' % (gap, filler))
            open(src, 'w').write('\n'.join(lines) + '\n')
            pyc = src[:-3] + '.pyc'
            subprocess.run([erg, '--mode', 'compile', '--py-command', py, src], capture_output=True, text=True, timeout=300, cwd=work)
            if not os.path.exists(pyc):
                continue
            out = subprocess.run([py, '-c', PY_CODE, pyc], capture_output=True, text=True, timeout=60).stdout.strip()
            try:
                got = eval(out.split(']')[0] + ']')
                tab_len = int(out.split(']')[1])
            except Exception:
                continue
            n_lines = len(lines)
            bad = [l for l in got if l < 1 or l > n_lines] or (tab_len % 2 != 0) or (got and max(got) != n_lines)
            if bad:
                return {"found": True, "how": "line-gap programs compiled by the real compiler (built from the tree under check) for Python 3.9; the line table decoded by that interpreter's dis.findlinestarts",
                        "input": {"program": "print! \"start\", %d assignments, %d blank lines, print! \"end\"" % (filler, gap), "file": src, "lines_in_file": n_lines},
                        "real_result": "lines in the table: %s ... ; len(co_lnotab)=%d" % (got[-4:], tab_len),
                        "oracle": "every line within 1..%d, last line %d, even-length table" % (n_lines, n_lines),
                        "verdict": "the emitted line table maps instructions to lines outside the source file or loses the last line",
                        "replay_cmd": "%s --mode compile --py-command %s %s && %s -c '<decode lnotab>' %s" % (erg, py, src, py, pyc)}
    return {"found": False, "note": "no bad line table on the gap programs tried"}


def find(run, failure):
    if 'push_lnotab' in failure["key"]:
        return find_lnotab(run, failure)
    return {"found": False, "note": "no replay for this function (private bookkeeping primitive of the generator; would need a hook)"}


# ---------------------------------------------------------------------------------------------------------------------------
# Bounded exploration of what the contracts assume (NOT counted as proved): the emitters' stack effects, jump targets and index
# ranges. Programs are compiled by the REAL compiler built from the tree under check and every code object of the .pyc is
# validated structurally under the target interpreter (units/C14/pyc_validate.py: CPython's own dis / dis.stack_effect as oracle).
import glob
import json
import re
import shutil
import tempfile

HERE = os.path.dirname(os.path.abspath(__file__))
VALIDATOR = os.path.join(HERE, 'pyc_validate.py')
PROBES = os.path.join(HERE, 'probes')


def _problem_class(msg):
    """stable class of a validator message (numbers removed) -> part of the finding key"""
    m = msg.split(': ', 1)[-1]
    m = re.sub(r'offset \d+ ', '', m)
    m = re.sub(r'\d+', 'N', m)
    return m[:90]


def explore_pyc(run):
    erg = build_erg(run)
    quick = run.tier != 'thorough'
    minors = [11, 10, 9, 8] if quick else [11, 10, 9, 8, 7]   # quick: the corpus only for 3.11, the probes for every target with depth analysis
    probes = sorted(glob.glob(os.path.join(PROBES, '*.er')))
    corpus = sorted(glob.glob(os.path.join(run.repo, 'tests', 'should_ok', '*.er')) + glob.glob(os.path.join(run.repo, 'examples', '*.er')))
    work = tempfile.mkdtemp(prefix='pyc-', dir=run.scratch)
    findings = []
    n_files = n_objects = 0
    skipped = []
    for minor in minors:
        py = cpython.find_interpreter(minor)
        if not py:
            skipped.append("3.%d (no interpreter)" % minor)
            continue
        files = probes + (corpus if (not quick or minor == 11) else [])
        for f in files:
            d = tempfile.mkdtemp(dir=work)
            dst = os.path.join(d, os.path.basename(f))
            shutil.copy(f, dst)
            try:
                subprocess.run([erg, '--py-command', py, 'compile', dst], capture_output=True, text=True, timeout=180, cwd=os.path.dirname(f))
            except subprocess.TimeoutExpired:
                findings.append({"key": "3.%d|%s|compiler|did not terminate" % (minor, os.path.basename(f)), "verdict": "the compiler did not finish within 180 s", "input": {"file": f}})
                continue
            pyc = dst[:-3] + '.pyc'
            if not os.path.exists(pyc):
                shutil.rmtree(d, ignore_errors=True)
                continue   # rejected by the checker for this target: nothing emitted
            n_files += 1
            n_lines = len(open(f, encoding='utf-8').read().split('\n'))
            q = subprocess.run([py, VALIDATOR, pyc, str(n_lines)], capture_output=True, text=True, timeout=120)
            try:
                j = json.loads(q.stdout.strip().split('\n')[-1])
            except Exception:
                findings.append({"key": "3.%d|%s|validator|crashed" % (minor, os.path.basename(f)), "verdict": "validator crashed: " + q.stderr[-200:], "input": {"file": f}})
                continue
            n_objects += j.get("objects", 0)
            seen = set()
            for pr in j.get("problems", []):
                obj = pr.split(': ', 1)[0]
                if obj in seen:
                    continue       # one finding per code object (the first problem)
                seen.add(obj)
                findings.append({"key": "3.%d|%s|%s|%s" % (minor, os.path.basename(f), obj, _problem_class(pr)),
                                 "verdict": "Python 3.%d, %s: %s" % (minor, os.path.basename(f), pr),
                                 "how": "compiled by the real compiler (built from the tree under check) for that target; validated under that interpreter with dis / dis.stack_effect",
                                 "input": {"file": f, "target": "3.%d" % minor}, "oracle": "CPython's dis and dis.stack_effect (structural validity of a code object)",
                                 "replay_cmd": "%s --py-command %s compile %s && %s %s %s %d" % (erg, py, f, py, VALIDATOR, os.path.basename(f)[:-3] + '.pyc', n_lines)})
            shutil.rmtree(d, ignore_errors=True)
    shutil.rmtree(work, ignore_errors=True)
    run.extra["bounded_pyc_structure_check"] = {"targets": ["3.%d" % m for m in minors], "files_compiled": n_files, "code_objects_validated": n_objects,
        "probes": [os.path.basename(p) for p in probes], "corpus": "tests/should_ok/*.er + examples/*.er (%d files; quick tier: on 3.11 only)" % len(corpus),
        "skipped": skipped,
        "checked": "jump targets on instruction boundaries; const/name/local/free indices in range; reachable operand-stack depth (CFG, dis.stack_effect) within [0, co_stacksize] (3.8+); line table inside the source file"}
    return {"found": bool(findings), "findings": findings, "note": "%d files, %d code objects, %d findings" % (n_files, n_objects, len(findings))}
