// C31 prelude (hand-written): what a path denotes lexically, its canonical form, and std::path as an abstract type (rule R5): a path is
// seen as the component sequence std::path::Components yields for it; PathBuf::new/from/push/pop and Components::next_back carry assumed
// std contracts stated over that sequence.
use vstd::prelude::*;
verus! {

/// R5/R1: std::path::Component with the OsStr / PrefixComponent payloads replaced by opaque ids
#[derive(Clone, Copy, PartialEq, Eq)]
pub enum Component { Prefix(u64), RootDir, CurDir, ParentDir, Normal(u64) }

/// what a path denotes lexically (no symlinks): an optional prefix, rooted or not, `ups` steps up from the starting directory
/// (only for relative paths), then down through `names`
pub struct Den { pub prefix: Option<u64>, pub rooted: bool, pub ups: nat, pub names: Seq<u64> }

pub open spec fn den0() -> Den { Den { prefix: None, rooted: false, ups: 0, names: Seq::empty() } }
pub open spec fn step(d: Den, c: Component) -> Den {
    match c {
        Component::Prefix(p) => Den { prefix: Some(p), ..d },
        Component::RootDir => Den { rooted: true, ..d },
        Component::CurDir => d,
        Component::Normal(n) => Den { names: d.names.push(n), ..d },
        Component::ParentDir =>
            if d.names.len() > 0 { Den { names: d.names.drop_last(), ..d } }
            else if d.rooted || d.prefix.is_some() { d }     // the parent of the root is the root
            else { Den { ups: d.ups + 1, ..d } },
    }
}
pub open spec fn den(s: Seq<Component>) -> Den decreases s.len() { if s.len() == 0 { den0() } else { step(den(s.drop_last()), s.last()) } }

pub open spec fn pre(d: Den) -> Seq<Component> {
    (if d.prefix.is_some() { seq![Component::Prefix(d.prefix.unwrap())] } else { Seq::<Component>::empty() })
    + (if d.rooted { seq![Component::RootDir] } else { Seq::<Component>::empty() })
}
pub open spec fn canon(d: Den) -> Seq<Component> {
    pre(d) + Seq::new(d.ups, |i: int| Component::ParentDir) + Seq::new(d.names.len(), |i: int| Component::Normal(d.names[i]))
}
/// a denotation that a path can have: `..` above a root or a prefix does not count
pub open spec fn den_wf(d: Den) -> bool { (d.rooted || d.prefix.is_some()) ==> d.ups == 0 }

/// the component sequences std::path::Components yields: a prefix only first, the root only first or right after the prefix,
/// `.` only first (interior ones are normalised away by std)
pub open spec fn comps_wf(s: Seq<Component>) -> bool {
    forall|i: int| 0 <= i < s.len() ==> match #[trigger] s[i] {
        Component::Prefix(_) => i == 0,
        Component::RootDir => i == 0 || (i == 1 && s[0] is Prefix),
        Component::CurDir => i == 0,
        _ => true,
    }
}


// ---- abstract paths (R5): a path is seen as the component sequence std::path::Components yields for it
// @trusted: R5 abstract view of std::path::Path / PathBuf (the component sequence)
#[verifier::external_body]
pub struct PPath { inner: std::path::PathBuf }
impl PPath {
    pub uninterp spec fn view(&self) -> Seq<Component>;
    // @trusted: std contract of PathBuf::new (no components)
    #[verifier::external_body]
    pub fn new() -> (r: PPath) ensures r@ == Seq::<Component>::empty() { unimplemented!() }
    // @trusted: std contract of PathBuf::from(prefix.as_os_str()): the path consisting of that prefix
    #[verifier::external_body]
    pub fn w_from_comp(c: Component) -> (r: PPath) requires c is Prefix ensures r@ == seq![c] { unimplemented!() }
    // @trusted: std contract of PathBuf::push for a root directory (onto an empty path or a bare prefix: otherwise push would REPLACE the path - precondition) and for `..` (appended)
    #[verifier::external_body]
    pub fn w_push_comp(&mut self, c: Component)
        requires c is RootDir || c is ParentDir, c is RootDir ==> (old(self)@.len() == 0 || (old(self)@.len() == 1 && old(self)@[0] is Prefix)),
        ensures final(self)@ == old(self)@.push(c)
    { unimplemented!() }
    // @trusted: std contract of PathBuf::push for a single normal component (appended)
    #[verifier::external_body]
    pub fn w_push_normal(&mut self, n: u64) ensures final(self)@ == old(self)@.push(Component::Normal(n)) { unimplemented!() }
    // @trusted: std contract of Path::components().next_back() (the last component)
    #[verifier::external_body]
    pub fn w_last(&self) -> (r: Option<Component>) ensures r == (if self@.len() == 0 { None::<Component> } else { Some(self@.last()) }) { unimplemented!() }
    // @trusted: std contract of PathBuf::pop when the last component is a normal one (it is removed)
    #[verifier::external_body]
    pub fn w_pop(&mut self) -> (b: bool)
        ensures old(self)@.len() > 0 && old(self)@.last() is Normal ==> b && final(self)@ == old(self)@.drop_last()
    { unimplemented!() }
}
pub struct CompIter { pub v: Vec<Component>, pub pos: usize }
/// R4: `path.components().peekable()`: an iterator over the component sequence (CompIter is verified code, not assumed)
// @trusted: std contract of Path::components (yields the component sequence, which satisfies comps_wf)
#[verifier::external_body]
pub fn w_components(p: &PPath) -> (r: CompIter) ensures r.v@ == p@, r.pos == 0 { unimplemented!() }
impl CompIter {
    pub fn w_peek_if_prefix(&self) -> (r: Option<Component>)
        requires self.pos <= self.v@.len()
        ensures r == (if self.pos < self.v@.len() && self.v@[self.pos as int] is Prefix { Some(self.v@[self.pos as int]) } else { None::<Component> })
    {
        if self.pos < self.v.len() { match self.v[self.pos] { Component::Prefix(_) => Some(self.v[self.pos]), _ => None } } else { None }
    }
    pub fn next(&mut self) -> (r: Option<Component>)
        requires old(self).pos <= old(self).v@.len()
        ensures final(self).v@ == old(self).v@,
            old(self).pos < old(self).v@.len() ==> r == Some(old(self).v@[old(self).pos as int]) && final(self).pos == old(self).pos + 1,
            old(self).pos >= old(self).v@.len() ==> r is None && final(self).pos == old(self).pos,
    {
        if self.pos < self.v.len() { let c = self.v[self.pos]; self.pos = self.pos + 1; Some(c) } else { None }
    }
}
// @trusted: R6 diverging call, precondition false
#[verifier::external_body]
pub fn ext_abort() -> ! requires false { unreachable!() }

// ---- lemmas
pub open spec fn ups_seq(n: nat) -> Seq<Component> { Seq::new(n, |i: int| Component::ParentDir) }
pub open spec fn names_seq(ns: Seq<u64>) -> Seq<Component> { Seq::new(ns.len(), |i: int| Component::Normal(ns[i])) }

proof fn lemma_den_take(s: Seq<Component>, k: int)
    requires 0 <= k < s.len()
    ensures den(s.take(k + 1)) == step(den(s.take(k)), s[k])
{
    assert(s.take(k + 1).drop_last() =~= s.take(k));
}
/// along a well-formed component sequence the denotation stays well-formed, and before the root/prefix nothing has been seen
proof fn lemma_den_wf(s: Seq<Component>)
    requires comps_wf(s)
    ensures den_wf(den(s)),
        s.len() == 0 ==> den(s) == den0(),
        (s.len() == 1 && s[0] is Prefix) ==> den(s) == (Den { prefix: Some(s[0]->Prefix_0), ..den0() }),
    decreases s.len()
{
    if s.len() > 0 {
        let t = s.drop_last();
        assert(comps_wf(t)) by { assert forall|i: int| 0 <= i < t.len() implies match #[trigger] t[i] { Component::Prefix(_) => i == 0, Component::RootDir => i == 0 || (i == 1 && t[0] is Prefix), Component::CurDir => i == 0, _ => true } by { assert(t[i] == s[i]); if i == 1 { assert(t[0] == s[0]); } } }
        lemma_den_wf(t);
        let c = s.last();
        assert(s[s.len() - 1] == c);
        if s.len() == 1 { assert(t.len() == 0); }
        match c {
            Component::RootDir => { if s.len() == 2 { assert(t.len() == 1 && t[0] == s[0]); } }
            _ => {}
        }
    }
}
proof fn lemma_canon_normal(d: Den, n: u64)
    ensures canon(step(d, Component::Normal(n))) == canon(d).push(Component::Normal(n))
{
    let e = step(d, Component::Normal(n));
    assert(names_seq(e.names) =~= names_seq(d.names).push(Component::Normal(n)));
    assert(canon(e) =~= canon(d).push(Component::Normal(n)));
}
proof fn lemma_canon_parent(d: Den)
    requires den_wf(d)
    ensures
        d.names.len() > 0 ==> canon(d).len() > 0 && canon(d).last() is Normal && canon(step(d, Component::ParentDir)) == canon(d).drop_last(),
        d.names.len() == 0 && (d.rooted || d.prefix.is_some()) ==> canon(d).len() > 0 && (canon(d).last() is RootDir || canon(d).last() is Prefix) && step(d, Component::ParentDir) == d,
        d.names.len() == 0 && !d.rooted && d.prefix.is_none() ==> (canon(d).len() == 0 || canon(d).last() is ParentDir) && canon(step(d, Component::ParentDir)) == canon(d).push(Component::ParentDir),
{
    let e = step(d, Component::ParentDir);
    if d.names.len() > 0 {
        assert(names_seq(e.names) =~= names_seq(d.names).drop_last());
        assert(canon(e) =~= canon(d).drop_last());
        assert(canon(d).last() == names_seq(d.names).last());
    } else if d.rooted || d.prefix.is_some() {
        assert(names_seq(d.names) =~= Seq::<Component>::empty());
        assert(ups_seq(d.ups) =~= Seq::<Component>::empty());
        assert(canon(d) =~= pre(d));
    } else {
        assert(names_seq(d.names) =~= Seq::<Component>::empty());
        assert(pre(d) =~= Seq::<Component>::empty());
        assert(canon(d) =~= ups_seq(d.ups));
        assert(ups_seq(e.ups) =~= ups_seq(d.ups).push(Component::ParentDir));
        assert(canon(e) =~= canon(d).push(Component::ParentDir));
    }
}
proof fn lemma_canon_root(d: Den)
    requires d.ups == 0, d.names.len() == 0, !d.rooted
    ensures canon(step(d, Component::RootDir)) == canon(d).push(Component::RootDir), canon(d).len() == 0 || (canon(d).len() == 1 && canon(d)[0] is Prefix)
{
    let e = step(d, Component::RootDir);
    assert(names_seq(d.names) =~= Seq::<Component>::empty());
    assert(ups_seq(d.ups) =~= Seq::<Component>::empty());
    assert(canon(d) =~= pre(d));
    assert(canon(e) =~= pre(e));
    assert(pre(e) =~= pre(d).push(Component::RootDir));
}

/// the canonical form denotes what it was built from: so it is a fixed point (idempotence) and equal canonical forms mean equal
/// denotations (only paths that resolve to the same file are identified)
proof fn lemma_den_canon(d: Den)
    requires den_wf(d)
    ensures den(canon(d)) == d, comps_wf(canon(d))
    decreases d.names.len() + d.ups
{
    let c = canon(d);
    if d.names.len() > 0 {
        let last = d.names.last();
        let d1 = Den { names: d.names.drop_last(), ..d };
        assert(names_seq(d.names) =~= names_seq(d1.names).push(Component::Normal(last)));
        assert(c =~= canon(d1).push(Component::Normal(last)));
        lemma_den_canon(d1);
        assert(c.drop_last() =~= canon(d1));
        assert(d1.names.push(last) =~= d.names);
        assert(comps_wf(c)) by { assert forall|i: int| 0 <= i < c.len() implies match #[trigger] c[i] { Component::Prefix(_) => i == 0, Component::RootDir => i == 0 || (i == 1 && c[0] is Prefix), Component::CurDir => i == 0, _ => true } by { if i < c.len() - 1 { assert(c[i] == canon(d1)[i]); if i == 1 { assert(c[0] == canon(d1)[0]); } } } }
    } else if d.ups > 0 {
        let d1 = Den { ups: (d.ups - 1) as nat, ..d };
        assert(names_seq(d.names) =~= Seq::<Component>::empty());
        assert(ups_seq(d.ups) =~= ups_seq(d1.ups).push(Component::ParentDir));
        assert(c =~= canon(d1).push(Component::ParentDir));
        lemma_den_canon(d1);
        assert(c.drop_last() =~= canon(d1));
        assert(comps_wf(c)) by { assert forall|i: int| 0 <= i < c.len() implies match #[trigger] c[i] { Component::Prefix(_) => i == 0, Component::RootDir => i == 0 || (i == 1 && c[0] is Prefix), Component::CurDir => i == 0, _ => true } by { if i < c.len() - 1 { assert(c[i] == canon(d1)[i]); if i == 1 { assert(c[0] == canon(d1)[0]); } } } }
    } else {
        assert(names_seq(d.names) =~= Seq::<Component>::empty());
        assert(ups_seq(d.ups) =~= Seq::<Component>::empty());
        assert(c =~= pre(d));
        assert(d.names =~= Seq::<u64>::empty());
        reveal_with_fuel(den, 3);
        if d.prefix.is_some() && d.rooted {
            assert(c =~= seq![Component::Prefix(d.prefix.unwrap()), Component::RootDir]);
            assert(c.drop_last() =~= seq![Component::Prefix(d.prefix.unwrap())]);
            assert(c.drop_last().drop_last() =~= Seq::<Component>::empty());
        } else if d.prefix.is_some() {
            assert(c =~= seq![Component::Prefix(d.prefix.unwrap())]);
            assert(c.drop_last() =~= Seq::<Component>::empty());
        } else if d.rooted {
            assert(c =~= seq![Component::RootDir]);
            assert(c.drop_last() =~= Seq::<Component>::empty());
        } else {
            assert(c =~= Seq::<Component>::empty());
        }
    }
}
/// idempotence, at the level of the contract of cheap_canonicalize_path: the canonical form of a canonical form is itself
proof fn lemma_idempotent(s: Seq<Component>)
    requires comps_wf(s)
    ensures comps_wf(canon(den(s))), canon(den(canon(den(s)))) == canon(den(s))
{
    lemma_den_wf(s);
    lemma_den_canon(den(s));
}
/// only paths with the same denotation (the same file, lexically) get the same canonical form
proof fn lemma_injective(a: Seq<Component>, b: Seq<Component>)
    requires comps_wf(a), comps_wf(b), canon(den(a)) == canon(den(b))
    ensures den(a) == den(b)
{
    lemma_den_wf(a); lemma_den_wf(b);
    lemma_den_canon(den(a)); lemma_den_canon(den(b));
}
/// leading parent-directory components of a relative path are never discarded: k leading `..` give at least k steps up, and the
/// canonical form of a relative path begins with exactly that many `..`
proof fn lemma_leading_parents(s: Seq<Component>, k: int)
    requires 0 <= k <= s.len(), forall|i: int| 0 <= i < k ==> s[i] is ParentDir
    ensures den(s.take(k)) == (Den { ups: k as nat, ..den0() })
    decreases k
{
    if k == 0 { assert(s.take(0) =~= Seq::<Component>::empty()); }
    else {
        lemma_leading_parents(s, k - 1);
        lemma_den_take(s, k - 1);
        assert(den(s.take(k - 1)).names.len() == 0);
    }
}
proof fn lemma_ups_monotone(s: Seq<Component>, k: int)
    requires 0 <= k <= s.len(), forall|i: int| k <= i < s.len() ==> !(s[i] is RootDir) && !(s[i] is Prefix)
    ensures den(s).ups >= den(s.take(k)).ups, den(s).rooted == den(s.take(k)).rooted, den(s).prefix == den(s.take(k)).prefix
    decreases s.len() - k
{
    if k == s.len() { assert(s.take(k) =~= s); }
    else {
        lemma_den_take(s, k);
        // one more component never lowers `ups`
        assert forall|i: int| k + 1 <= i < s.len() implies !(s[i] is RootDir) && !(s[i] is Prefix) by { }
        lemma_ups_monotone(s, k + 1);
    }
}
proof fn lemma_canon_leading(d: Den, i: int)
    requires !d.rooted, d.prefix.is_none(), 0 <= i < d.ups
    ensures canon(d)[i] is ParentDir, canon(d).len() >= d.ups
{
    assert(pre(d) =~= Seq::<Component>::empty());
    assert(canon(d) =~= ups_seq(d.ups) + names_seq(d.names));
}
} // verus!
