"""C31: (1) Verus unit on the real text of erg_common::cheap_canonicalize_path over an abstract std::path (a path = the component sequence
std yields for it): the result is the canonical form of what the path denotes lexically; lemmas: idempotent, injective on denotations,
leading `..` of a relative path kept. (2) BOUNDED stand-in (not counted): run-time-checked contracts on the real path normalisation.

std::path::Components is not expressible in Verus and a Kani harness over 4 symbolic path bytes did not finish in 15 minutes,
so the contracts are executable predicates (replay/src/c31.rs) checked on EVERY path of up to N components from
{".", "..", "a", "b"}, relative and absolute (N = 8, the property's own bound)."""
import json
import os
import subprocess
import time

from vlib.snippet import Snippet, Undecided
from vlib.extract import Source
from vlib.verus_unit import VerusUnit
from vlib import rules

HERE = os.path.dirname(os.path.abspath(__file__))

WF_AT = """assert(comps_wf(path@.take(K))) by { assert forall|i: int| 0 <= i < path@.take(K).len() implies match #[trigger] path@.take(K)[i] { Component::Prefix(_) => i == 0, Component::RootDir => i == 0 || (i == 1 && path@.take(K)[0] is Prefix), Component::CurDir => i == 0, _ => true } by { assert(path@.take(K)[i] == path@[i]); if i == 1 { assert(path@.take(K)[0] == path@[0]); } } }"""


def build_verus(run):
    src = Source(run.repo, 'crates/erg_common/lib.rs')
    unit = VerusUnit('C31', run.scratch)
    unit.raw_file(os.path.join(HERE, 'prelude.rs'))
    unit.raw("verus! {\n")
    for probe in (False, True):
        f = Snippet(src.fn('cheap_canonicalize_path'), 'vacuity-probe cheap_canonicalize_path' if probe else 'cheap_canonicalize_path')
        rules.strip_vis_attrs(f)
        f.rw('R5', r'\(path: &Path\) -> PathBuf', '(path: &PPath) -> PPath', expect=1)
        f.rw('R4', r'path\.components\(\)\.peekable\(\)', 'w_components(path)', expect=1)
        f.rw('R4', r'if let Some\((\w+) @ Component::Prefix\(\.\.\)\) = components\.peek\(\)\.cloned\(\) \{', r'if let Some(\1) = components.w_peek_if_prefix() {', expect=1)
        f.rw('R5', r'PathBuf::from\((\w+)\.as_os_str\(\)\)', r'PPath::w_from_comp(\1)', expect=1)
        f.rw('R5', r'PathBuf::new\(\)', 'PPath::new()', expect=1)
        # `for x in iter { .. }` is `loop { match iter.next() { None => break, Some(x) => { .. } } }` (R11, written with is_none/unwrap)
        f.rw('R11', r'for (\w+) in components \{', r'loop {\n        let verif_next = components.next(); if verif_next.is_none() { break; }\n        let \1 = verif_next.unwrap();', expect=1)
        rules.aborts(f)
        f.rw('R4', r'\bret\.push\((\w+)\.as_os_str\(\)\)', r'ret.w_push_comp(\1)', expect='*')
        f.rw('R4', r'\bret\.push\((\w+)\)', r'ret.w_push_normal(\1)', expect='*')
        f.rw('R4', r'\bret\.components\(\)\.next_back\(\)', 'ret.w_last()', expect='*')
        f.rw('R4', r'\bret\.pop\(\)', 'ret.w_pop()', expect='*')
        if probe:
            f.rename_fn('cheap_canonicalize_path__vacuity_probe')
            run.extra.setdefault('vacuity_probe_labels', []).append(f.label)
        f.contract("requires comps_wf(path@),   // what std::path::Components yields\n    ensures " + ("false," if probe else "res@ == canon(den(path@)), den_wf(den(path@)),   // the canonical form of what the path denotes"))
        f.insert_at(r'\bloop \{', """    proof {
        let k = components.pos as int;
        lemma_den_wf(path@.take(k));
        if k == 1 { assert(path@.take(1)[0] == path@[0]); assert(canon(den(path@.take(1))) =~= seq![path@[0]]); }
        else { assert(canon(den0()) =~= Seq::<Component>::empty()); }
    }""", where='before')
        f.loop_spec(0, """invariant
            comps_wf(path@), components.v@ == path@, components.pos <= path@.len(),
            ret@ == canon(den(path@.take(components.pos as int))),
            components.pos == 0 ==> (path@.len() == 0 || !(path@[0] is Prefix)),
        ensures components.pos == path@.len(), ret@ == canon(den(path@.take(components.pos as int))),
        decreases path@.len() - components.pos,""")
        f.insert_at(r'= verif_next\.unwrap\(\);', """        proof {
            let k = components.pos as int - 1;
            lemma_den_take(path@, k);
            %s
            lemma_den_wf(path@.take(k));
            let d = den(path@.take(k));
            lemma_canon_parent(d);
            assert(path@[k] == component);
            match component {
                Component::Normal(n) => { lemma_canon_normal(d, n); }
                Component::RootDir => {
                    if k == 1 { assert(path@.take(1)[0] == path@[0]); }
                    lemma_canon_root(d);
                }
                _ => {}
            }
        }""" % WF_AT.replace('K', 'k'), where='after')
        f.insert_before_tail("    proof { assert(path@.take(path@.len() as int) =~= path@); lemma_den_wf(path@); }")
        unit.add(f)
    unit.raw("} // verus!\n")
    run.sample({"function": "cheap_canonicalize_path", "ensures": "for every component sequence std::path can yield: result == canon(den(path)) - [prefix][root] + `..` x ups + names - where den is the lexical denotation (prefix, rooted, steps up, names); never reaches unreachable!(); PathBuf::push is never handed a root that would replace the path; terminates"})
    run.sample({"lemma": "lemma_idempotent / lemma_injective / lemma_leading_parents", "ensures": "canon(den(canon(den(s)))) == canon(den(s)); equal canonical forms => equal denotations (only paths naming the same file are identified); k leading `..` of a relative path give ups >= k and the canonical form begins with `..` x ups"})
    return unit


def explore_paths(run):
    """BOUNDED stand-in (not counted): run-time-checked contracts on the real cheap_canonicalize_path / normalize_path /
    NormalizedPathBuf::new for every path of up to N components."""
    from vlib import replay as rp
    binary = rp.build(run, 'c31', deps=('erg_common',))
    n = 8 if run.tier != 'thorough' else 10
    p = subprocess.run([binary, str(n)], capture_output=True, text=True, timeout=7200)
    try:
        js = json.loads(p.stdout.strip().split('\n')[-1])
    except Exception:
        return {"found": False, "note": "c31 exploration produced no result: " + p.stderr[-400:]}
    findings = []
    for v in js["violations"]:
        kind = v.split(':')[0][:60]
        if any(f["key"] == kind for f in findings):
            continue
        path = v.split('"')[1] if '"' in v else ''
        findings.append({"key": kind, "how": "exhaustive enumeration of component lists on the real NormalizedPathBuf::new / cheap_canonicalize_path",
                         "input": {"path": path}, "real_result": v, "oracle": "lexical resolution of the path (independent reference in replay/src/c31.rs)",
                         "verdict": v[:200], "replay_cmd": "%s %d" % (binary, n)})
    run.extra["bounded_contract_on_path_normalisation"] = {
        "paths": js["paths"], "distinct_normal_forms": js["distinct_normal_forms"], "exhaustive_within_bound": True,
        "rule": "every path made of up to %d components from {., .., a, b}, relative and absolute. Checked on each: NormalizedPathBuf::new and cheap_canonicalize_path/normalize_path are idempotent; the number of leading `..` of a relative path is preserved; two paths with the same normal form have the same lexical resolution (same file)." % n,
        "samples": js["samples"][:6]}
    return {"findings": findings, "found": bool(findings), "note": None if findings else "%d paths, no disagreement" % js["paths"]}


def run(run, replay=None):
    lib = Source(run.repo, 'crates/erg_common/lib.rs')
    pu = Source(run.repo, 'crates/erg_common/pathutil.rs')
    for d in (lib.fn('normalize_path').describe(), pu.fn('new', impl=r'NormalizedPathBuf').describe()):
        d["unit_label"] = d.get("item", "") + " (BOUNDED run-time-checked contract only)"
        run.functions.append(d)
    # textual anchor: NormalizedPathBuf::new is normalize_path(cheap_canonicalize_path(&path))
    if 'normalize_path(cheap_canonicalize_path(&path))' not in pu.fn('new', impl=r'NormalizedPathBuf').text:
        raise Undecided("NormalizedPathBuf::new is no longer normalize_path(cheap_canonicalize_path(&path))")
    run.level = 'proof'
    run.explorations.append(("path normalisation", lambda: explore_paths(run)))
    unit = build_verus(run)
    res = unit.run(rlimit=60)

    def finder(f):
        r = explore_paths(run)
        fs = r.get("findings") or []
        return dict(fs[0], found=True) if fs else {"found": False, "note": r.get("note")}
    run.add_verus(unit, res, cex_finder=finder, expect_fail=tuple(run.extra.get('vacuity_probe_labels', ())))
    run.bounded_note = "std::path itself (how a string is split into components, what push/pop do to the string), normalize_path (verbatim-prefix stripping, case folding) and NormalizedPathBuf::new are covered only by the bounded run-time-checked contract (coverage.bounded_contract_on_path_normalisation): every path of up to 8 (thorough 10) components over {., .., a, b}; not counted in the obligations"
    run.assumptions.append("std::path as an abstract type: a path is the component sequence Components yields (a prefix only first, the root only first or right after a prefix, `.` only first); PathBuf::new/from/push/pop and next_back carry assumed contracts over that sequence; OsStr payloads are opaque ids. `..` directly under a bare prefix (drive-relative Windows paths) is treated like `..` at the root, as the code does.")
    run.assumptions.append("BOUNDED part: exhaustive only up to the stated number of components over a 4-symbol alphabet; symlinks, case-insensitive file systems and Windows prefixes are not exercised.")
