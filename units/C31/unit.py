"""C31 (BOUNDED stand-in, not a proof): run-time-checked contracts on the real path normalisation.

std::path::Components is not expressible in Verus and a Kani harness over 4 symbolic path bytes did not finish in 15 minutes,
so the contracts are executable predicates (replay/src/c31.rs) checked on EVERY path of up to N components from
{".", "..", "a", "b"}, relative and absolute (N = 8, the property's own bound)."""
import json
import subprocess
import time

from vlib.snippet import Undecided
from vlib.extract import Source


def run(run, replay=None):
    from vlib import replay as rp
    lib = Source(run.repo, 'crates/erg_common/lib.rs')
    pu = Source(run.repo, 'crates/erg_common/pathutil.rs')
    run.functions.extend([lib.fn('cheap_canonicalize_path').describe(), lib.fn('normalize_path').describe(),
                          pu.fn('new', impl=r'NormalizedPathBuf').describe()])
    binary = rp.build(run, 'c31', deps=('erg_common',))
    n = 8 if run.tier != 'thorough' else 10
    run.level = 'exploration'
    t0 = time.time()
    p = subprocess.run([binary, str(n)], capture_output=True, text=True, timeout=7200)
    try:
        js = json.loads(p.stdout.strip().split('\n')[-1])
    except Exception:
        raise Undecided("c31 exploration produced no result: " + p.stderr[-400:])
    run.solver_time_s = time.time() - t0
    kinds = {}
    for v in js["violations"]:
        kind = v.split(':')[0][:60]
        if kind in kinds:
            continue
        kinds[kind] = v
        path = v.split('"')[1] if '"' in v else ''
        run.add_obligation("path normalisation|contract|" + kind, 'runtime-contract', False, detail={"msg": v},
                           cex={"found": True, "how": "exhaustive enumeration of component lists on the real NormalizedPathBuf::new / cheap_canonicalize_path",
                                "input": {"path": path}, "real_result": v, "oracle": "lexical resolution of the path (independent reference in replay/src/c31.rs)",
                                "verdict": v.split(':')[0], "replay_cmd": "%s %d" % (binary, n)})
    if not js["violations"]:
        run.add_obligation("all paths of up to %d components" % n, 'runtime-contract', True, cmd="%s %d" % (binary, n))
    run.bounded_note = "all paths of up to %d components over {., .., a, b}, relative and absolute; nothing beyond that bound is covered" % n
    run.extra.update({
        "evaluations": js["paths"],
        "distinct_nontrivial": js["distinct_normal_forms"],
        "rule": "every path made of up to %d components from {., .., a, b}, relative and absolute. Checked on each: NormalizedPathBuf::new and cheap_canonicalize_path/normalize_path are idempotent; the number of leading `..` of a relative path is preserved; two paths with the same normal form have the same lexical resolution (same file). distinct_nontrivial = distinct normal forms produced." % n,
        "samples": js["samples"] or ["(none)"],
        "exhaustive": True,
    })
    run.samples = js["samples"]
    run.assumptions.append("BOUNDED: exhaustive only up to the stated number of components over a 4-symbol alphabet; symlinks, case-insensitive file systems and Windows prefixes are not exercised.")
