"""C04: compile-time evaluation agrees with run time and never crashes.

Functions under contract: ValueObj::try_{add,sub,mul,floordiv,mod,pow,gt,ge,lt,le,eq,ne,or}
(Verus, Int/Nat/Bool classes), From<i32>/From<bool> for ValueObj, Neg-style arms of
eval_unary_val; Float classes and try_div go to the Kani unit (kani.py).
"""
import os
import re

from vlib.extract import Source
from vlib.snippet import Snippet, Undecided
from vlib.verus_unit import VerusUnit
from vlib import rules

HERE = os.path.dirname(os.path.abspath(__file__))
VALUE_RS = 'crates/erg_compiler/ty/value.rs'
EVAL_RS = 'crates/erg_compiler/context/eval.rs'

SCALAR = {'i32', 'u64', 'bool'}
CLASSES = ['Int', 'Nat', 'Bool']

# variants whose payload is erased (R1) -> arms binding such a payload are R2-erased
def _binds_erased(erased_variants):
    rx = re.compile(r'\b(?:Self|ValueObj)::(%s)\s*\(\s*([^)]*)\)' % '|'.join(erased_variants))

    def pred(pat):
        for m in rx.finditer(pat):
            inner = m.group(2).strip()
            if inner not in ('_', '..'):
                return True
        return False
    return pred


# postconditions, taken from the property statement: the value assigned at compile time equals
# the value the expression has when the program runs (Python semantics); None = left to run time.
ARITH = {
    'try_add': "agrees_int(res, ival(self) + ival(other))",
    'try_sub': "agrees_int(res, ival(self) - ival(other))",
    'try_mul': "agrees_int(res, ival(self) * ival(other))",
    'try_floordiv': "res is Some ==> ival(other) != 0,\n        agrees_int(res, py_floordiv(ival(self), ival(other)))",
    'try_mod': "res is Some ==> ival(other) != 0,\n        agrees_int(res, py_mod(ival(self), ival(other)))",
    'try_pow': "res is Some ==> ival(other) >= 0,\n        ival(other) >= 0 ==> agrees_int(res, pow(ival(self), ival(other) as nat))",
}
CMP = {
    'try_gt': "agrees_bool(res, ival(self) > ival(other))",
    'try_ge': "agrees_bool(res, ival(self) >= ival(other))",
    'try_lt': "agrees_bool(res, ival(self) < ival(other))",
    'try_le': "agrees_bool(res, ival(self) <= ival(other))",
    'try_eq': "agrees_bool(res, ival(self) == ival(other))",
    'try_ne': "agrees_bool(res, ival(self) != ival(other))",
}


INT_HELPERS = {
    'checked_floordiv_i32': "ensures res matches Some(v) ==> is_floor_quot(l as int, r as int, v as int),",
    'checked_floormod_i32': "ensures res matches Some(v) ==> is_floor_rem(l as int, r as int, v as int),",
}


# what a dispatcher (try_binary: Option, eval_bin: Result) must return for integer operands, per operator
DISPATCH_POST = """(op is Add ==> agrees_int(Some(v)_, ival(self) + ival(other)))
        && (op is Sub ==> agrees_int(Some(v)_, ival(self) - ival(other)))
        && (op is Mul ==> agrees_int(Some(v)_, ival(self) * ival(other)))
        && (op is Lt ==> agrees_bool(Some(v)_, ival(self) < ival(other)))
        && (op is Gt ==> agrees_bool(Some(v)_, ival(self) > ival(other)))
        && (op is Le ==> agrees_bool(Some(v)_, ival(self) <= ival(other)))
        && (op is Ge ==> agrees_bool(Some(v)_, ival(self) >= ival(other)))
        && (op is Eq ==> agrees_bool(Some(v)_, ival(self) == ival(other)))
        && (op is Ne ==> agrees_bool(Some(v)_, ival(self) != ival(other)))"""


def common_rewrites(sn, erased_pred):
    rules.strip_vis_attrs(sn)
    rules.diagnostics(sn)
    rules.aborts(sn)
    sn.erase_arms('R2', lambda pat: erased_pred(pat) or rules.or_pattern_with_guard(pat))
    # R8-style std wrappers without a Verus spec
    sn.rw('R8', r'\.pow\(', r'.w_pow(')
    sn.rw('R8', r'\.checked_pow\(', r'.w_checked_pow(')
    sn.rw('R8', r'\b(\w+)\.checked_neg\(\)', r'w_i32_checked_neg(\1)')


def build_verus(run):
    src = Source(run.repo, VALUE_RS)
    unit = VerusUnit('C04', run.scratch)
    unit.raw_file(os.path.join(HERE, 'prelude.rs'))

    en = Snippet(src.item('enum', 'ValueObj'), 'enum ValueObj')
    variants = rules.erase_enum_payloads(en, SCALAR)
    erased = [v for (v, kind, tys) in variants if any('Opaque' in t for t in tys)]
    pred = _binds_erased(erased)
    unit.raw("verus! {\nuse OpKind::*;\n")
    unit.add(en)

    # From<i32>, From<bool>: extracted bodies, spec given through vstd's FromSpecImpl
    unit.raw("""
impl vstd::std_specs::convert::FromSpecImpl<i32> for ValueObj {
    open spec fn obeys_from_spec() -> bool { true }
    open spec fn from_spec(item: i32) -> ValueObj { if item >= 0 { ValueObj::Nat(item as u64) } else { ValueObj::Int(item) } }
}
impl vstd::std_specs::convert::FromSpecImpl<bool> for ValueObj {
    open spec fn obeys_from_spec() -> bool { true }
    open spec fn from_spec(item: bool) -> ValueObj { ValueObj::Bool(item) }
}
""")
    for ty in ('i32', 'bool'):
        f = Snippet(src.fn('from', impl=r'From<%s> for ValueObj' % ty), 'From<%s>::from' % ty)
        rules.strip_vis_attrs(f)
        f.contract("ensures ival(res) == %s, %s" % (
            "item as int" if ty == 'i32' else "(if item { 1int } else { 0int })",
            "is_intlike(res)" if ty == 'i32' else "res == ValueObj::Bool(item)"))
        unit.raw("impl From<%s> for ValueObj {\n" % ty)
        unit.add(f)
        unit.raw("}\n")

    # integer floor helpers (value.rs): verified here, used by try_floordiv / try_mod through their contract
    for hname, spec in INT_HELPERS.items():
        h = Snippet(src.fn(hname), hname)
        rules.strip_vis_attrs(h)
        h.contract(spec)
        h.body_prologue("proof { lemma_trunc_i32(l as int, r as int); }")
        unit.add(h)

    unit.raw("impl ValueObj {\n")
    specs = dict(ARITH)
    specs.update(CMP)
    specs['try_or'] = "res matches Some(v) ==> (self matches ValueObj::Bool(a) && other matches ValueObj::Bool(b) && v == ValueObj::Bool(a || b))"
    n_copies = 0
    for fname, post in specs.items():
        base = Snippet(src.fn(fname, impl=r'ValueObj'), fname)
        common_rewrites(base, pred)
        for a in CLASSES:
            for b in CLASSES:
                if fname in ARITH or fname in CMP:
                    # Bool operands: Erg gives None for arithmetic; comparisons Bool x Bool only for eq/ne
                    pass
                c = base.copy('%s[%s,%s]' % (fname, a, b))
                c.rename_fn('%s__%s_%s' % (fname, a, b))
                c.contract("requires self is %s, other is %s,\n    ensures %s," % (a, b, post))
                if fname in ('try_floordiv', 'try_mod'):
                    c.body_prologue("broadcast use lemma_floor_quot_unique, lemma_floor_rem_unique, lemma_py_mod_pos;")
                unit.add(c)
                n_copies += 1
                if n_copies % 40 == 1:
                    run.sample({"function": fname, "class": [a, b], "ensures": ' '.join(post.split())})
    # general versions (same verbatim body, contract conditional on the operand classes): what the dispatchers call
    for fname, post in specs.items():
        g = Snippet(src.fn(fname, impl=r'ValueObj'), fname + ' (general)')
        common_rewrites(g, pred)
        if fname == 'try_or':
            g.contract("ensures %s," % post)
        else:
            g.contract("ensures ((self is Int || self is Nat || self is Bool) && (other is Int || other is Nat || other is Bool)) ==> (%s)," % post.replace(',\n        ', ' && '))
        if fname in ('try_floordiv', 'try_mod'):
            g.body_prologue("broadcast use lemma_floor_quot_unique, lemma_floor_rem_unique, lemma_py_mod_pos;")
        unit.add(g)
    unit.raw("""    // @verified-in: kani unit C04 (h_try_div__* harnesses): try_div produces floats, which Verus does not model; the dispatchers only need it to exist
    #[verifier::external_body]
    fn try_div(self, other: Self) -> Option<Self> { unimplemented!() }
""")
    tb = Snippet(src.fn('try_binary', impl=r'ValueObj'), 'ValueObj::try_binary')
    rules.strip_vis_attrs(tb)
    tb.contract("ensures ((self is Int || self is Nat) && (other is Int || other is Nat)) ==> (%s)," % DISPATCH_POST.replace('res matches Ok(v)', 'res matches Some(v)').replace('Some(v)_', 'res'))
    unit.add(tb)
    unit.raw("}\n")
    # eval.rs: eval_unary_val (unary +, -, not on constants)
    esrc = Source(run.repo, EVAL_RS)
    tsrc = Source(run.repo, 'crates/erg_compiler/ty/typaram.rs')
    ok = Snippet(tsrc.item('enum', 'OpKind'), 'enum OpKind')
    rules.erase_enum_payloads(ok, set())
    unit.add(ok)
    u = Snippet(esrc.fn('eval_unary_val', impl=r'Context'), 'eval_unary_val')
    rules.strip_vis_attrs(u)
    _eval_errors(u)
    n_match = len(re.findall(r'\bmatch\b', u.text))
    for k in range(n_match):
        u.erase_arms('R2', pred, match_ordinal=k)
    u.rw('R8', r'\b(\w+)\.checked_neg\(\)', r'w_i32_checked_neg(\1)')
    u.contract("""ensures
        res matches Ok(v) ==> (
            ((op is Neg && is_intlike(val)) ==> (is_intlike(v) && ival(v) == -ival(val)))
            && ((op is Pos && is_intlike(val)) ==> v == val)
            && (((op is Not || op is Invert) && val is Bool) ==> (v is Bool && ival(v) == 1 - ival(val)))
            && (op is Neg && val is Inf ==> v is NegInf) && (op is Neg && val is NegInf ==> v is Inf)
        ),
        (val is Bool && (op is Neg || op is Pos)) ==> res is Err,""")
    eb = Snippet(esrc.fn('eval_bin', impl=r'Context'), 'Context::eval_bin')
    rules.strip_vis_attrs(eb)
    # R4: `X.ok_or_else(|| E)` is `match X { Some(v) => Ok(v), None => Err(E) }`; E is an error value (R3)
    from vlib.extract import make_mask, match_close
    while True:
        mask = make_mask(eb.text)
        m = re.search(r'(lhs\.try_\w+\(rhs\))\.ok_or_else\(', mask)
        if not m:
            break
        cp = match_close(mask, m.end() - 1)
        eb.replace_range('R4', m.start(), cp + 1, '(match %s { Some(v) => Ok(v), None => Err(ext_eval_error()) })' % eb.text[m.start(1):m.end(1)],
                         "X.ok_or_else(|| <error value>) -> match X { Some(v) => Ok(v), None => Err(ext_eval_error()) }")
    _eval_errors(eb)
    eb.erase_arms('R2', lambda pat: ' '.join(pat.split()) in ('Or | BitOr', 'And | BitAnd', 'BitXor', 'ClosedRange'))
    eb.contract("ensures ((lhs is Int || lhs is Nat) && (rhs is Int || rhs is Nat)) ==> (%s)," % DISPATCH_POST.replace('self', 'lhs').replace('other', 'rhs').replace('Some(v)_', 'ok_some(res)'))
    unit.raw("impl Context {\n")
    unit.add(u)
    unit.add(eb)
    unit.raw("}\n")
    run.sample({"function": "Context::eval_bin", "ensures": "each operator is dispatched to the try_* function computing THAT operator: for integer operands Ok(v) carries the Python value of `lhs op rhs`"})
    run.sample({"function": "Context::eval_unary_val", "ensures": "Ok(v) with op=Neg on Int/Nat => ival(v) == -ival(val); never panics"})
    unit.raw("} // verus!\n")
    return unit


def _eval_errors(sn):
    """R3 for eval.rs: error-value construction -> ext_eval_error()."""
    from vlib.extract import make_mask, match_close
    for pat, repl in ((r'\bEvalErrors::from\s*\(', 'ext_eval_error()'), (r'\bfeature_error!\s*\(', 'Err(ext_eval_error())'),
                      (r'\bunreachable_error!\s*\(', 'Err(ext_eval_error())')):
        while True:
            mask = make_mask(sn.text)
            m = re.search(pat, mask)
            if not m:
                break
            cp = match_close(mask, m.end() - 1)
            sn.replace_range('R3', m.start(), cp + 1, repl, "%s..) -> %s" % (pat, repl))


ASSUMED_FLOAT_HELPERS = [
    "checked_truediv(l, r) returns Some(l / r) (IEEE-754 binary64 quotient) when r != 0.0  (value part assumed: CBMC does not decide full-domain f64 division in budget; the None-iff-zero part is proved)",
    "float_divmod(l, r) returns CPython's float_divmod(l, r) when r != 0.0  (value part assumed, same reason; the None-iff-zero part is proved; the body is a transcription of Objects/floatobject.c)",
    "f64::powf / powi are not modelled by CBMC: try_pow Float classes are not carried",
]


def run_kani(run):
    from units.C04 import kani as k
    from units.C04 import cex
    unit, hs = k.build(run)
    if run.tier != 'thorough':
        skipped = [h for h in hs if h[1].startswith('try_mul[')]
        hs = [h for h in hs if not h[1].startswith('try_mul[')]
        run.extra["kani_harnesses_left_to_thorough_tier"] = [h[1] for h in skipped]
    res = unit.run([h[0] for h in hs], jobs=14, timeout_s=900 if run.tier == 'thorough' else 300)
    run.note_functions(unit.snippets)
    for a in ASSUMED_FLOAT_HELPERS:
        if a not in run.trusted:
            run.trusted.append(a)
    for (h, label, spec) in hs:
        r = res[h]
        key_base = label
        if r.status == 'SUCCESS':
            bad_cover = [c for c in r.covers if c[1] != 'SATISFIED']
            if bad_cover or not r.covers:
                run.undecided.append("kani %s: vacuity guard: cover not satisfied %r" % (h, bad_cover))
                continue
            if r.unwinding:
                run.undecided.append("kani %s: unexpected unwinding assertion in a loop-free harness" % h)
                continue
            run.add_obligation(key_base, 'kani', True, time_s=r.time_s, cmd=r.cmd.replace(h, '<harness>'))
            if len(run.samples) < 10 and label.endswith('Float]'):
                run.sample({"function": label, "backend": "kani (loop-free, full domain)", "ensures": spec})
        elif r.status == 'FAILURE':
            descs = sorted(set(d for (d, _) in r.failed))
            if any('R2-erased arm reached' in d or 'is not currently supported' in d or 'unsupported' in d.lower() for d in descs):
                run.undecided.append("kani %s: %s" % (h, descs[:2]))
                continue
            key = "%s|kani|%s" % (label, descs[0][:100] if descs else 'failed')
            run.add_obligation(key, 'kani', False,
                               detail={"msg": "Kani harness %s FAILED: %s" % (h, '; '.join("%s @ %s" % f for f in r.failed[:6])), "rendered": r.log_tail[-2500:]},
                               time_s=r.time_s, cmd=r.cmd.replace(h, '<harness>'))
            run.failed[-1]["cex_finder"] = (lambda f, h=h, label=label: cex.find_kani(run, unit, h, label, f))
        else:
            run.undecided.append("kani %s: %s %s" % (h, r.status, r.log_tail[-300:].replace('\n', ' ') if r.status == 'ERROR' else ''))


def run(run, replay=None):
    from units.C04 import cex as _cex
    run.fallbacks.append(("ValueObj::try_* (boundary grid)", lambda: _cex.fallback(run)))
    unit = build_verus(run)
    res = unit.run(rlimit=30)
    from units.C04 import cex
    run.add_verus(unit, res, cex_finder=lambda f: cex.find(run, f))
    run_kani(run)
