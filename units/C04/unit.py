"""C04: compile-time evaluation agrees with run time and never crashes.

Functions under contract: ValueObj::try_{add,sub,mul,floordiv,mod,pow,gt,ge,lt,le,eq,ne,or}
(Verus, Int/Nat/Bool classes), From<i32>/From<bool> for ValueObj, Neg-style arms of
eval_unary_val; Float classes and try_div go to the Kani unit (kani.py).
"""
import os
import re

from vlib.extract import Source
from vlib.snippet import Snippet, Undecided
from vlib.verus_unit import VerusUnit
from vlib import rules

HERE = os.path.dirname(os.path.abspath(__file__))
VALUE_RS = 'crates/erg_compiler/ty/value.rs'
EVAL_RS = 'crates/erg_compiler/context/eval.rs'

SCALAR = {'i32', 'u64', 'bool'}
CLASSES = ['Int', 'Nat', 'Bool']

# variants whose payload is erased (R1) -> arms binding such a payload are R2-erased
def _binds_erased(erased_variants):
    rx = re.compile(r'\b(?:Self|ValueObj)::(%s)\s*\(\s*([^)]*)\)' % '|'.join(erased_variants))

    def pred(pat):
        for m in rx.finditer(pat):
            inner = m.group(2).strip()
            if inner not in ('_', '..'):
                return True
        return False
    return pred


# postconditions, taken from the property statement: the value assigned at compile time equals
# the value the expression has when the program runs (Python semantics); None = left to run time.
ARITH = {
    'try_add': "agrees_int(res, ival(self) + ival(other))",
    'try_sub': "agrees_int(res, ival(self) - ival(other))",
    'try_mul': "agrees_int(res, ival(self) * ival(other))",
    'try_floordiv': "res is Some ==> ival(other) != 0,\n        agrees_int(res, py_floordiv(ival(self), ival(other)))",
    'try_mod': "res is Some ==> ival(other) != 0,\n        agrees_int(res, py_mod(ival(self), ival(other)))",
    'try_pow': "res is Some ==> ival(other) >= 0,\n        ival(other) >= 0 ==> agrees_int(res, pow(ival(self), ival(other) as nat))",
}
CMP = {
    'try_gt': "agrees_bool(res, ival(self) > ival(other))",
    'try_ge': "agrees_bool(res, ival(self) >= ival(other))",
    'try_lt': "agrees_bool(res, ival(self) < ival(other))",
    'try_le': "agrees_bool(res, ival(self) <= ival(other))",
    'try_eq': "agrees_bool(res, ival(self) == ival(other))",
    'try_ne': "agrees_bool(res, ival(self) != ival(other))",
}


def common_rewrites(sn, erased_pred):
    rules.strip_vis_attrs(sn)
    rules.diagnostics(sn)
    rules.aborts(sn)
    sn.erase_arms('R2', lambda pat: erased_pred(pat) or rules.or_pattern_with_guard(pat))
    # R8-style std wrappers without a Verus spec
    sn.rw('R8', r'\.pow\(', r'.w_pow(')
    sn.rw('R8', r'\.checked_pow\(', r'.w_checked_pow(')
    sn.rw('R8', r'\b(\w+)\.checked_neg\(\)', r'w_i32_checked_neg(\1)')


def build_verus(run):
    src = Source(run.repo, VALUE_RS)
    unit = VerusUnit('C04', run.scratch)
    unit.raw_file(os.path.join(HERE, 'prelude.rs'))

    en = Snippet(src.item('enum', 'ValueObj'), 'enum ValueObj')
    variants = rules.erase_enum_payloads(en, SCALAR)
    erased = [v for (v, kind, tys) in variants if any('Opaque' in t for t in tys)]
    pred = _binds_erased(erased)
    unit.raw("verus! {\n")
    unit.add(en)

    # From<i32>, From<bool>: extracted bodies, spec given through vstd's FromSpecImpl
    unit.raw("""
impl vstd::std_specs::convert::FromSpecImpl<i32> for ValueObj {
    open spec fn obeys_from_spec() -> bool { true }
    open spec fn from_spec(item: i32) -> ValueObj { if item >= 0 { ValueObj::Nat(item as u64) } else { ValueObj::Int(item) } }
}
impl vstd::std_specs::convert::FromSpecImpl<bool> for ValueObj {
    open spec fn obeys_from_spec() -> bool { true }
    open spec fn from_spec(item: bool) -> ValueObj { ValueObj::Bool(item) }
}
""")
    for ty in ('i32', 'bool'):
        f = Snippet(src.fn('from', impl=r'From<%s> for ValueObj' % ty), 'From<%s>::from' % ty)
        rules.strip_vis_attrs(f)
        f.contract("ensures ival(res) == %s, %s" % (
            "item as int" if ty == 'i32' else "(if item { 1int } else { 0int })",
            "is_intlike(res)" if ty == 'i32' else "res == ValueObj::Bool(item)"))
        unit.raw("impl From<%s> for ValueObj {\n" % ty)
        unit.add(f)
        unit.raw("}\n")

    unit.raw("impl ValueObj {\n")
    specs = dict(ARITH)
    specs.update(CMP)
    specs['try_or'] = "res matches Some(v) ==> (self matches ValueObj::Bool(a) && other matches ValueObj::Bool(b) && v == ValueObj::Bool(a || b))"
    n_copies = 0
    for fname, post in specs.items():
        base = Snippet(src.fn(fname, impl=r'ValueObj'), fname)
        common_rewrites(base, pred)
        for a in CLASSES:
            for b in CLASSES:
                if fname in ARITH or fname in CMP:
                    # Bool operands: Erg gives None for arithmetic; comparisons Bool x Bool only for eq/ne
                    pass
                c = base.copy('%s[%s,%s]' % (fname, a, b))
                c.rename_fn('%s__%s_%s' % (fname, a, b))
                c.contract("requires self is %s, other is %s,\n    ensures %s," % (a, b, post))
                unit.add(c)
                n_copies += 1
                if n_copies % 40 == 1:
                    run.sample({"function": fname, "class": [a, b], "ensures": ' '.join(post.split())})
    unit.raw("}\n")
    unit.raw("} // verus!\n")
    return unit


def run(run, replay=None):
    unit = build_verus(run)
    res = unit.run(rlimit=30)
    from units.C04 import cex
    run.add_verus(unit, res, cex_finder=lambda f: cex.find(run, f))
