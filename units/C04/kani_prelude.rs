// C04 Kani prelude (hand-written): opaque payloads, erased arms, and the specification side
// (IEEE / Python float semantics) used by the generated harnesses.
use std::cmp::Ordering;
use std::ops::{Add, Deref, Div, Mul, Neg, Rem, Sub};

#[derive(Clone)]
pub struct Opaque;

/// R2: body of an erased arm. Reaching it is reported as a failed check (=> undecided), never assumed away.
fn ext_opaque_arm<T>() -> T {
    panic!("R2-erased arm reached")
}
fn ext_abort<T>() -> T {
    panic!("R6 abort reached")
}
fn ext_msg() -> String {
    String::new()
}

// ---------------------------------------------------------------- specification helpers
fn same_f64(a: f64, b: f64) -> bool {
    (a.is_nan() && b.is_nan()) || a.to_bits() == b.to_bits()
}

/// `res` agrees with the Python float value `want`: None (left to run time) or exactly that float.
fn agrees_float(res: &Option<ValueObj>, want: f64) -> bool {
    match res {
        None => true,
        Some(ValueObj::Float(f)) => same_f64(**f, want),
        Some(_) => false,
    }
}
fn agrees_bool(res: &Option<ValueObj>, want: bool) -> bool {
    match res {
        None => true,
        Some(ValueObj::Bool(b)) => *b == want,
        Some(_) => false,
    }
}
/// Python raises (ZeroDivisionError): the compiler must not assign a value.
fn must_be_none(res: &Option<ValueObj>) -> bool {
    res.is_none()
}

/// Exact comparison of a float with a natural number, as Python does it (no rounding of the integer).
/// None = unordered (NaN).
fn exact_cmp_f64_u64(a: f64, n: u64) -> Option<Ordering> {
    if a.is_nan() {
        return None;
    }
    if a < 0.0 {
        return Some(Ordering::Less);
    }
    if a >= 18446744073709551616.0 {
        return Some(Ordering::Greater);
    }
    let t = a as u64; // a in [0, 2^64): truncation is exact
    let frac_nonzero = (t as f64) != a; // t as f64 is exact because t came from a float's integer part
    if t < n {
        Some(Ordering::Less)
    } else if t > n {
        Some(Ordering::Greater)
    } else if frac_nonzero {
        Some(Ordering::Greater)
    } else {
        Some(Ordering::Equal)
    }
}
fn cmp_holds(op: u8, o: Option<Ordering>) -> bool {
    // op: 0 gt, 1 ge, 2 lt, 3 le, 4 eq, 5 ne
    match (op, o) {
        (5, None) => true,
        (_, None) => false,
        (0, Some(o)) => o == Ordering::Greater,
        (1, Some(o)) => o != Ordering::Less,
        (2, Some(o)) => o == Ordering::Less,
        (3, Some(o)) => o != Ordering::Greater,
        (4, Some(o)) => o == Ordering::Equal,
        (5, Some(o)) => o != Ordering::Equal,
        _ => false,
    }
}
fn flip(o: Option<Ordering>) -> Option<Ordering> {
    o.map(|o| o.reverse())
}

/// CPython's float_divmod (Objects/floatobject.c), transcribed; caller guarantees wx != 0.
fn py_float_divmod(vx: f64, wx: f64) -> (f64, f64) {
    let mut md = vx % wx; // fmod
    let mut div = (vx - md) / wx;
    if md != 0.0 {
        if (wx < 0.0) != (md < 0.0) {
            md += wx;
            div -= 1.0;
        }
    } else {
        md = 0.0f64.copysign(wx);
    }
    let floordiv;
    if div != 0.0 {
        let mut f = div.floor();
        if div - f > 0.5 {
            f += 1.0;
        }
        floordiv = f;
    } else {
        floordiv = 0.0f64.copysign(vx / wx);
    }
    (floordiv, md)
}
