"""C04 Kani unit: Float classes of try_* and all numeric classes of try_div (loop-free, full domain)."""
import os
import re

from vlib.extract import Source
from vlib.snippet import Snippet
from vlib.kani_unit import KaniUnit
from vlib import rules

HERE = os.path.dirname(os.path.abspath(__file__))
VALUE_RS = 'crates/erg_compiler/ty/value.rs'

KEEP = {'i32', 'u64', 'bool', 'Float'}
TY = {'Int': 'i32', 'Nat': 'u64', 'Float': 'f64', 'Bool': 'bool'}

FUNCS = ['try_add', 'try_sub', 'try_mul', 'try_div', 'try_floordiv', 'try_mod',
         'try_gt', 'try_ge', 'try_lt', 'try_le', 'try_eq', 'try_ne']
CMP_CODE = {'try_gt': 0, 'try_ge': 1, 'try_lt': 2, 'try_le': 3, 'try_eq': 4, 'try_ne': 5}
CMP_RUST = {'try_gt': '>', 'try_ge': '>=', 'try_lt': '<', 'try_le': '<=', 'try_eq': '==', 'try_ne': '!='}
ARITH_RUST = {'try_add': '+', 'try_sub': '-', 'try_mul': '*', 'try_div': '/'}
HELPERS = ['checked_floordiv_i32', 'checked_floormod_i32', 'float_divmod', 'checked_truediv', 'nat_to_f64_exact']
EXACT = "9007199254740992u64"  # 2^53


HELPER_HARNESSES = """
    static mut REC_L: f64 = 0.0;
    static mut REC_R: f64 = 0.0;
    static mut REC_OUT0: f64 = 0.0;
    static mut REC_OUT1: f64 = 0.0;
    static mut REC_CALLS: u32 = 0;
    fn stub_checked_truediv(l: f64, r: f64) -> Option<f64> {
        unsafe {
            REC_L = l; REC_R = r; REC_CALLS += 1;
            if r == 0.0 { None } else { let o: f64 = kani::any(); REC_OUT0 = o; Some(o) }
        }
    }
    fn stub_float_divmod(l: f64, r: f64) -> Option<(f64, f64)> {
        unsafe {
            REC_L = l; REC_R = r; REC_CALLS += 1;
            if r == 0.0 { None } else { let o0: f64 = kani::any(); let o1: f64 = kani::any(); REC_OUT0 = o0; REC_OUT1 = o1; Some((o0, o1)) }
        }
    }
    #[kani::proof]
    fn h_checked_truediv() {
        let l: f64 = kani::any();
        let r: f64 = kani::any();
        let res = checked_truediv(l, r);
        kani::cover!(res.is_some(), "some result reachable");
        // the value part (Some(l / r), IEEE-754) is not asserted: CBMC does not decide a second full-domain
        // f64 division within budget; it is listed as an assumed contract of the 5-line helper.
        assert!((r == 0.0) == res.is_none(), "postcondition checked_truediv: None iff zero divisor");
    }
    #[kani::proof]
    fn h_float_divmod_zero() {
        let l: f64 = kani::any();
        let r: f64 = kani::any();
        let res = float_divmod(l, r);
        kani::cover!(res.is_some(), "some result reachable");
        assert!((r == 0.0) == res.is_none(), "postcondition float_divmod: None iff zero divisor");
    }
    #[kani::proof]
    fn h_nat_to_f64_exact() {
        let n: u64 = kani::any();
        let res = nat_to_f64_exact(n);
        kani::cover!(res.is_some(), "some result reachable");
        if let Some(f) = res {
            assert!(f >= 0.0 && f <= 18446744073709549568.0 && (f as u64) == n && f == (n as f64), "postcondition nat_to_f64_exact: exact");
        }
    }
"""


def classes_for(fname):
    num = ['Int', 'Nat', 'Float']
    pairs = []
    for a in num:
        for b in num:
            if fname == 'try_div' or 'Float' in (a, b):
                pairs.append((a, b))
    return pairs


def mk(cls, var):
    if cls == 'Float':
        return "ValueObj::Float(Float(%s))" % var
    return "ValueObj::%s(%s)" % (cls, var)


def as_f64(cls, var):
    return var if cls == 'Float' else "(%s as f64)" % var


def harness(fname, a, b):
    name = "h_%s__%s_%s" % (fname, a, b)
    lines = ["    #[kani::proof]", "    fn %s() {" % name,
             "        let a: %s = kani::any();" % TY[a], "        let b: %s = kani::any();" % TY[b]]
    pre = []
    fa, fb = as_f64(a, 'a'), as_f64(b, 'b')
    if fname in ('try_add', 'try_sub', 'try_mul'):
        # Python converts the int operand to float (round to nearest, as `as f64`) and applies the IEEE operation
        post = "agrees_float(&res, %s %s %s)" % (fa, ARITH_RUST[fname], fb)
        spec = "res is None or the IEEE-754 %s of the operands converted to float" % ARITH_RUST[fname]
    elif fname in ('try_div', 'try_floordiv', 'try_mod'):
        # modular: the float helper is replaced by a recording stub that obeys the helper's contract shape
        # (None iff divisor is zero, otherwise an arbitrary float); the arm must hand it exactly the operands
        # converted as Python converts them and return exactly the helper's answer.
        if fname == 'try_div':
            if a == 'Nat' and b != 'Float':
                pre.append("a <= %s" % EXACT)
            if b == 'Nat' and a != 'Float':
                pre.append("b <= %s" % EXACT)
            helper, out = 'checked_truediv', 'REC_OUT0'
        else:
            helper, out = 'float_divmod', ('REC_OUT0' if fname == 'try_floordiv' else 'REC_OUT1')
        stub = "    #[kani::stub(%s, stub_%s)]" % (helper, helper)
        lines.insert(1, stub)
        post = ("match &res { None => true, Some(ValueObj::Float(f)) => unsafe { REC_CALLS == 1 && same_f64(REC_L, %s) && same_f64(REC_R, %s) && same_f64(**f, %s) }, Some(_) => false }"
                % (fa, fb, out))
        spec = "res is None or exactly %s(lhs as float, rhs as float) (helper used by contract; zero divisor => helper returns None)" % helper
        if fname == 'try_div' and pre:
            spec += " [int/int with Nat operands restricted to <= 2^53]"
    else:
        code = CMP_CODE[fname]
        if a == 'Float' and b == 'Nat':
            post = "agrees_bool(&res, cmp_holds(%d, exact_cmp_f64_u64(a, b)))" % code
        elif a == 'Nat' and b == 'Float':
            post = "agrees_bool(&res, cmp_holds(%d, flip(exact_cmp_f64_u64(b, a))))" % code
        else:
            post = "agrees_bool(&res, %s %s %s)" % (fa, CMP_RUST[fname], fb)
        spec = "res is None or the exact (Python) comparison of the two numbers"
    for p in pre:
        lines.append("        kani::assume(%s);" % p)
    lines.append("        let res = %s.%s(%s);" % (mk(a, 'a'), fname, mk(b, 'b')))
    lines.append("        kani::cover!(res.is_some(), \"some result reachable\");")
    lines.append("        assert!(%s, \"postcondition %s[%s,%s]\");" % (post, fname, a, b))
    lines.append("    }")
    return name, '\n'.join(lines) + '\n', spec


def build(run):
    src = Source(run.repo, VALUE_RS)
    unit = KaniUnit('C04', run.scratch)
    unit.raw(open(os.path.join(HERE, 'kani_prelude.rs')).read())
    fl = Snippet(src.item('struct', 'Float', with_attrs=True), 'struct Float')
    unit.add(fl)
    for tr in ('Deref', 'Neg', 'Add', 'Sub', 'Mul', 'Div', 'Rem'):
        unit.add(Snippet(src.impl_block(r'%s for Float' % tr), 'impl %s for Float' % tr))
    en = Snippet(src.item('enum', 'ValueObj'), 'enum ValueObj')
    variants = rules.erase_enum_payloads(en, KEEP, derives='#[derive(Clone)]\n')
    erased = [v for (v, kind, tys) in variants if any('Opaque' in t for t in tys)]
    rx = re.compile(r'\b(?:Self|ValueObj)::(%s)\s*\(\s*([^)]*)\)' % '|'.join(erased))

    def pred(pat):
        if rules.or_pattern_with_guard(pat):
            return True
        for m in rx.finditer(pat):
            if m.group(2).strip() not in ('_', '..'):
                return True
        return False
    unit.add(en)
    for ty in ('i32', 'f64', 'bool'):
        unit.add(Snippet(src.impl_block(r'From<%s> for ValueObj' % ty), 'impl From<%s> for ValueObj' % ty))
    for h in HELPERS:
        unit.add(Snippet(src.fn(h), h))
    unit.raw("impl ValueObj {\n")
    for fname in FUNCS:
        f = Snippet(src.fn(fname, impl=r'ValueObj'), fname)
        rules.diagnostics(f)
        rules.aborts(f)
        f.erase_arms('R2', pred)
        unit.add(f)
    unit.raw("}\n")
    hs = []
    unit.harness(HELPER_HARNESSES)
    hs.append(("h_checked_truediv", "checked_truediv", "None iff divisor == 0.0"))
    hs.append(("h_float_divmod_zero", "float_divmod", "None iff divisor == 0.0"))
    hs.append(("h_nat_to_f64_exact", "nat_to_f64_exact", "Some(f) only if f represents n exactly"))
    for fname in FUNCS:
        for (a, b) in classes_for(fname):
            name, text, spec = harness(fname, a, b)
            unit.harness(text)
            hs.append((name, "%s[%s,%s]" % (fname, a, b), spec))
    return unit, hs
