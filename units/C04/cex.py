"""Counterexample search + replay for C04 (Verus gives no model).

For a failed obligation `fn[ClassA,ClassB]|kind|expr` the REAL function in $ERG_REPO is run
(replay/src/c04.rs, catch_unwind) on a grid of boundary operands of the two classes and the
result is compared with the independent Python big-int / float oracle below. The first
disagreement (wrong value or panic) is the failing input recorded in the replay file.
"""
import math
import re
import struct

from vlib import replay

I32 = [0, 1, -1, 2, -2, 3, -3, 7, -7, 10, -10, 46341, -46341, 65536, -65536, 2**31 - 1, -2**31, -2**31 + 1, 2**30, 12345, -99999]
U64 = [0, 1, 2, 3, 7, 10, 31, 32, 33, 63, 64, 65, 2**16, 2**31 - 1, 2**31, 2**31 + 5, 2**32, 2**32 + 1, 5 * 10**9, 2**53, 2**53 + 1, 2**63 - 1, 2**63, 2**64 - 1]
F64 = [0.0, -0.0, 1.0, -1.0, 0.1, 1.5, -1.5, 2.0, -7.0, 7.0, 0.5, 1e308, -1e308, 5e-324, float('inf'), float('-inf'), float('nan'), 2.0**53, 3.0]
BOOL = [False, True]


def fbits(x):
    return "0x%016x" % struct.unpack('<Q', struct.pack('<d', x))[0]


def enc(kind, v):
    if kind == 'Int':
        return "Int:%d" % v
    if kind == 'Nat':
        return "Nat:%d" % v
    if kind == 'Bool':
        return "Bool:%s" % ("true" if v else "false")
    return "Float:%s" % fbits(v)


def dec(s):
    k, v = s.split(':', 1)
    if k == 'Int' or k == 'Nat':
        return k, int(v)
    if k == 'Bool':
        return k, v == 'true'
    if k == 'Float':
        return k, struct.unpack('<d', struct.pack('<Q', int(v, 16)))[0]
    return k, v


GRID = {'Int': I32, 'Nat': U64, 'Bool': BOOL, 'Float': F64}

PYOPS = {
    'try_add': lambda a, b: a + b, 'try_sub': lambda a, b: a - b, 'try_mul': lambda a, b: a * b,
    'try_div': lambda a, b: a / b, 'try_floordiv': lambda a, b: a // b, 'try_mod': lambda a, b: a % b,
    'try_pow': lambda a, b: a ** b,
    'try_gt': lambda a, b: a > b, 'try_ge': lambda a, b: a >= b, 'try_lt': lambda a, b: a < b,
    'try_le': lambda a, b: a <= b, 'try_eq': lambda a, b: a == b, 'try_ne': lambda a, b: a != b,
    'try_or': lambda a, b: a or b,
}


def oracle(op, a, b):
    """Python's value, or ('raises', ExcName)."""
    try:
        if op == 'try_pow' and isinstance(b, int) and not isinstance(b, bool) and abs(b) > 4096 and isinstance(a, int) and abs(a) > 1:
            return ('big', None)
        return ('value', PYOPS[op](a, b))
    except Exception as e:  # ZeroDivisionError, OverflowError ...
        return ('raises', type(e).__name__)


def same(kind, val, want):
    if isinstance(want, bool):
        return kind == 'Bool' and val == want
    if isinstance(want, float):
        if kind != 'Float':
            return False
        if math.isnan(want):
            return math.isnan(val)
        return struct.pack('<d', val) == struct.pack('<d', want)
    if isinstance(want, int):
        return kind in ('Int', 'Nat') and val == want
    return False


HELPER_USERS = {
    # a failed obligation of a helper is searched through the public function that uses it
    'checked_floordiv_i32': [('try_floordiv', 'Int', 'Int'), ('try_floordiv', 'Int', 'Nat'), ('try_floordiv', 'Nat', 'Int')],
    'checked_floormod_i32': [('try_mod', 'Int', 'Int'), ('try_mod', 'Int', 'Nat'), ('try_mod', 'Nat', 'Int')],
    'From<i32>::from': [('try_mul', 'Int', 'Int'), ('try_add', 'Int', 'Nat')],
}


def find(run, failure):
    key = failure["key"]
    for helper, users in HELPER_USERS.items():
        if key.startswith(helper + '|'):
            for (op, ca, cb) in users:
                g = find(run, {"key": "%s[%s,%s]" % (op, ca, cb)})
                if g.get("found"):
                    g["how"] += " (helper %s exercised through ValueObj::%s)" % (helper, op)
                    return g
            return {"found": False, "note": "no disagreement through the public users of " + helper}
    m = re.match(r'(\w+)\[(\w+),(\w+)\]', failure["key"])
    if not m:
        return {"found": False, "note": "obligation is not a class copy of a try_* function"}
    op, ca, cb = m.group(1), m.group(2), m.group(3)
    if op not in PYOPS:
        return {"found": False, "note": "no oracle for " + op}
    binary = replay.build(run, 'c04')
    cases = [(a, b) for a in GRID[ca] for b in GRID[cb]]
    lines = ["%s %s %s" % (op, enc(ca, a), enc(cb, b)) for (a, b) in cases]
    outs = replay.run_lines(binary, lines)
    if len(outs) != len(cases):
        return {"found": False, "note": "replay produced %d lines for %d cases" % (len(outs), len(cases))}
    for (a, b), out in zip(cases, outs):
        tag, want = oracle(op, a, b)
        bad = None
        if out.startswith('PANIC'):
            bad = "real code panics: " + out
        elif out == 'None':
            continue  # left to run time: always allowed
        elif tag == 'big':
            continue
        else:
            k, v = dec(out[5:-1])
            if tag == 'raises':
                bad = "real code yields %s but Python raises %s" % (out, want)
            elif not same(k, v, want):
                bad = "real code yields %s but Python gives %r" % (out, want)
        if bad:
            return {"found": True, "how": "boundary-grid search on the real function (Verus gives no model); %d operand pairs tried" % len(cases),
                    "input": {"function": "ValueObj::" + op, "lhs": enc(ca, a), "rhs": enc(cb, b)},
                    "real_result": out, "python_oracle": repr(want) if tag == 'value' else "raises " + str(want),
                    "verdict": bad, "replay_cmd": "echo '%s %s %s' | %s" % (op, enc(ca, a), enc(cb, b), binary)}
    return {"found": False, "note": "no disagreement on %d boundary operand pairs" % len(cases)}


def _decode(ty, entry):
    bs = bytes(int(x) for x in entry["bytes"].split(',') if x.strip())
    if ty == 'i32':
        return struct.unpack('<i', bs[:4])[0]
    if ty == 'u64':
        return struct.unpack('<Q', bs[:8])[0]
    if ty == 'f64':
        return struct.unpack('<d', bs[:8])[0]
    if ty == 'bool':
        return bs[0] != 0
    return None


def find_kani(run, unit, harness, label, failure):
    """Re-run the failed harness with concrete playback, decode Kani's counterexample and replay it on
    the REAL function; fall back to the boundary grid if Kani prints no values."""
    m = re.match(r'(\w+)\[(\w+),(\w+)\]', label)
    if not m:
        return {"found": False, "note": "helper harness: no operand decoding", "kani": failure["detail"].get("msg")}
    op, ca, cb = m.groups()
    ty = {'Int': 'i32', 'Nat': 'u64', 'Float': 'f64', 'Bool': 'bool'}
    r = unit.run_one(harness, timeout_s=600, playback=True)
    vals = (r.cex or {}).get("playback_values_in_order_of_kani_any_calls") or []
    if len(vals) >= 2:
        a = _decode(ty[ca], vals[0])
        b = _decode(ty[cb], vals[1])
        binary = replay.build(run, 'c04')
        line = "%s %s %s" % (op, enc(ca, a), enc(cb, b))
        out = replay.run_lines(binary, [line])
        tag, want = oracle(op, a, b)
        real = out[0] if out else '?'
        bad = None
        if real.startswith('PANIC'):
            bad = "real code panics: " + real
        elif real != 'None' and tag == 'raises':
            bad = "real code yields %s but Python raises %s" % (real, want)
        elif real != 'None' and tag == 'value':
            k, v = dec(real[5:-1])
            if not same(k, v, want):
                bad = "real code yields %s but Python gives %r" % (real, want)
        if bad:
            return {"found": True, "how": "Kani counterexample (concrete playback) replayed on the real function",
                    "input": {"function": "ValueObj::" + op, "lhs": enc(ca, a), "rhs": enc(cb, b), "lhs_value": repr(a), "rhs_value": repr(b)},
                    "real_result": real, "python_oracle": repr(want) if tag == 'value' else "raises " + str(want),
                    "verdict": bad, "replay_cmd": "echo '%s' | %s" % (line, binary)}
    g = find(run, {"key": label})
    if g.get("found"):
        return g
    return {"found": False, "note": "Kani counterexample did not reproduce a disagreement with the Python oracle on the real function (values: %r); grid search: %s" % (vals[:2], g.get("note"))}


def fallback(run):
    """bounded search over every operator and operand class on the real functions (used when the unit is undecided).
    Float ** is excluded: not carried by this check (f64::powf is outside both verifiers; see DESIGN.md)."""
    for op in PYOPS:
        if op == 'try_or':
            continue
        for a in ('Int', 'Nat', 'Float'):
            for b in ('Int', 'Nat', 'Float'):
                if op == 'try_pow' and 'Float' in (a, b):
                    continue
                g = find(run, {"key": "%s[%s,%s]" % (op, a, b)})
                if g.get("found"):
                    return g
    return {"found": False, "note": "no disagreement with the Python oracle on the boundary grid of every operator/class"}
