def find(run, failure):
    return {"found": False, "note": "no counterexample search implemented yet"}
