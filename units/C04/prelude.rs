// C04 prelude (hand-written, reviewed): specification of Python integer semantics and
// stubs for what the extracted text calls but the unit does not contain.
use vstd::prelude::*;
use vstd::arithmetic::power::pow;

verus! {

// @trusted: R1 opaque payload type; verified functions never inspect it
#[verifier::external_body]
pub struct Opaque { _p: core::marker::PhantomData<()> }

// @trusted: R2 erased arm body: result unspecified (over-approximation, nothing assumed)
#[verifier::external_body]
fn ext_opaque_arm<T>() -> T { unimplemented!() }

// @trusted: R6 diverging call (panic!/unreachable!/todo!); `requires false` makes reaching it an obligation
#[verifier::external_body]
fn ext_abort<T>() -> T
    requires false
{ unimplemented!() }

// `!=` on ValueObj appears only in the guard of try_sub's Inf arm, which no Int/Nat/Bool class
// input can reach; result left unspecified.
impl PartialEq for ValueObj {
    // @trusted: ValueObj::eq result unspecified (only used in a guard unreachable for the verified classes)
    #[verifier::external_body]
    fn eq(&self, other: &Self) -> bool { unimplemented!() }
}

// ---- specification: value of an integer-like constant, Python operators ----------------
pub open spec fn is_intlike(v: ValueObj) -> bool { v is Int || v is Nat }

pub open spec fn ival(v: ValueObj) -> int {
    match v {
        ValueObj::Int(i) => i as int,
        ValueObj::Nat(n) => n as int,
        ValueObj::Bool(b) => if b { 1int } else { 0int },
        _ => 0int,
    }
}

/// Python `a // b` for b != 0: floor of the exact quotient.
pub open spec fn py_floordiv(a: int, b: int) -> int
    recommends b != 0
{
    // Verus `/` and `%` on int are Euclidean (remainder >= 0).
    if b > 0 { a / b } else { (-a) / (-b) }
}

/// Python `a % b` for b != 0: result has the sign of b.
pub open spec fn py_mod(a: int, b: int) -> int
    recommends b != 0
{
    a - b * py_floordiv(a, b)
}

/// result `res` of an arithmetic try_* agrees with the Python value `want`:
/// None ("left to run time") is always allowed; Some must carry exactly `want`.
pub open spec fn agrees_int(res: Option<ValueObj>, want: int) -> bool {
    res matches Some(v) ==> (is_intlike(v) && ival(v) == want)
}

pub open spec fn agrees_bool(res: Option<ValueObj>, want: bool) -> bool {
    res matches Some(v) ==> v == ValueObj::Bool(want)
}

// sanity lemmas: the spec functions really are Python's floor division / modulo
proof fn lemma_py_floordiv_examples()
    ensures
        py_floordiv(-7, 2) == -4, py_floordiv(7, -2) == -4, py_floordiv(-7, -2) == 3, py_floordiv(7, 2) == 3,
        py_mod(-7, 2) == 1, py_mod(7, -2) == -1, py_mod(-7, -2) == -1, py_mod(7, 2) == 1,
        py_floordiv(-6, 3) == -2, py_mod(-6, 3) == 0,
{ }

proof fn lemma_py_floor_characterisation(a: int, b: int)
    requires b != 0
    ensures
        a == b * py_floordiv(a, b) + py_mod(a, b),
        b > 0 ==> 0 <= py_mod(a, b) < b,
        b < 0 ==> b < py_mod(a, b) <= 0,
{
    if b > 0 {
        vstd::arithmetic::div_mod::lemma_fundamental_div_mod(a, b);
        vstd::arithmetic::div_mod::lemma_mod_bound(a, b);
    } else {
        vstd::arithmetic::div_mod::lemma_fundamental_div_mod(-a, -b);
        vstd::arithmetic::div_mod::lemma_mod_bound(-a, -b);
        assert(b * ((-a) / (-b)) == -((-b) * ((-a) / (-b)))) by (nonlinear_arith);
    }
}

// ---- std wrappers (R8-style): integer power ------------------------------------------
// `x.pow(e)` / `x.checked_pow(e)` are rewritten to `x.w_pow(e)` / `x.w_checked_pow(e)`;
// the bodies are the std calls, the contracts are std's documented behaviour
// (pow: panics on overflow in debug builds -> precondition; checked_pow: None iff overflow).
pub trait WPow: Sized {
    spec fn as_int(self) -> int;
    spec fn fits(v: int) -> bool;
    fn w_pow(self, e: u32) -> (r: Self)
        requires Self::fits(pow(self.as_int(), e as nat))
        ensures r.as_int() == pow(self.as_int(), e as nat);
    fn w_checked_pow(self, e: u32) -> (r: Option<Self>)
        ensures r matches Some(v) ==> v.as_int() == pow(self.as_int(), e as nat),
                r is None ==> !Self::fits(pow(self.as_int(), e as nat));
}
impl WPow for i32 {
    open spec fn as_int(self) -> int { self as int }
    open spec fn fits(v: int) -> bool { i32::MIN <= v <= i32::MAX }
    // @trusted: i32::pow std contract
    #[verifier::external_body]
    fn w_pow(self, e: u32) -> (r: Self) { self.pow(e) }
    // @trusted: i32::checked_pow std contract
    #[verifier::external_body]
    fn w_checked_pow(self, e: u32) -> (r: Option<Self>) { self.checked_pow(e) }
}
impl WPow for u64 {
    open spec fn as_int(self) -> int { self as int }
    open spec fn fits(v: int) -> bool { 0 <= v <= u64::MAX }
    // @trusted: u64::pow std contract
    #[verifier::external_body]
    fn w_pow(self, e: u32) -> (r: Self) { self.pow(e) }
    // @trusted: u64::checked_pow std contract
    #[verifier::external_body]
    fn w_checked_pow(self, e: u32) -> (r: Option<Self>) { self.checked_pow(e) }
}

// @trusted: i32::checked_neg std contract
#[verifier::external_body]
fn w_i32_checked_neg(b: i32) -> (r: Option<i32>)
    ensures r matches Some(v) ==> v == -(b as int),
            r is None ==> b == i32::MIN
{ b.checked_neg() }

} // verus!
