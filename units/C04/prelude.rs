// C04 prelude (hand-written, reviewed): specification of Python integer semantics and
// stubs for what the extracted text calls but the unit does not contain.
use vstd::prelude::*;
use vstd::arithmetic::power::pow;
use vstd::arithmetic::div_mod::*;

verus! {

// @trusted: R1 opaque payload type; verified functions never inspect it
#[verifier::external_body]
pub struct Opaque { _p: core::marker::PhantomData<()> }

// @trusted: R2 erased arm body: result unspecified (over-approximation, nothing assumed)
#[verifier::external_body]
fn ext_opaque_arm<T>() -> T { unimplemented!() }

// @trusted: R6 diverging call (panic!/unreachable!/todo!); `requires false` makes reaching it an obligation
#[verifier::external_body]
fn ext_abort<T>() -> T
    requires false
{ unimplemented!() }

// `!=` on ValueObj appears only in the guard of try_sub's Inf arm, which no Int/Nat/Bool class
// input can reach; result left unspecified.
impl PartialEq for ValueObj {
    // @trusted: ValueObj::eq result unspecified (only used in a guard unreachable for the verified classes)
    #[verifier::external_body]
    fn eq(&self, other: &Self) -> bool { unimplemented!() }
}

// ---- eval.rs context stubs (R1/R3): the evaluator context and its error values are opaque ----
pub struct Context { pub _p: Opaque }
// @trusted: R3 diagnostics: error values are opaque (message text is not part of any contract)
#[verifier::external_body]
pub struct EvalErrors { _p: core::marker::PhantomData<()> }
pub type EvalResult<T> = Result<T, EvalErrors>;
// @trusted: R3 construction of an error value (EvalError::unreachable / feature_error!): result unspecified
#[verifier::external_body]
fn ext_eval_error() -> EvalErrors { unimplemented!() }

// ---- specification: value of an integer-like constant, Python operators ----------------
pub open spec fn is_intlike(v: ValueObj) -> bool { v is Int || v is Nat }

pub open spec fn ival(v: ValueObj) -> int {
    match v {
        ValueObj::Int(i) => i as int,
        ValueObj::Nat(n) => n as int,
        ValueObj::Bool(b) => if b { 1int } else { 0int },
        _ => 0int,
    }
}

/// Python `a // b` for b != 0: floor of the exact quotient.
pub open spec fn py_floordiv(a: int, b: int) -> int
    recommends b != 0
{
    // Verus `/` and `%` on int are Euclidean (remainder >= 0).
    if b > 0 { a / b } else { (-a) / (-b) }
}

/// Python `a % b` for b != 0: result has the sign of b.
pub open spec fn py_mod(a: int, b: int) -> int
    recommends b != 0
{
    a - b * py_floordiv(a, b)
}

/// result `res` of an arithmetic try_* agrees with the Python value `want`:
/// None ("left to run time") is always allowed; Some must carry exactly `want`.
pub open spec fn agrees_int(res: Option<ValueObj>, want: int) -> bool {
    res matches Some(v) ==> (is_intlike(v) && ival(v) == want)
}

pub open spec fn agrees_bool(res: Option<ValueObj>, want: bool) -> bool {
    res matches Some(v) ==> v == ValueObj::Bool(want)
}

/// view of a dispatcher's Result as the Option the try_* functions return
pub open spec fn ok_some(res: EvalResult<ValueObj>) -> Option<ValueObj> {
    match res { Ok(v) => Some(v), Err(_) => None }
}

// sanity lemmas: the spec functions really are Python's floor division / modulo
proof fn lemma_py_floordiv_examples()
    ensures
        py_floordiv(-7, 2) == -4, py_floordiv(7, -2) == -4, py_floordiv(-7, -2) == 3, py_floordiv(7, 2) == 3,
        py_mod(-7, 2) == 1, py_mod(7, -2) == -1, py_mod(-7, -2) == -1, py_mod(7, 2) == 1,
        py_floordiv(-6, 3) == -2, py_mod(-6, 3) == 0,
{ }

proof fn lemma_py_floor_characterisation(a: int, b: int)
    requires b != 0
    ensures
        a == b * py_floordiv(a, b) + py_mod(a, b),
        b > 0 ==> 0 <= py_mod(a, b) < b,
        b < 0 ==> b < py_mod(a, b) <= 0,
{
    if b > 0 {
        vstd::arithmetic::div_mod::lemma_fundamental_div_mod(a, b);
        vstd::arithmetic::div_mod::lemma_mod_bound(a, b);
    } else {
        vstd::arithmetic::div_mod::lemma_fundamental_div_mod(-a, -b);
        vstd::arithmetic::div_mod::lemma_mod_bound(-a, -b);
        assert(b * ((-a) / (-b)) == -((-b) * ((-a) / (-b)))) by (nonlinear_arith);
    }
}


pub broadcast proof fn lemma_py_mod_pos(a: int, b: int)
    ensures b > 0 ==> #[trigger] py_mod(a, b) == a % b
{
    if b > 0 { lemma_fundamental_div_mod(a, b); }
}

// ---- floor quotient / remainder: characterisation, uniqueness, and Rust's truncating / and % ----
// checked_floordiv_i32 / checked_floormod_i32 (value.rs) are verified against the characterisations
// below; lemma_floor_*_unique prove that the characterisation determines Python's // and % uniquely;
// lemma_trunc* relate vstd's specification of Rust's truncating division (rust_div / rust_rem) to it.
pub open spec fn is_floor_quot(l: int, r: int, v: int) -> bool {
    r != 0 && (r > 0 ==> 0 <= l - r * v < r) && (r < 0 ==> r < l - r * v <= 0)
}
pub open spec fn abs_int(r: int) -> int { if r >= 0 { r } else { -r } }
pub open spec fn is_floor_rem(l: int, r: int, m: int) -> bool {
    r != 0 && (r > 0 ==> 0 <= m < r) && (r < 0 ==> r < m <= 0) && (l - m) % abs_int(r) == 0
}
pub broadcast proof fn lemma_floor_quot_unique(l: int, r: int, v: int)
    ensures #[trigger] is_floor_quot(l, r, v) ==> v == py_floordiv(l, r)
{
    if is_floor_quot(l, r, v) {
        if r > 0 {
            let m = l - r * v;
            assert(l == v * r + m) by (nonlinear_arith) requires m == l - r * v;
            lemma_fundamental_div_mod_converse(l, r, v, m);
        } else {
            let m = -(l - r * v);
            assert(-l == v * (-r) + m) by (nonlinear_arith) requires m == -(l - r * v);
            lemma_fundamental_div_mod_converse(-l, -r, v, m);
        }
    }
}
pub broadcast proof fn lemma_floor_rem_unique(l: int, r: int, m: int)
    ensures #[trigger] is_floor_rem(l, r, m) ==> m == py_mod(l, r)
{
    if is_floor_rem(l, r, m) {
        let a = abs_int(r);
        let k = (l - m) / a;
        lemma_fundamental_div_mod(l - m, a);
        assert(l - m == a * k);
        let v = if r > 0 { k } else { -k };
        assert(l - m == r * v) by (nonlinear_arith) requires l - m == a * k, a == abs_int(r), v == (if r > 0 { k } else { -k }), r != 0;
        assert(is_floor_quot(l, r, v));
        lemma_floor_quot_unique(l, r, v);
    }
}

proof fn lemma_negdiv(x: int, y: int)
    requires y < 0
    ensures x % y == x % (-y), x / y == -(x / (-y))
{
    lemma_fundamental_div_mod(x, y);
    let q = -(x / y); let r = x % y;
    assert(x == q * (-y) + r) by(nonlinear_arith) requires x == y * (x / y) + x % y, q == -(x/y), r == x % y;
    lemma_fundamental_div_mod_converse(x, -y, q, r);
}
proof fn lemma_trunc(l: int, r: int)
    requires r != 0
    ensures l == r * rust_div(l, r) + rust_rem(l, r),
            -abs_int(r) < rust_rem(l, r) < abs_int(r),
            l >= 0 ==> rust_rem(l, r) >= 0,
            l <= 0 ==> rust_rem(l, r) <= 0,
            -abs_int(l) <= rust_div(l, r) <= abs_int(l),
            abs_int(r) >= 2 ==> -(abs_int(l) / 2) <= rust_div(l, r) <= abs_int(l) / 2,
{
    let a = abs_int(l);
    lemma_fundamental_div_mod(a, r);
    if r < 0 { lemma_negdiv(a, r); lemma_mod_bound(a, -r); } else { lemma_mod_bound(a, r); }
    if l == 0 { if r > 0 { lemma_small_mod(0, r as nat); } else { lemma_small_mod(0, (-r) as nat); } }
    if r < 0 { lemma_div_pos_is_pos(a, -r); lemma_div_is_ordered_by_denominator(a, 1, -r); lemma_div_basics_3(a); } else { lemma_div_pos_is_pos(a, r); lemma_div_is_ordered_by_denominator(a, 1, r); lemma_div_basics_3(a); }
    if abs_int(r) >= 2 { lemma_div_is_ordered_by_denominator(a, 2, abs_int(r)); }
    if l < 0 {
        assert(l == r * (-(a / r)) + (-(a % r))) by (nonlinear_arith) requires a == r * (a / r) + a % r, l == -a;
    }
}
proof fn lemma_trunc_i32(l: int, r: int)
    ensures r != 0 ==> ({
        let q = rust_div(l, r); let m = rust_rem(l, r);
        &&& l == r * q + m
        &&& -abs_int(r) < m < abs_int(r)
        &&& (l >= 0 ==> m >= 0) && (l <= 0 ==> m <= 0)
        &&& -abs_int(l) <= q <= abs_int(l)
        &&& (abs_int(r) >= 2 ==> -(abs_int(l) / 2) <= q <= abs_int(l) / 2)
        &&& r * (q - 1) == r * q - r
        &&& (l - m) % abs_int(r) == 0
        &&& (l - (m + r)) % abs_int(r) == 0
    })
{
    if r != 0 {
        lemma_trunc(l, r);
        let q = rust_div(l, r); let m = rust_rem(l, r);
        assert(r * (q - 1) == r * q - r) by (nonlinear_arith);
        let a = abs_int(r);
        let k = if r > 0 { q } else { -q };
        assert(l - m == a * k) by (nonlinear_arith) requires l == r * q + m, a == abs_int(r), k == (if r > 0 { q } else { -q }), r != 0;
        lemma_mod_multiples_basic(k, a);
        assert(a * k == k * a) by (nonlinear_arith);
        let k2 = if r > 0 { q - 1 } else { -q + 1 };
        assert(l - (m + r) == k2 * a) by (nonlinear_arith) requires l == r * q + m, a == abs_int(r), k2 == (if r > 0 { q - 1 } else { -q + 1 }), r != 0;
        lemma_mod_multiples_basic(k2, a);
    }
}

// ---- std wrappers (R8-style): integer power ------------------------------------------
// `x.pow(e)` / `x.checked_pow(e)` are rewritten to `x.w_pow(e)` / `x.w_checked_pow(e)`;
// the bodies are the std calls, the contracts are std's documented behaviour
// (pow: panics on overflow in debug builds -> precondition; checked_pow: None iff overflow).
pub trait WPow: Sized {
    spec fn as_int(self) -> int;
    spec fn fits(v: int) -> bool;
    fn w_pow(self, e: u32) -> (r: Self)
        requires Self::fits(pow(self.as_int(), e as nat))
        ensures r.as_int() == pow(self.as_int(), e as nat);
    fn w_checked_pow(self, e: u32) -> (r: Option<Self>)
        ensures r matches Some(v) ==> v.as_int() == pow(self.as_int(), e as nat),
                r is None ==> !Self::fits(pow(self.as_int(), e as nat));
}
impl WPow for i32 {
    open spec fn as_int(self) -> int { self as int }
    open spec fn fits(v: int) -> bool { i32::MIN <= v <= i32::MAX }
    // @trusted: i32::pow std contract
    #[verifier::external_body]
    fn w_pow(self, e: u32) -> (r: Self) { self.pow(e) }
    // @trusted: i32::checked_pow std contract
    #[verifier::external_body]
    fn w_checked_pow(self, e: u32) -> (r: Option<Self>) { self.checked_pow(e) }
}
impl WPow for u64 {
    open spec fn as_int(self) -> int { self as int }
    open spec fn fits(v: int) -> bool { 0 <= v <= u64::MAX }
    // @trusted: u64::pow std contract
    #[verifier::external_body]
    fn w_pow(self, e: u32) -> (r: Self) { self.pow(e) }
    // @trusted: u64::checked_pow std contract
    #[verifier::external_body]
    fn w_checked_pow(self, e: u32) -> (r: Option<Self>) { self.checked_pow(e) }
}

// @trusted: i32::checked_neg std contract
#[verifier::external_body]
fn w_i32_checked_neg(b: i32) -> (r: Option<i32>)
    ensures r matches Some(v) ==> v == -(b as int),
            r is None ==> b == i32::MIN
{ b.checked_neg() }

} // verus!
