"""C16: opcode and magic-number tables match each CPython version (Kani, loop-free over all u8 / u16)."""
import os
import re

from vlib.extract import Source
from vlib.snippet import Snippet, Undecided
from vlib.kani_unit import KaniUnit
from vlib import rules
from units.C16 import cpython

HOME = {'Opcode308': 8, 'Opcode309': 9, 'Opcode310': 10, 'Opcode311': 11}
SUPPORTED = [7, 8, 9, 10, 11]


def variant_names(text):
    body = text[text.index('{') + 1:]
    body = rules.strip_comments(body)
    return re.findall(r'\b([A-Za-z_][A-Za-z0-9_]*)\s*=\s*[0-9xXa-fA-F_]+', body)


def emitted_names(repo):
    """Identifiers `OpcodeNNN::NAME` / `CommonOpcode::NAME` / bare CommonOpcode variant names in codegen.rs."""
    src = Source(repo, 'crates/erg_compiler/codegen.rs')
    code = src.mask
    names = set(re.findall(r'\b(?:Opcode3\d\d|CommonOpcode)::([A-Z][A-Z0-9_]+)\b', code))
    return names, code


def build(run):
    tables, sources = cpython.load_tables()
    for v in SUPPORTED + [12]:
        if v not in tables:
            raise Undecided("no CPython 3.%d table (interpreter missing and no snapshot)" % v)
    run.extra["external_contract_sources"] = {"3.%d" % k: v for k, v in sources.items()}
    unit = KaniUnit('C16', run.scratch)
    unit.raw("use std::convert::TryFrom;\n")
    msrc = Source(run.repo, 'crates/erg_common/macros.rs')
    for mname in ('impl_display_from_debug', 'impl_u8_enum'):
        sp = msrc.macro_def(mname)
        sn = Snippet(sp, 'macro_rules! ' + mname)
        unit.raw("#[macro_export]\n")
        unit.add(sn)
    enums = {}
    for t, minor in HOME.items():
        s = Source(run.repo, 'crates/erg_common/opcode%s.rs' % t[-3:])
        sn = Snippet(s.macro_call('impl_u8_enum', t + r'\s*;'), 'impl_u8_enum!{%s}' % t)
        unit.add(sn)
        enums[t] = variant_names(sn.text)
    osrc = Source(run.repo, 'crates/erg_common/opcode.rs')
    ce = Snippet(osrc.item('enum', 'CommonOpcode', with_attrs=True), 'enum CommonOpcode')
    unit.add(ce)
    unit.raw("use CommonOpcode::*;\n")
    enums['CommonOpcode'] = variant_names(ce.text)
    unit.add(Snippet(osrc.impl_block(r'TryFrom<u8> for CommonOpcode'), 'impl TryFrom<u8> for CommonOpcode'))
    unit.add(Snippet(osrc.impl_block(r'From<CommonOpcode> for u8'), 'impl From<CommonOpcode> for u8'))
    unit.add(Snippet(osrc.impl_block(r'CommonOpcode'), 'impl CommonOpcode (take_arg, is_jump_op)'))
    # magic numbers
    psrc = Source(run.repo, 'crates/erg_common/python_util.rs')
    unit.add(Snippet(psrc.item('struct', 'PythonVersion', with_attrs=True), 'struct PythonVersion'))
    pv_new = Snippet(psrc.fn('new', impl=r'PythonVersion'), 'PythonVersion::new')
    unit.raw("impl PythonVersion {\n")
    # the associated version constants (V3_07 ...) are carried as well: the mapping functions may name them
    pv_impl = psrc.impl_block(r'PythonVersion')
    for cm in re.finditer(r'(?m)^\s*pub const (V\w+): Self = [^;]*;', pv_impl.text):
        unit.add(Snippet(psrc.item('const', cm.group(1)), 'PythonVersion::' + cm.group(1)))
    unit.add(pv_new)
    unit.raw("}\n")
    ssrc = Source(run.repo, 'crates/erg_common/serialize.rs')
    for f in ('get_magic_num_bytes', 'get_magic_num_from_bytes', 'try_get_ver_from_magic_num', 'get_ver_from_magic_num'):
        unit.add(Snippet(ssrc.fn(f), f))
    # jump target arithmetic (codeobj.rs)
    csrc = Source(run.repo, 'crates/erg_compiler/ty/codeobj.rs')
    handled = {}
    for f, t in (('jump_abs_addr_309', 'Opcode309'), ('jump_abs_addr_310', 'Opcode310'), ('jump_abs_addr_311', 'Opcode311')):
        sn = Snippet(csrc.fn(f), f)
        unit.add(sn)
        handled[t] = sorted(set(re.findall(r'\b%s::([A-Z][A-Z0-9_]+)' % t, sn.text)))

    emit, _ = emitted_names(run.repo)
    hs = []
    H = []
    # ---- opcode number tables --------------------------------------------------------------
    info_absent = {}
    for t, names in enums.items():
        versions = [HOME[t]] if t in HOME else SUPPORTED
        arms = '\n'.join("            %s::%s => %d," % (t, n, i) for i, n in enumerate(names))
        H.append("    fn name_id_%s(x: %s) -> usize {\n        match x {\n%s\n        }\n    }\n" % (t, t, arms))
        for v in versions:
            opmap = tables[v]["opmap"]
            row = [opmap.get(n, -1) for n in names]
            absent = [n for n in names if n not in opmap]
            info_absent["%s vs 3.%d" % (t, v)] = absent
            H.append("    const PY3%d_%s: [i16; %d] = [%s];\n" % (v, t, len(row), ', '.join(str(x) for x in row)))
            hname = "h_table_%s_py3%d" % (t, v)
            H.append("""    #[kani::proof]
    fn %s() {
        let b: u8 = kani::any();
        if let Ok(x) = %s::try_from(b) {
            kani::cover!(true, "some byte decodes");
            assert!(u8::from(x) == b, "u8::from(try_from(b)) == b");
            let want = PY3%d_%s[name_id_%s(x)];
            assert!(want == -1 || want == b as i16, "opcode number equals CPython 3.%d dis.opmap[name]");
        }
    }
""" % (hname, t, v, t, t, v))
            hs.append((hname, "%s numbers vs CPython 3.%d" % (t, v),
                       "for every byte b: %s::try_from(b) == Ok(x) ==> u8::from(x) == b and (name(x) in dis.opmap ==> dis.opmap[name(x)] == b)" % t))
    run.extra["variants_absent_from_interpreter(not obligations)"] = info_absent
    # ---- jump classification on the emit set ------------------------------------------------
    for v in SUPPORTED:
        opmap = tables[v]["opmap"]
        jumps = set(tables[v]["hasjrel"]) | set(tables[v]["hasjabs"])
        em = sorted(set(opmap[n] for n in emit if n in opmap))
        H.append("    const EMIT_3%d: [bool; 256] = [%s];\n" % (v, ', '.join('true' if i in em else 'false' for i in range(256))))
        H.append("    const JUMP_3%d: [bool; 256] = [%s];\n" % (v, ', '.join('true' if i in jumps else 'false' for i in range(256))))
        hname = "h_is_jump_op_py3%d" % v
        H.append("""    #[kani::proof]
    fn %s() {
        let b: u8 = kani::any();
        if EMIT_3%d[b as usize] {
            kani::cover!(JUMP_3%d[b as usize], "an emitted jump opcode exists");
            assert!(CommonOpcode::is_jump_op(b) == JUMP_3%d[b as usize], "is_jump_op agrees with dis.hasjrel/hasjabs of CPython 3.%d on every opcode codegen.rs names");
        }
    }
""" % (hname, v, v, v, v))
        hs.append((hname, "is_jump_op vs CPython 3.%d" % v,
                   "for every byte b that is the 3.%d number of an opcode named in codegen.rs (%d opcodes): is_jump_op(b) <=> b in hasjrel+hasjabs" % (v, len(em))))
    # ---- jump target arithmetic --------------------------------------------------------------
    for f, t, v, scale in (('jump_abs_addr_309', 'Opcode309', 9, 1), ('jump_abs_addr_310', 'Opcode310', 10, 2), ('jump_abs_addr_311', 'Opcode311', 11, 2)):
        opmap = tables[v]["opmap"]
        hj = [n for n in handled[t] if n in opmap]
        rel = set(tables[v]["hasjrel"])
        arms = []
        for n in hj:
            num = opmap[n]
            if num in rel:
                if 'BACKWARD' in n:
                    arms.append("            %d => (idx + 2).wrapping_sub(arg * %d)," % (num, scale))
                else:
                    arms.append("            %d => idx + 2 + arg * %d," % (num, scale))
            else:
                arms.append("            %d => arg * %d," % (num, scale))
        nums = ' || '.join("b == %d" % opmap[n] for n in hj)
        hname = "h_%s" % f
        H.append("""    #[kani::proof]
    fn %s() {
        let b: u8 = kani::any();
        let idx: usize = kani::any();
        let arg: usize = kani::any();
        kani::assume(idx <= 0xFFFF_FFFF && arg <= 0xFFFF_FFFF && idx %% 2 == 0);
        kani::assume(%s);
        let want: usize = match b {
%s
            _ => unreachable!(),
        };
        // a backward jump never leaves the code object: CPython guarantees arg*scale <= idx + 2
        kani::assume(want <= 0x3_FFFF_FFFF);
        let op = %s::try_from(b).unwrap();
        kani::cover!(true, "a handled jump opcode exists");
        assert!(%s(op, idx, arg) == want, "jump target formula of CPython 3.%d");
    }
""" % (hname, nums, '\n'.join(arms), t, f, v))
        hs.append((hname, "%s vs CPython 3.%d" % (f, v),
                   "for the jump opcodes the function handles (%s): target == CPython's (relative: idx+2+arg*%d, absolute: arg*%d, backward: idx+2-arg*%d)" % (', '.join(hj), scale, scale, scale)))
    # ---- magic numbers -------------------------------------------------------------------------
    H.append("""    #[kani::proof]
    fn h_magic_roundtrip() {
        let m: u16 = kani::any();
        let bytes = get_magic_num_bytes(m as u32);
        kani::cover!(true, "reachable");
        assert!(bytes[2] == 0x0d && bytes[3] == 0x0a, "magic bytes 2..4 are CR LF");
        assert!(bytes[0] as u16 | ((bytes[1] as u16) << 8) == m, "magic bytes 0..2 are the number, little endian");
        assert!(get_magic_num_from_bytes(&bytes) == m as u32, "get_magic_num_from_bytes inverts get_magic_num_bytes");
    }
""")
    hs.append(("h_magic_roundtrip", "magic number bytes", "for every u16 magic m: bytes == [m lo, m hi, 0x0d, 0x0a] and from_bytes(bytes) == m"))
    checks = []
    for v in [7, 8, 9, 10, 11, 12]:
        mg = tables[v]["magic"]
        mb = tables[v]["magic_bytes"]
        checks.append("        { let pv = get_ver_from_magic_num(%d); assert!(pv.major == 3 && pv.minor == Some(%d), \"magic %d is Python 3.%d\"); "
                      "assert!(get_magic_num_bytes(%d) == [%d, %d, %d, %d], \"MAGIC_NUMBER bytes of Python 3.%d\"); }" % (mg, v, mg, v, mg, mb[0], mb[1], mb[2], mb[3], v))
    H.append("    #[kani::proof]\n    fn h_magic_versions() {\n        kani::cover!(true, \"reachable\");\n%s\n    }\n" % '\n'.join(checks))
    hs.append(("h_magic_versions", "magic -> version", "for each installed CPython 3.7..3.12: get_ver_from_magic_num(MAGIC) == 3.x and get_magic_num_bytes(MAGIC) == importlib.util.MAGIC_NUMBER"))
    unit.harness(''.join(H))
    return unit, hs


def run(run, replay=None):
    from units.C16 import cex as _cex
    run.fallbacks.append(("opcode / magic tables", lambda: _cex.fallback(run)))
    unit, hs = build(run)
    res = unit.run([h[0] for h in hs], jobs=14, timeout_s=600)
    run.note_functions(unit.snippets)
    run.trusted.append("CPython's own tables (dis.opmap, dis.hasjrel, dis.hasjabs, importlib.util.MAGIC_NUMBER) read from the installed interpreters 3.6-3.12 at run time are the external contract")
    run.trusted.append("the 'emit set' (opcodes codegen.rs names) is computed textually from codegen.rs; version guards around each use are not analysed")
    for (h, label, spec) in hs:
        r = res[h]
        if r.status == 'SUCCESS':
            bad_cover = [c for c in r.covers if c[1] != 'SATISFIED']
            if bad_cover or not r.covers:
                run.undecided.append("kani %s: vacuity guard: cover %r" % (h, bad_cover))
                continue
            run.add_obligation(label, 'kani', True, time_s=r.time_s, cmd=r.cmd.replace(h, '<harness>'))
            run.sample({"obligation": label, "backend": "kani loop-free over the full input domain", "ensures": spec})
        elif r.status == 'FAILURE':
            descs = sorted(set(d for (d, _) in r.failed))
            key = "%s|kani|%s" % (label, descs[0][:100] if descs else 'failed')
            pb = unit.run_one(h, timeout_s=600, playback=True)
            cex = None
            vals = (pb.cex or {}).get("playback_values_in_order_of_kani_any_calls") or []
            if vals:
                cex = {"found": True, "how": "Kani concrete playback on the extracted real table/function text (the tables are data: the counterexample byte is the failing input)",
                       "input": vals[:3], "failed_checks": descs,
                       "note": "first value is the opcode byte / magic number for which the real table disagrees with CPython"}
            run.add_obligation(key, 'kani', False, detail={"msg": "Kani harness %s FAILED: %s" % (h, '; '.join("%s @ %s" % f for f in r.failed[:6])), "rendered": r.log_tail[-2500:]},
                               time_s=r.time_s, cmd=r.cmd.replace(h, '<harness>'), cex=cex)
        else:
            run.undecided.append("kani %s: %s %s" % (h, r.status, r.log_tail[-400:].replace('\n', ' ') if r.status == 'ERROR' else ''))
