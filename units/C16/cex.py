"""Fallback / replay for C16: the REAL tables (replay/src/c16.rs) against the installed interpreters' dis tables."""
import re

from vlib import replay
from units.C16 import cpython

HOME = {'308': 8, '309': 9, '310': 10, '311': 11}


def fallback(run):
    tables, _ = cpython.load_tables()
    binary = replay.build(run, 'c16')
    lines = []
    for t in HOME:
        lines += ["op %s %d" % (t, b) for b in range(256)]
    lines += ["op common %d" % b for b in range(256)]
    outs = replay.run_lines(binary, lines)
    k = 0
    for t, minor in HOME.items():
        opmap = tables[minor]["opmap"]
        for b in range(256):
            m = re.match(r'Ok\((\w+)\)', outs[k]); k += 1
            if m and m.group(1) in opmap and opmap[m.group(1)] != b:
                return _v("Opcode%s decodes byte %d as %s; CPython 3.%d numbers %s as %d" % (t, b, m.group(1), minor, m.group(1), opmap[m.group(1)]), "op %s %d" % (t, b), binary)
    for b in range(256):
        m = re.match(r'Ok\((\w+)\)', outs[k]); k += 1
        if m:
            for minor in (7, 8, 9, 10, 11):
                opmap = tables[minor]["opmap"]
                if m.group(1) in opmap and opmap[m.group(1)] != b:
                    return _v("CommonOpcode decodes byte %d as %s; CPython 3.%d numbers it %d" % (b, m.group(1), minor, opmap[m.group(1)]), "op common %d" % b, binary)
    magic = ["magic %d" % tables[v]["magic"] for v in (7, 8, 9, 10, 11, 12)]
    for v, out in zip((7, 8, 9, 10, 11, 12), replay.run_lines(binary, magic)):
        if 'minor: Some(%d)' % v not in out or 'bytes=%s' % str(tables[v]["magic_bytes"]).replace(' ', ' ') not in out.replace(', ', ', '):
            if 'minor: Some(%d)' % v not in out:
                return _v("magic %d of CPython 3.%d maps to %s" % (tables[v]["magic"], v, out), "magic %d" % tables[v]["magic"], binary)
    return {"found": False, "note": "real tables agree with the interpreters on every byte / magic number"}


def _v(msg, line, binary):
    return {"found": True, "how": "every byte of every real table compared with the installed interpreters' dis.opmap / MAGIC_NUMBER",
            "input": line, "real_result": msg, "oracle": "CPython's own table", "verdict": msg, "replay_cmd": "echo '%s' | %s" % (line, binary)}
