"""External contract for C16/C13-style tables: read from the installed CPython interpreters at run time."""
import glob
import json
import os
import subprocess

HERE = os.path.dirname(os.path.abspath(__file__))
SNAPSHOT = os.path.join(HERE, 'cpython_tables.json')
MINORS = [6, 7, 8, 9, 10, 11, 12]

CODE = r'''
import dis, json, sys, importlib.util as u
print(json.dumps({"version": list(sys.version_info[:3]), "opmap": dis.opmap, "hasjrel": sorted(dis.hasjrel),
 "hasjabs": sorted(dis.hasjabs), "magic": int.from_bytes(u.MAGIC_NUMBER[:2], "little"), "magic_bytes": list(u.MAGIC_NUMBER)}))
'''


def find_interpreter(minor):
    cands = sorted(glob.glob('/root/.pyenv/versions/3.%d.*/bin/python3.%d' % (minor, minor)))
    cands += ['/usr/bin/python3.%d' % minor, '/usr/local/bin/python3.%d' % minor]
    for c in cands:
        if os.path.exists(c):
            return c
    return None


def load_tables():
    """Returns (tables: {minor: dict}, sources: {minor: 'live <path>' | 'snapshot'})."""
    snap = {}
    if os.path.exists(SNAPSHOT):
        snap = {int(k): v for k, v in json.load(open(SNAPSHOT)).items()}
    tables, sources = {}, {}
    for minor in MINORS:
        py = find_interpreter(minor)
        got = None
        if py:
            try:
                p = subprocess.run([py, '-c', CODE], capture_output=True, text=True, timeout=60)
                if p.returncode == 0:
                    got = json.loads(p.stdout.strip().split('\n')[-1])
            except Exception:
                got = None
        if got is not None:
            tables[minor] = got
            sources[minor] = 'live ' + py
        elif minor in snap:
            tables[minor] = snap[minor]
            sources[minor] = 'snapshot (interpreter not runnable here)'
    return tables, sources


if __name__ == '__main__':
    t, s = load_tables()
    json.dump({str(k): v for k, v in t.items()}, open(SNAPSHOT, 'w'), indent=0, sort_keys=True)
    print(s)
