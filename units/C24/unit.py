"""C24 (partial): the location calculus that every diagnostic's position is built with.
Location::{concat,left_main_concat,stream,range,accessors,contains,unknown_or,is_real} (erg_common/error.rs),
trait Locational defaults (traits.rs), Token::loc (token.rs). Kani, loop-free over all u32 coordinates."""
import re

from vlib.extract import Source
from vlib.snippet import Snippet
from vlib.kani_unit import KaniUnit
from vlib import rules

ERR = 'crates/erg_common/error.rs'
TRAITS = 'crates/erg_common/traits.rs'
TOKEN = 'crates/erg_parser/token.rs'

PRELUDE = """
use std::convert::TryFrom;
#[derive(Clone, Debug, PartialEq, Eq)]
pub struct Opaque;
impl Opaque {
    /// R1: the erased token text; its byte length is unrelated to the columns (any value)
    pub fn len(&self) -> usize { kani::any() }
}
"""

HARNESS = """
    fn any_loc() -> Location {
        let k: u8 = kani::any();
        let (a, b, c, d): (u32, u32, u32, u32) = (kani::any(), kani::any(), kani::any(), kani::any());
        match k % 4 {
            0 => Location::Range { ln_begin: a, col_begin: b, ln_end: c, col_end: d },
            1 => Location::LineRange(a, c),
            2 => Location::Line(a),
            _ => Location::Unknown,
        }
    }
    /// a location that points inside a source text: lines are 1-origin and ordered, columns ordered on one line
    fn wf(l: Location) -> bool {
        match l {
            Location::Range { ln_begin, col_begin, ln_end, col_end } =>
                ln_begin >= 1 && ln_begin <= ln_end && (ln_begin != ln_end || col_begin <= col_end),
            Location::LineRange(a, b) => a >= 1 && a <= b,
            Location::Line(a) => a >= 1,
            Location::Unknown => true,
        }
    }
    fn begin(l: Location) -> Option<(u32, u32)> {
        match l {
            Location::Range { ln_begin, col_begin, .. } => Some((ln_begin, col_begin)),
            Location::LineRange(a, _) | Location::Line(a) => Some((a, 0)),
            Location::Unknown => None,
        }
    }
    fn end(l: Location) -> Option<(u32, u32)> {
        match l {
            Location::Range { ln_end, col_end, .. } => Some((ln_end, col_end)),
            Location::LineRange(_, b) | Location::Line(b) => Some((b, u32::MAX)),
            Location::Unknown => None,
        }
    }
    fn is_range(l: Location) -> bool { matches!(l, Location::Range { .. }) }

    fn concat_post(l: Location, r: Location, res: Location, left_main: bool) {
        // (1) exact result when both operands carry columns
        if let (Location::Range { ln_begin: lb, col_begin: cb, .. }, Location::Range { ln_end: le, col_end: ce, .. }) = (l, r) {
            assert!(res == Location::Range { ln_begin: lb, col_begin: cb, ln_end: le, col_end: ce }, "concat of two ranges spans from the left begin to the right end");
        }
        // (2) well-formed operands in source order give a well-formed result
        if wf(l) && wf(r) && (begin(l).is_none() || end(r).is_none() || begin(l).unwrap() <= end(r).unwrap()) {
            assert!(wf(res), "result is well-formed");
        }
        // (3) the result never invents a line: its lines come from the operands
        if let Some((bl, _)) = begin(res) {
            assert!(begin(l).map(|p| p.0) == Some(bl) || (begin(l).is_none() && end(r).map(|p| p.0) == Some(bl)) , "first line of the result is the left operand's first line (or the right operand's last line if the left is unknown)");
        }
        if let Some((el, _)) = end(res) {
            assert!(end(r).map(|p| p.0) == Some(el) || (end(r).is_none() && (begin(l).map(|p| p.0) == Some(el) || end(l).map(|p| p.0) == Some(el))), "last line of the result comes from the operands");
        }
        // (4) location information is not dropped
        if !left_main {
            assert!(res.is_unknown() == (l.is_unknown() && r.is_unknown()), "Unknown only if both operands are Unknown");
        } else {
            assert!(res.is_unknown() == (l.is_unknown() && r.is_unknown()), "Unknown only if both operands are Unknown");
            if r.is_unknown() && !l.is_unknown() { assert!(res == l, "left_main_concat keeps the left operand when the right is unknown"); }
        }
    }
    #[kani::proof]
    fn h_concat() {
        let (l, r) = (any_loc(), any_loc());
        let res = Location::concat(&l, &r);
        kani::cover!(is_range(res), "range results reachable");
        concat_post(l, r, res, false);
    }
    #[kani::proof]
    fn h_left_main_concat() {
        let (l, r) = (any_loc(), any_loc());
        let res = Location::left_main_concat(&l, &r);
        kani::cover!(is_range(res), "range results reachable");
        concat_post(l, r, res, true);
    }
    // ---- the copies of this calculus that `impl_locational!` expands to (real macro text, instantiated on pairs of locations)
    pub struct PairPlain { a: Location, b: Location }
    pub struct PairLossyBegin { a: Location, b: Location }
    pub struct PairLossyEnd { a: Location, b: Location }
    impl_locational!(PairPlain, a, b);
    impl_locational!(PairLossyBegin, lossy a, b);
    impl_locational!(PairLossyEnd, a, lossy b);
    #[kani::proof]
    fn h_macro_plain() {
        let (l, r) = (any_loc(), any_loc());
        let res = PairPlain { a: l, b: r }.loc();
        kani::cover!(is_range(res), "range results reachable");
        concat_post(l, r, res, false);
        assert!(res == Location::concat(&l, &r), "impl_locational!(T, begin, end) is Location::concat of the two fields");
    }
    #[kani::proof]
    fn h_macro_lossy_begin() {
        let (l, r) = (any_loc(), any_loc());
        let res = PairLossyBegin { a: l, b: r }.loc();
        kani::cover!(is_range(res), "range results reachable");
        if l.is_unknown() { assert!(res == r, "lossy begin: an unknown begin gives the end"); } else { concat_post(l, r, res, false); }
    }
    #[kani::proof]
    fn h_macro_lossy_end() {
        let (l, r) = (any_loc(), any_loc());
        let res = PairLossyEnd { a: l, b: r }.loc();
        kani::cover!(is_range(res), "range results reachable");
        if r.is_unknown() { assert!(res == l, "lossy end: an unknown end gives the begin"); } else { concat_post(l, r, res, false); }
    }
    #[kani::proof]
    fn h_stream() {
        let (l, m, r) = (any_loc(), any_loc(), any_loc());
        kani::cover!(true, "reachable");
        let e: [Location; 0] = [];
        assert!(Location::stream(&e) == Location::Unknown, "stream of nothing is Unknown");
        assert!(Location::stream(&[l]) == Location::concat(&l, &l), "stream of one");
        assert!(Location::stream(&[l, r]) == Location::concat(&l, &r), "stream of two");
        assert!(Location::stream(&[l, m, r]) == Location::concat(&l, &r), "stream spans first to last");
    }
    #[kani::proof]
    fn h_accessors() {
        let l = any_loc();
        kani::cover!(is_range(l), "reachable");
        assert!(l.ln_begin() == begin(l).map(|p| p.0), "ln_begin");
        assert!(l.ln_end() == end(l).map(|p| p.0), "ln_end");
        assert!(l.col_begin() == if is_range(l) { begin(l).map(|p| p.1) } else { None }, "col_begin");
        assert!(l.col_end() == if is_range(l) { end(l).map(|p| p.1) } else { None }, "col_end");
        assert!(l.is_unknown() == (l == Location::Unknown), "is_unknown");
        // trait defaults agree with the inherent accessors
        assert!(Locational::ln_begin(&l) == l.ln_begin() && Locational::ln_end(&l) == l.ln_end(), "trait ln_*");
        assert!(Locational::col_begin(&l) == l.col_begin() && Locational::col_end(&l) == l.col_end(), "trait col_*");
        assert!(Locational::loc(&l) == l, "loc of a location is itself");
        let o = any_loc();
        assert!(l.unknown_or(o) == if l == Location::Unknown { o } else { l }, "unknown_or");
        if l.is_real() { assert!(l.ln_begin().unwrap() >= 1 && l.ln_end().unwrap() >= 1, "is_real implies 1-origin lines"); }
        let (a, b, c, d): (u32, u32, u32, u32) = (kani::any(), kani::any(), kani::any(), kani::any());
        assert!(Location::range(a, b, c, d) == Location::Range { ln_begin: a, col_begin: b, ln_end: c, col_end: d }, "range");
    }
    #[kani::proof]
    fn h_contains_single_line() {
        let (ln, a, b, c, d): (u32, u32, u32, u32, u32) = (kani::any(), kani::any(), kani::any(), kani::any(), kani::any());
        let x = Location::range(ln, a, ln, b);
        let y = Location::range(ln, c, ln, d);
        kani::cover!(x.contains(y), "reachable");
        assert!(x.contains(y) == (a <= c && d <= b), "on one line, contains is interval inclusion");
    }
    #[kani::proof]
    fn h_token_loc() {
        let (lineno, cb, ce): (u32, u32, u32) = (kani::any(), kani::any(), kani::any());
        let t = Token { kind: TokenKind::Symbol, content: Opaque, lineno, col_begin: cb, col_end: ce };
        let loc = t.loc();
        kani::cover!(is_range(loc), "reachable");
        if lineno == 0 { assert!(loc == Location::Unknown, "line 0 means no position"); }
        else { assert!(loc == Location::Range { ln_begin: lineno, col_begin: cb, ln_end: lineno, col_end: ce }, "a token is located on its own line between its columns"); }
        if cb <= ce { assert!(wf(loc), "token location is well-formed when col_begin <= col_end"); }
        // the accessors of a token agree with its location (columns count characters of the source, not bytes of the content)
        assert!(Locational::col_begin(&t) == loc.col_begin() && Locational::col_end(&t) == loc.col_end(), "col_begin / col_end of a token are those of its location");
        assert!(Locational::ln_begin(&t) == loc.ln_begin() && Locational::ln_end(&t) == loc.ln_end(), "ln_begin / ln_end of a token are those of its location");
    }
"""


def build(run):
    src = Source(run.repo, ERR)
    tsrc = Source(run.repo, TRAITS)
    ksrc = Source(run.repo, TOKEN)
    unit = KaniUnit('C24', run.scratch)
    unit.raw(PRELUDE)
    loc = Snippet(src.item('enum', 'Location'), 'enum Location')
    rules.erase_enum_payloads(loc, {'u32'}, derives='#[derive(Debug, Clone, Copy, PartialEq, Eq)]\n')
    unit.add(loc)
    unit.add(Snippet(tsrc.item('trait', 'Locational'), 'trait Locational (default methods)'))
    unit.add(Snippet(src.impl_block(r'Locational for Location'), 'impl Locational for Location'))
    unit.raw("impl Location {\n")
    for f in ('concat', 'left_main_concat', 'stream', 'range', 'is_unknown', 'is_real', 'unknown_or',
              'ln_begin', 'ln_end', 'col_begin', 'col_end', 'contains'):
        unit.add(Snippet(src.fn(f, impl=r'Location'), 'Location::' + f))
    unit.raw("}\n")
    # Token (content erased: R1) and its location
    tk = Snippet(ksrc.item('enum', 'TokenKind'), 'enum TokenKind')
    rules.erase_enum_payloads(tk, set(), derives='#[derive(Debug, Clone, Copy, PartialEq, Eq)]\n')
    unit.add(tk)
    tok = Snippet(ksrc.item('struct', 'Token'), 'struct Token')
    tok.rw('R1', r'\bStr\b', 'Opaque', expect=1)
    unit.add(tok)
    # the whole impl (not only `loc`): an accessor overridden here must agree with the stored location
    unit.add(Snippet(ksrc.impl_block(r'Locational for Token'), 'impl Locational for Token'))
    # the macro that gives most AST/HIR nodes their location repeats the match of Location::concat: carried verbatim and instantiated
    unit.add(Snippet(tsrc.macro_def('impl_locational'), 'macro impl_locational! (three arms)'))
    unit.harness(HARNESS)
    hs = [("h_macro_plain", "impl_locational!(T, begin, end)", "== Location::concat(begin.loc(), end.loc()), with concat's contract"),
          ("h_macro_lossy_begin", "impl_locational!(T, lossy begin, end)", "an unknown begin gives the end; otherwise concat's contract"),
          ("h_macro_lossy_end", "impl_locational!(T, begin, lossy end)", "an unknown end gives the begin; otherwise concat's contract"),
          ("h_concat", "Location::concat", "two ranges -> exact span; wf operands in source order -> wf result; lines only from operands; Unknown iff both Unknown"),
          ("h_left_main_concat", "Location::left_main_concat", "as concat; keeps the left operand if the right is Unknown"),
          ("h_stream", "Location::stream", "stream(ls) == concat(first, last); empty -> Unknown"),
          ("h_accessors", "Location accessors / Locational defaults", "accessors return the stored coordinates; trait defaults agree; unknown_or; is_real => 1-origin"),
          ("h_contains_single_line", "Location::contains", "single-line ranges: contains <=> interval inclusion"),
          ("h_token_loc", "Token::loc", "lineno 0 -> Unknown; else Range on the token's line between its columns")]
    return unit, hs


def explore(run):
    """Bounded run-time-checked contract on the diagnostics of the REAL checker (replay/src/c24.rs): every error/warning the builder
    reports for tests/should_err, tests/should_ok, examples and units/C24/probes lies inside the source, renders without a panic, and
    a NameError highlights the name it reports. This is the half of the statement the location calculus cannot carry (which node's
    location is attached to which error)."""
    import glob
    import json
    import os
    import subprocess
    from vlib import replay as rp
    binary = rp.build(run, 'c24')
    here = os.path.dirname(os.path.abspath(__file__))
    files = sorted(glob.glob(os.path.join(run.repo, 'tests', 'should_err', '*.er')) + glob.glob(os.path.join(run.repo, 'tests', 'should_ok', '*.er'))
                   + glob.glob(os.path.join(run.repo, 'examples', '*.er')) + glob.glob(os.path.join(here, 'probes', '*.er')))
    p = subprocess.run([binary], input='\n'.join(files) + '\n', capture_output=True, text=True, timeout=1800, cwd=os.path.join(run.repo, 'tests', 'should_err'))
    fds = []
    n_diag = n_unknown = n_files = 0
    for ln in p.stdout.split('\n'):
        if not ln.startswith('{'):
            continue
        j = json.loads(ln)
        n_files += 1
        n_diag += j["diagnostics"]
        n_unknown += j["unknown_loc"]
        seen = set()
        for v in j["violations"]:
            if 'not a diagnostic defect' in v:
                continue
            key = "%s|%s" % (os.path.basename(j["file"]), re.sub(r'\d+', 'N', v)[:110])
            if key in seen:
                continue
            seen.add(key)
            fds.append({"key": key, "verdict": "%s: %s" % (os.path.basename(j["file"]), v), "input": {"file": j["file"]},
                        "how": "the real HIRBuilder on the file; every reported error/warning checked against the source text",
                        "oracle": "location inside the source (lines exist, columns within the line, begin <= end); rendering does not panic; NameError highlights the reported name",
                        "replay_cmd": "echo %s | %s" % (j["file"], binary)})
    run.extra["bounded_contract_on_diagnostics"] = {"files": n_files, "diagnostics_checked": n_diag, "diagnostics_without_location": n_unknown,
                                                    "corpus": "tests/should_err, tests/should_ok, examples, units/C24/probes"}
    return {"found": bool(fds), "findings": fds, "note": "%d files, %d diagnostics, %d findings" % (n_files, n_diag, len(fds))}


def run(run, replay=None):
    run.explorations.append(("diagnostics", lambda: explore(run)))
    unit, hs = build(run)
    res = unit.run([h[0] for h in hs], jobs=8, timeout_s=600)
    run.note_functions(unit.snippets)
    for (h, label, spec) in hs:
        r = res[h]
        if r.status == 'SUCCESS':
            bad_cover = [c for c in r.covers if c[1] != 'SATISFIED']
            if bad_cover or not r.covers:
                run.undecided.append("kani %s: vacuity guard: cover %r" % (h, bad_cover))
                continue
            run.add_obligation(label, 'kani', True, time_s=r.time_s, cmd=r.cmd.replace(h, '<harness>'))
            run.sample({"obligation": label, "backend": "kani loop-free over all u32 coordinates", "ensures": spec})
        elif r.status == 'FAILURE':
            descs = sorted(set(d for (d, _) in r.failed))
            key = "%s|kani|%s" % (label, descs[0][:100] if descs else 'failed')
            pb = unit.run_one(h, timeout_s=600, playback=True)
            vals = (pb.cex or {}).get("playback_values_in_order_of_kani_any_calls") or []
            cex = {"found": bool(vals), "how": "Kani concrete playback on the extracted real functions (pure functions of their arguments: the printed coordinates are the failing input)",
                   "input": vals[:12], "failed_checks": descs} if vals else None
            run.add_obligation(key, 'kani', False, detail={"msg": "Kani harness %s FAILED: %s" % (h, '; '.join("%s @ %s" % f for f in r.failed[:6])), "rendered": r.log_tail[-2500:]},
                               time_s=r.time_s, cmd=r.cmd.replace(h, '<harness>'), cex=cex)
        else:
            run.undecided.append("kani %s: %s %s" % (h, r.status, r.log_tail[-400:].replace('\n', ' ') if r.status == 'ERROR' else ''))
