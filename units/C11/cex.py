"""Counterexample search + replay for C11 on the REAL lexer and parser (replay/src/c11.rs). Operator expressions are generated as
structured token sequences, rendered with varied spacing, parsed by the real parser both as a definition body (try_reduce_expr) and as a
statement (try_reduce_chunk), and compared with a reference precedence-climbing parser over the table of the property statement:
member access > ** > prefix + - ~ > * / // % > + - > shifts > && > ^^ > || > ranges > comparisons > and > or; binary operators group to
the left; a minus sign directly before a numeric literal is part of the literal."""
import itertools
import random

from vlib import replay

TABLE = [  # (rank, operators) highest first; rank numbers are only compared
    (190, ['**']),
    (170, ['*', '/', '//', '%']),
    (160, ['+', '-']),
    (150, ['<<', '>>']),
    (140, ['&&']),
    (130, ['^^']),
    (120, ['||']),
    (100, ['..', '<..', '..<', '<..<']),
    (90, ['<', '>', '<=', '>=', '==', '!=', 'in', 'notin', 'contains', 'is!', 'isnot!']),
    (80, ['and']),
    (70, ['or']),
]
PREFIX_RANK = 180
PREC = {op: r for (r, ops) in TABLE for op in ops}
BINOPS = [op for (r, ops) in TABLE for op in ops]
PREFIXES = ['-', '+', '~']
TIGHT_OK = {'**', '*', '/', '//', '%', '+', '-'}   # rendered without spaces in some variants


# ---- structured expressions: seq = [operand, op, operand, op, ...]; operand = (prefix|None, primary, postfixes)
# primary = ('id', name) | ('lit', text) | ('paren', seq); postfix = ('attr', name) | ('call', name, [seq...])

def ref_tree(seq):
    """reference precedence-climbing parser -> s-expression string"""
    toks = []
    for i, x in enumerate(seq):
        if i % 2 == 1:
            toks.append(('op', x))
        else:
            pre, prim, posts = x
            merged = pre == '-' and prim[0] == 'lit'
            if pre and not merged:
                toks.append(('pre', pre))
            toks.append(('atom', (prim, posts, merged)))
    pos = [0]

    def atom(a):
        prim, posts, merged = a
        if prim[0] == 'id':
            t = prim[1]
        elif prim[0] == 'lit':
            t = ('-' if merged else '') + prim[1]
        else:
            t = ref_tree(prim[1])
        for p in posts:
            if p[0] == 'attr':
                t = "(. %s %s)" % (t, p[1])
            else:
                t = "(call %s .%s%s)" % (t, p[1], ''.join(' ' + ref_tree(a) for a in p[2]))
        return t

    def operand():
        k, v = toks[pos[0]]
        pos[0] += 1
        if k == 'pre':
            return "(pre%s %s)" % (v, expr(PREFIX_RANK))
        return atom(v)

    def expr(min_rank):
        lhs = operand()
        while pos[0] < len(toks) and toks[pos[0]][0] == 'op' and PREC[toks[pos[0]][1]] >= min_rank:
            op = toks[pos[0]][1]
            pos[0] += 1
            rhs = expr(PREC[op] + 1)
            lhs = "(%s %s %s)" % (op, lhs, rhs)
        return lhs
    t = expr(0)
    assert pos[0] == len(toks)
    return t


def render(seq, rng=None):
    out = []
    for i, x in enumerate(seq):
        if i % 2 == 1:
            nxt = seq[i + 1]
            tight = rng is not None and x in TIGHT_OK and nxt[0] is None and rng.random() < 0.3
            if tight:
                out.append(x)
            else:
                l = ' ' * (1 if rng is None or rng.random() < 0.8 else 2)
                r = ' ' * (1 if rng is None or rng.random() < 0.8 else 2)
                out.append(l + x + r)
        else:
            pre, prim, posts = x
            s = pre or ''
            if prim[0] in ('id', 'lit'):
                s += prim[1]
            else:
                s += '(' + render(prim[1], rng) + ')'
            for p in posts:
                if p[0] == 'attr':
                    s += '.' + p[1]
                else:
                    s += '.' + p[1] + '(' + ', '.join(render(a, rng) for a in p[2]) + ')'
            out.append(s)
    return ''.join(out)


def flat(ops, prefixes=None):
    names = 'abcde'
    seq = []
    for i in range(len(ops) + 1):
        pre = prefixes[i] if prefixes else None
        seq.append((pre, ('id', names[i]), []))
        if i < len(ops):
            seq.append(ops[i])
    return seq


def rand_seq(rng, depth):
    n = rng.choice([1, 2, 2, 3, 3, 4]) if depth > 0 else rng.choice([1, 2])
    seq = []
    for i in range(n):
        pre = rng.choice(PREFIXES) if rng.random() < 0.2 else None
        k = rng.random()
        if depth > 0 and k < 0.25:
            prim = ('paren', rand_seq(rng, depth - 1))
        elif k < 0.45:
            prim = ('lit', str(rng.randrange(0, 10)))
        else:
            prim = ('id', rng.choice('abcdefg'))
        posts = []
        if prim[0] != 'lit':
            while rng.random() < 0.2 and len(posts) < 2:
                if rng.random() < 0.4:
                    posts.append(('attr', rng.choice(['p', 'q'])))
                else:
                    args = [rand_seq(rng, depth - 1)] if depth > 0 and rng.random() < 0.5 else []
                    posts.append(('call', rng.choice(['m', 'n']), args))
        seq.append((pre, prim, posts))
        if i < n - 1:
            seq.append(rng.choice(BINOPS))
    return seq


def cases(tier):
    out = []
    for n in (1, 2, 3):
        for ops in itertools.product(BINOPS, repeat=n):
            if n == 3 and tier == 'quick':
                # one representative per precedence row for the outer two operators (every row triple), every operator in the middle
                reps = [ops_[0] for (_, ops_) in TABLE]
                if ops[0] not in reps or ops[2] not in reps:
                    continue
            out.append(flat(list(ops)))
    for pre in PREFIXES:
        for ops in itertools.product(BINOPS, repeat=2):
            for where in range(3):
                out.append(flat(list(ops), [pre if i == where else None for i in range(3)]))
    rng = random.Random(11)
    for i in range(3000 if tier == 'quick' else 40000):
        out.append(rand_seq(rng, 4))   # parentheses nest 4 deep: expression depth 5
    return out, rng


def find(run, failure=None, tier='quick'):
    binary = replay.build(run, 'c11', deps=('erg_common', 'erg_parser'))
    seqs, rng = cases(tier)
    texts = [render(s, None if i % 2 == 0 else rng) for i, s in enumerate(seqs)]
    outs = replay.run_lines(binary, [t.encode().hex() for t in texts])
    if len(outs) != len(texts):
        return {"found": True, "how": "generated operator expressions", "input": {"expression": texts[len(outs)] if len(outs) < len(texts) else ''},
                "real_result": "the replay process died", "oracle": "the parser does not crash", "verdict": "crash", "replay_cmd": binary}
    for s, t, o in zip(seqs, texts, outs):
        want = ref_tree(s)
        exp = "D %s|C %s" % (want, want)
        if o != exp:
            return {"found": True, "how": "all operator sequences `a op b [op c [op d]]`, every prefix operator at every operand of two-operator sequences, and random expressions (parentheses 4 deep, method calls, attribute access, literals, varied spacing), parsed by the real lexer+parser and compared with a reference precedence-climbing parser over the documented table",
                    "input": {"expression": t}, "real_result": o[:500], "oracle": "documented table, left grouping: " + want,
                    "verdict": "the tree built by the parser (D = as a definition body, C = as a statement) differs from the tree of the precedence table",
                    "replay_cmd": "echo %s | %s" % (t.encode().hex(), binary)}
    return {"found": False, "note": "%d expressions agree with the reference parser" % len(texts)}
