// ---------------------------------------------------------------------------------------------
// C11 prelude (hand-written SPECIFICATION; the executable text of the unit is extracted from /repo).
// The tree the property demands, stated without reference to the algorithm:
//   * the in-order token sequence of the tree is exactly the consumed token sequence (yield_of), and
//   * every operator node has only operators that bind at least as tightly in its left operand and only
//     strictly tighter ones in its right operand (wf): precedence order + left grouping.
// These two conditions determine the tree uniquely. `precedence()` itself is tied to the documented
// table by the Kani part of this check (units/C11/unit.py).
// ---------------------------------------------------------------------------------------------

// @trusted: R1 erased payload/field type (content: Str and other fields the fragment never inspects)
#[verifier::external_body]
pub struct Opaque { _p: core::marker::PhantomData<()> }

// @trusted: R6 diverging call (switch_unreachable!/enum_unwrap! failure, compiler_bug report): `requires false` makes reaching it an obligation
#[verifier::external_body]
fn ext_abort<T>() -> T
    requires false
{ unimplemented!() }

// @trusted: R2 arm outside the verified fragment (lambda, type ascription, member access, subscript, tuple, default parameter, pipeline, definition, call without parentheses): executions that take such an arm are NOT covered by the proof
#[verifier::external_body]
fn ext_outside_fragment()
    ensures false
{ unimplemented!() }

/// operator tree built by ONE invocation of the reduction loop; operands (whatever try_reduce_bin_lhs returns:
/// names, literals, calls, parenthesised expressions, prefix-operator expressions) are atoms here
pub enum Tree { Atom(int), Bin(Token, Box<Tree>, Box<Tree>) }

/// Option<usize> order as an integer: None is below every Some (derive(PartialOrd) on Option)
pub open spec fn pr(k: TokenKind) -> int { match prec_of(k) { Some(p) => p as int, None => -1 } }
pub open spec fn fl(f: Option<usize>) -> int { match f { Some(p) => p as int, None => -1 } }
pub open spec fn root_ge(t: Tree, p: int) -> bool { match t { Tree::Atom(_) => true, Tree::Bin(op, _, _) => pr(op.kind) >= p } }
pub open spec fn root_gt(t: Tree, p: int) -> bool { match t { Tree::Atom(_) => true, Tree::Bin(op, _, _) => pr(op.kind) > p } }
/// an operator the loop accepts under `floor` (None: every binary operator)
pub open spec fn binop_ok(t: Token, floor: Option<usize>) -> bool {
    cat_of(t.kind) == TokenCategory::BinOp && (floor is None || pr(t.kind) >= fl(floor))
}
pub open spec fn wf(t: Tree, floor: Option<usize>) -> bool
    decreases t
{
    match t {
        Tree::Atom(_) => true,
        Tree::Bin(op, l, r) => wf(*l, floor) && wf(*r, floor) && binop_ok(op, floor) && root_ge(*l, pr(op.kind)) && root_gt(*r, pr(op.kind)),
    }
}
pub uninterp spec fn atom_tokens(id: int) -> Seq<Token>;
pub open spec fn yield_of(t: Tree) -> Seq<Token>
    decreases t
{
    match t {
        Tree::Atom(id) => atom_tokens(id),
        Tree::Bin(op, l, r) => yield_of(*l) + seq![op] + yield_of(*r),
    }
}

// @trusted: crate::ast::Expr is opaque; `tree` is its decomposition into the operator nodes built here
#[verifier::external_body]
pub struct Expr { _p: core::marker::PhantomData<()> }
pub uninterp spec fn tree(e: Expr) -> Tree;
// @trusted: crate::ast::BinOp is opaque
#[verifier::external_body]
pub struct BinOp { _p: core::marker::PhantomData<()> }
pub uninterp spec fn bin_tree(e: BinOp) -> Tree;
// @trusted: crate::ast::UnaryOp is opaque
#[verifier::external_body]
pub struct UnaryOp { _p: core::marker::PhantomData<()> }
pub uninterp spec fn un_op(e: UnaryOp) -> Token;
pub uninterp spec fn un_arg(e: UnaryOp) -> Tree;

impl BinOp {
    // @trusted: ast::BinOp::new(op, lhs, rhs) stores its three arguments (struct literal in ast.rs)
    #[verifier::external_body]
    pub fn new(op: Token, lhs: Expr, rhs: Expr) -> (r: BinOp)
        ensures bin_tree(r) == Tree::Bin(op, Box::new(tree(lhs)), Box::new(tree(rhs)))
    { unimplemented!() }
}
impl UnaryOp {
    // @trusted: ast::UnaryOp::new(op, expr) stores its two arguments (struct literal in ast.rs)
    #[verifier::external_body]
    pub fn new(op: Token, expr: Expr) -> (r: UnaryOp)
        ensures un_op(r) == op, un_arg(r) == tree(expr)
    { unimplemented!() }
}
impl Expr {
    // @trusted: the enum constructor Expr::BinOp(bin) (kept under its own name so that the extracted text is unchanged)
    #[verifier::external_body]
    #[allow(non_snake_case)]
    pub fn BinOp(b: BinOp) -> (r: Expr) ensures tree(r) == bin_tree(b) { unimplemented!() }
}

pub open spec fn item_yield(x: ExprOrOp) -> Seq<Token> {
    match x { ExprOrOp::Expr(e) => yield_of(tree(e)), ExprOrOp::Op(t) => seq![t] }
}
pub open spec fn stack_yield(s: Seq<ExprOrOp>) -> Seq<Token>
    decreases s.len()
{
    if s.len() == 0 { Seq::empty() } else { stack_yield(s.drop_last()) + item_yield(s.last()) }
}
/// shape and order invariant of the operator stack: operand, operator, operand, ...; pending operators strictly
/// ascending in precedence; every operand already a well-formed tree that may stand next to its neighbours
pub open spec fn expr_ok(s: Seq<ExprOrOp>, i: int, floor: Option<usize>) -> bool {
    s[i] is Expr && wf(tree(s[i]->Expr_0), floor)
}
pub open spec fn op_ok(s: Seq<ExprOrOp>, i: int, floor: Option<usize>) -> bool {
    s[i] is Op && binop_ok(s[i]->Op_0, floor) && s[i - 1] is Expr && s[i + 1] is Expr
        && root_ge(tree(s[i - 1]->Expr_0), pr(s[i]->Op_0.kind))
        && root_gt(tree(s[i + 1]->Expr_0), pr(s[i]->Op_0.kind))
}
pub open spec fn asc_ok(s: Seq<ExprOrOp>, i: int) -> bool {
    s[i] is Op && s[i + 2] is Op && pr(s[i]->Op_0.kind) < pr(s[i + 2]->Op_0.kind)
}
pub open spec fn stack_ok(s: Seq<ExprOrOp>, floor: Option<usize>) -> bool {
    &&& s.len() % 2 == 1
    &&& forall|i: int| 0 <= i < s.len() && i % 2 == 0 ==> #[trigger] expr_ok(s, i, floor)
    &&& forall|i: int| 0 <= i < s.len() && i % 2 == 1 ==> #[trigger] op_ok(s, i, floor)
    &&& forall|i: int| 1 <= i < s.len() - 2 && i % 2 == 1 ==> #[trigger] asc_ok(s, i)
}
/// what the parser hands back: the tree of the table over exactly the consumed tokens, and it stopped only where no acceptable operator follows
pub open spec fn parsed(t: Tree, floor: Option<usize>, before: Seq<Token>, after: Seq<Token>) -> bool {
    &&& wf(t, floor)
    &&& before == yield_of(t) + after
    &&& after.len() == 0 || !binop_ok(after[0], floor)
}

/// s1 is s0 with its last operand, operator, operand replaced by the operator node over them
pub open spec fn collected(s0: Seq<ExprOrOp>, s1: Seq<ExprOrOp>) -> bool {
    let n = s0.len() as int;
    &&& n >= 3 && s0[n - 1] is Expr && s0[n - 2] is Op && s0[n - 3] is Expr
    &&& s1.len() == n - 2
    &&& s1.subrange(0, n - 3) == s0.subrange(0, n - 3)
    &&& s1[n - 3] is Expr
    &&& tree(s1[n - 3]->Expr_0) == Tree::Bin(s0[n - 2]->Op_0, Box::new(tree(s0[n - 3]->Expr_0)), Box::new(tree(s0[n - 1]->Expr_0)))
}

proof fn lemma_single(s: Seq<ExprOrOp>)
    requires s.len() == 1, s[0] is Expr
    ensures stack_yield(s) == yield_of(tree(s[0]->Expr_0))
{
    assert(s.drop_last() =~= Seq::empty());
    assert(stack_yield(s) == stack_yield(s.drop_last()) + item_yield(s.last()));
    assert(stack_yield(s) =~= yield_of(tree(s[0]->Expr_0)));
}

proof fn lemma_collected_yield(s0: Seq<ExprOrOp>, s1: Seq<ExprOrOp>)
    requires collected(s0, s1)
    ensures stack_yield(s1) == stack_yield(s0)
{
    let n = s0.len() as int;
    assert(s0.drop_last().drop_last().drop_last() == s0.subrange(0, n - 3));
    assert(s1.drop_last() == s1.subrange(0, n - 3));
    assert(s0.drop_last().last() == s0[n - 2]);
    assert(s0.drop_last().drop_last().last() == s0[n - 3]);
    assert(stack_yield(s0) == stack_yield(s0.drop_last()) + item_yield(s0[n - 1]));
    assert(stack_yield(s0.drop_last()) == stack_yield(s0.drop_last().drop_last()) + item_yield(s0[n - 2]));
    assert(stack_yield(s0.drop_last().drop_last()) == stack_yield(s0.drop_last().drop_last().drop_last()) + item_yield(s0[n - 3]));
    assert(stack_yield(s1) == stack_yield(s1.drop_last()) + item_yield(s1.last()));
    let a = stack_yield(s0.subrange(0, n - 3));
    assert(item_yield(s1.last()) == item_yield(s0[n - 3]) + item_yield(s0[n - 2]) + item_yield(s0[n - 1]));
    assert(a + (item_yield(s0[n - 3]) + item_yield(s0[n - 2]) + item_yield(s0[n - 1])) =~= ((a + item_yield(s0[n - 3])) + item_yield(s0[n - 2])) + item_yield(s0[n - 1]));
}

proof fn lemma_collected(s0: Seq<ExprOrOp>, s1: Seq<ExprOrOp>, floor: Option<usize>)
    requires collected(s0, s1), stack_ok(s0, floor)
    ensures stack_ok(s1, floor), stack_yield(s1) == stack_yield(s0),
        root_ge(tree(s1.last()->Expr_0), pr(s0[s0.len() - 2]->Op_0.kind))
{
    lemma_collected_yield(s0, s1);
    let n = s0.len() as int;
    assert forall|i: int| 0 <= i < n - 3 implies s1[i] == s0[i] by {
        assert(s1[i] == s1.subrange(0, n - 3)[i]); assert(s0[i] == s0.subrange(0, n - 3)[i]);
    }
    assert(op_ok(s0, n - 2, floor));
    assert(expr_ok(s0, n - 1, floor));
    assert(expr_ok(s0, n - 3, floor));
    assert(expr_ok(s1, n - 3, floor));
    assert forall|i: int| 0 <= i < s1.len() && i % 2 == 0 implies #[trigger] expr_ok(s1, i, floor) by {
        if i < n - 3 { assert(expr_ok(s0, i, floor)); }
    }
    assert forall|i: int| 0 <= i < s1.len() && i % 2 == 1 implies #[trigger] op_ok(s1, i, floor) by {
        assert(op_ok(s0, i, floor));
        if i + 1 < n - 3 { } else {
            assert(i == n - 4);
            assert(asc_ok(s0, i));
        }
    }
    assert forall|i: int| 1 <= i < s1.len() - 2 && i % 2 == 1 implies #[trigger] asc_ok(s1, i) by {
        assert(asc_ok(s0, i));
    }
}

proof fn lemma_pushed(s0: Seq<ExprOrOp>, s1: Seq<ExprOrOp>, floor: Option<usize>)
    requires stack_ok(s0, floor), s1.len() == s0.len() + 2, s1.subrange(0, s0.len() as int) == s0,
        s1[s0.len() as int] is Op, binop_ok(s1[s0.len() as int]->Op_0, floor),
        s1[s0.len() as int + 1] is Expr, tree(s1[s0.len() as int + 1]->Expr_0) is Atom,
        root_ge(tree(s0.last()->Expr_0), pr(s1[s0.len() as int]->Op_0.kind)),
        s0.len() == 1 || pr(s0[s0.len() - 2]->Op_0.kind) < pr(s1[s0.len() as int]->Op_0.kind),
    ensures stack_ok(s1, floor), stack_yield(s1) == stack_yield(s0) + seq![s1[s0.len() as int]->Op_0] + yield_of(tree(s1[s0.len() as int + 1]->Expr_0))
{
    let n = s0.len() as int;
    assert forall|i: int| 0 <= i < n implies s1[i] == s0[i] by { assert(s0[i] == s1.subrange(0, n)[i]); }
    assert(s1.drop_last().drop_last() =~= s0);
    assert(stack_yield(s1) == stack_yield(s1.drop_last()) + item_yield(s1.last()));
    assert(stack_yield(s1.drop_last()) == stack_yield(s1.drop_last().drop_last()) + item_yield(s1.drop_last().last()));
    assert forall|i: int| 0 <= i < s1.len() && i % 2 == 0 implies #[trigger] expr_ok(s1, i, floor) by {
        if i < n { assert(expr_ok(s0, i, floor)); }
    }
    assert forall|i: int| 0 <= i < s1.len() && i % 2 == 1 implies #[trigger] op_ok(s1, i, floor) by {
        if i < n { assert(op_ok(s0, i, floor)); } else { assert(expr_ok(s0, n - 1, floor)); assert(s1[n - 1] == s0.last()); }
    }
    assert forall|i: int| 1 <= i < s1.len() - 2 && i % 2 == 1 implies #[trigger] asc_ok(s1, i) by {
        if i + 2 < n { assert(asc_ok(s0, i)); } else { assert(op_ok(s0, i, floor)); }
    }
}

// @trusted: crate::parse::Parser is opaque; `toks` is its pending token stream (self.tokens)
#[verifier::external_body]
pub struct Parser { _p: core::marker::PhantomData<()> }
pub uninterp spec fn toks(p: Parser) -> Seq<Token>;
pub type ParseResult<T> = Result<T, ()>;

impl Parser {
    // @trusted: Parser::peek = self.tokens.front() (TokenStream is a VecDeque wrapper outside the fragment)
    #[verifier::external_body]
    fn peek(&self) -> (r: Option<&Token>)
        ensures toks(*self).len() == 0 ==> r is None, toks(*self).len() > 0 ==> r == Some(&toks(*self)[0])
    { unimplemented!() }
    // @trusted: Parser::lpop = self.tokens.pop_front().unwrap(); the precondition makes the unwrap an obligation at each call
    #[verifier::external_body]
    fn lpop(&mut self) -> (r: Token)
        requires toks(*old(self)).len() > 0
        ensures r == toks(*old(self))[0], toks(*final(self)) == toks(*old(self)).skip(1)
    { unimplemented!() }
    // @trusted: Parser::nth_is looks ahead without consuming; result unspecified (only used in guards of arms outside the fragment)
    #[verifier::external_body]
    fn nth_is(&self, idx: usize, kind: TokenKind) -> bool { unimplemented!() }
    // @trusted: Parser::try_reduce_bin_lhs (operand parser, ~400 lines, mutually recursive with the loop): consumes the tokens of one operand, which is an atom of this invocation's tree
    #[verifier::external_body]
    fn try_reduce_bin_lhs(&mut self, in_type_args: bool, in_brace: bool) -> (r: ParseResult<Expr>)
        ensures toks(*final(self)).len() <= toks(*old(self)).len(),
            r is Ok ==> tree(r->Ok_0) is Atom && toks(*old(self)) == yield_of(tree(r->Ok_0)) + toks(*final(self)),
    { unimplemented!() }
}
