"""C11, deductive part (Verus): the operator-stack reduction of the REAL parser builds the tree of `TokenKind::precedence`.
Functions under contract (extracted from crates/erg_parser/{token,parse}.rs on every run):
  TokenKind::precedence, TokenKind::category (each proved equal to a spec function generated from its own match table),
  Token::category_is, Token::is, collect_last_binop_on_stack, Parser::try_reduce_expr_above, Parser::try_reduce_expr,
  Parser::try_reduce_unary, Parser::try_reduce_chunk.
The token match of the two loops keeps its guards; the bodies of the arms outside the property (lambda, type ascription,
member access, subscript, tuple, default parameter, pipeline, definition, call without parentheses) are replaced by
ext_outside_fragment() [ensures false]: executions through them are not covered, and that is recorded as an assumption."""
import os
import re

from vlib.extract import Source, make_mask, match_close, split_match_arms, LostAnchor
from vlib.snippet import Snippet
from vlib.verus_unit import VerusUnit
from vlib import rules
from units.C14.unit import keep_struct_fields

HERE = os.path.dirname(os.path.abspath(__file__))
TOKEN_RS = 'crates/erg_parser/token.rs'
PARSE_RS = 'crates/erg_parser/parse.rs'
DERIVES = '#[derive(Clone, Copy, PartialEq, Eq, Structural)]\n'


def spec_table(sn_text, fname, spec_name, ret):
    """Spec copy of a `match self { .. }` table, generated from the extracted text (proved equal to the exec fn by its ensures).
    precedence: `let prec = match self { A => n, .., _ => return None, }; Some(prec)`  ->  `match k { A => Some(n), .., _ => None }`
    category:   `match self { A => X, .. }`                                         ->  `match k { A => X, .. }`"""
    mask = make_mask(sn_text)
    m = re.search(r'\bmatch\s+self\s*\{', mask)
    if not m:
        raise LostAnchor("%s: no `match self`" % fname)
    ob = m.end() - 1
    cb = match_close(mask, ob)
    body = sn_text[ob:cb + 1]
    arms = split_match_arms(body)
    rest_before = ' '.join(rules.strip_comments(sn_text[sn_text.index('{') + 1:m.start()]).split())
    rest_after = ' '.join(rules.strip_comments(sn_text[cb + 1:sn_text.rindex('}')]).split())
    wrapped = (rest_before, rest_after) == ('let prec =', '; Some(prec)')
    plain = (rest_before, rest_after) == ('', '')
    if not (wrapped or plain):
        raise LostAnchor("%s: unexpected shape around the table: %r / %r" % (fname, rest_before, rest_after))
    out = []
    for (ps, pe, bs, be) in arms:
        pat = ' '.join(rules.strip_comments(body[ps:pe]).split())
        val = ' '.join(rules.strip_comments(body[bs:be]).split()).rstrip(',')
        if val.startswith('{') and val.endswith('}'):
            val = val[1:-1].strip()
        if wrapped:
            if val == 'return None':
                val = 'None'
            elif re.fullmatch(r'\d+', val):
                val = 'Some(%susize)' % val
            else:
                raise LostAnchor("%s: arm value %r" % (fname, val))
        out.append("        %s => %s," % (pat, val))
    return "pub open spec fn %s(k: TokenKind) -> %s {\n    match k {\n%s\n    }\n}\n" % (spec_name, ret, '\n'.join(out))


def strip_map_err(sn):
    """R3: `.map_err(|..| { diagnostics / debug nesting level bookkeeping })?` -> `?` (error type of ParseResult is ())."""
    n = 0
    while True:
        mask = make_mask(sn.text)
        m = re.search(r'\s*\.map_err\s*\(', mask)
        if not m:
            break
        cp = match_close(mask, m.end() - 1)
        k = cp + 1
        if mask[k:k + 1] != '?':
            raise LostAnchor("%s: map_err not followed by ?" % sn.label)
        sn.replace_range('R3', m.start(), cp + 1, '', ".map_err(<error-path bookkeeping: stack_dec (debug nesting level), set_hint, errs.push>) removed before `?`")
        n += 1
    return n


def enum_unwrap_r6(sn):
    """R6: enum_unwrap!(e, Some:(ExprOrOp::X:(_))) -> its expansion `if let Some(ExprOrOp::X(res)) = e { res } else { ext_abort() }`."""
    while True:
        mask = make_mask(sn.text)
        m = re.search(r'\benum_unwrap!\s*\(', mask)
        if not m:
            break
        cp = match_close(mask, m.end() - 1)
        inner = sn.text[m.end():cp]
        mm = re.fullmatch(r'\s*(.*?),\s*Some\s*:\s*\(\s*ExprOrOp::(\w+)\s*:\s*\(\s*_\s*\)\s*\)\s*,?\s*', inner, re.S)
        if not mm:
            raise LostAnchor("%s: enum_unwrap! shape %r" % (sn.label, inner[:60]))
        new = "(if let Some(ExprOrOp::%s(res)) = %s { res } else { ext_abort() })" % (mm.group(2), mm.group(1).strip())
        sn.replace_range('R6', m.start(), cp + 1, new, "enum_unwrap!(..) -> macro expansion with switch_unreachable!() -> ext_abort() [requires false]")


def map_or_r4(sn):
    """R4: `o.map_or(d, |x| e)` -> `(match o { None => d, Some(x) => e })` (definition of Option::map_or; Verus has no closure-taking Option combinators)."""
    while True:
        mask = make_mask(sn.text)
        m = re.search(r'\b(\w+)\.map_or\(', mask)
        if not m:
            break
        cp = match_close(mask, m.end() - 1)
        inner = sn.text[m.end():cp]
        mm = re.fullmatch(r'\s*(\w+)\s*,\s*\|\s*(\w+)\s*\|\s*(.*)', inner, re.S)
        if not mm:
            raise LostAnchor("%s: map_or shape %r" % (sn.label, inner[:60]))
        new = "(match %s { None => %s, Some(%s) => %s })" % (m.group(1), mm.group(1), mm.group(2), mm.group(3).strip())
        sn.replace_range('R4', m.start(), cp + 1, new, "Option::map_or(default, closure) -> match")


KEEP_ARM = re.compile(r'category_is\(TC::BinOp\)')


def outside(pat):
    p = ' '.join(pat.split())
    return not (p == '_' or KEEP_ARM.search(p))


def tail_bug_arm(pat):
    p = ' '.join(pat.split())
    return p in ('Some(ExprOrOp::Expr(expr))', 'Some(ExprOrOp::Op(op))')


def loop_fn(src, name):
    sn = Snippet(src.fn(name, impl=r'Parser'), 'Parser::' + name)
    rules.strip_vis_attrs(sn)
    # arms outside the fragment: guard kept, body -> ext_outside_fragment()
    n = sn.erase_arms('R2', outside, stub='ext_outside_fragment()', match_ordinal=0, drop_guard=False)
    if n < 8:
        raise LostAnchor("%s: only %d arms outside the fragment" % (name, n))
    strip_map_err(sn)
    rules.diagnostics(sn)
    enum_unwrap_r6(sn)
    map_or_r4(sn)
    # tail: the arms that only report a compiler bug must be unreachable
    mask = make_mask(sn.text)
    ks = [i for i, m in enumerate(re.finditer(r'\bmatch\b', mask)) if re.match(r'match\s+stack\.pop\(\)\s*\{', mask[m.start():])]
    if len(ks) != 1:
        raise LostAnchor("%s: tail `match stack.pop()` found %d times" % (name, len(ks)))
    k = ks[0]
    if sn.erase_arms('R6', tail_bug_arm, stub='ext_abort()', match_ordinal=k, drop_guard=False) != 2:
        raise LostAnchor("%s: tail match shape" % name)
    rules.aborts(sn, extra_names=('switch_unreachable',))
    return sn


STACK_INV = """stack_ok(stack@, FLOOR),
                toks(*old(self)) == stack_yield(stack@) + toks(*self),"""


def annotate_loop(sn, floor):
    F = lambda s: s.replace('FLOOR', floor)
    # the reduction step is either written out (pop, pop, pop, BinOp::new, push) or a call of collect_last_binop_on_stack
    open_coded = re.search(r'stack\.push\(ExprOrOp::Expr\(Expr::BinOp\(bin\)\)\);', make_mask(sn.text)) is not None
    # proof text first (anchors), then loop specs by ordinal
    sn.insert_at(r'\bloop\s*\{', F("""proof { lemma_single(stack@); assert(expr_ok(stack@, 0, FLOOR)); }"""), where='before')
    sn.insert_at(r'let op_prec = op\.kind\.precedence\(\);', F("""let ghost opk = op.kind;
proof { if stack.len() >= 2 { assert(op_ok(stack@, stack.len() - 2, FLOOR)); } }"""), where='after')
    sn.insert_at(r'\bwhile let Some\(ExprOrOp::Op\(prev_op\)\)', F("""proof { assert(op_ok(stack@, stack.len() - 2, FLOOR)); }
let ghost s0 = stack@;"""), where='after')
    if open_coded:
        sn.insert_at(r'stack\.push\(ExprOrOp::Expr\(Expr::BinOp\(bin\)\)\);', F("""proof {
    assert(stack@.subrange(0, stack@.len() - 1) =~= s0.subrange(0, s0.len() - 3));
    lemma_collected(s0, stack@, FLOOR);
}"""), where='after')
    else:
        sn.insert_at(r'collect_last_binop_on_stack\(&mut stack\);', F("""proof { lemma_collected(s0, stack@, FLOOR); }"""), where='after', occurrence=0)
    # end of the reduce loop body: re-establish the shape fact for the next `stack.get(len - 2)`
    sn.insert_at(r'if stack\.len\(\) <=? \d+ \{\s*\n\s*break;\s*\n\s*\}(?!\s*else)', F("""proof { assert(op_ok(stack@, stack.len() - 2, FLOOR)); }"""), where='after', occurrence=0)
    sn.insert_at(r'stack\.push\(ExprOrOp::Op\(self\.lpop\(\)\)\);', """let ghost s1 = stack@;
let ghost t0 = toks(*self);""", where='before')
    sn.insert_at(r'stack\.push\(ExprOrOp::Op\(self\.lpop\(\)\)\);', """let ghost t1 = toks(*self);""", where='after')
    # after the operand push (the statement ends at the first `));` after the Op push)
    sn.insert_at(r'(?s)stack\.push\(ExprOrOp::Op\(self\.lpop\(\)\)\);.*?\n\s*\)\);', F("""proof {
    assert(stack@.subrange(0, s1.len() as int) =~= s1);
    lemma_pushed(s1, stack@, FLOOR);
    let y = yield_of(tree(stack@.last()->Expr_0));
    assert(t0 =~= seq![t0[0]] + t1);
    assert((stack_yield(s1) + seq![t0[0]] + y) + toks(*self) =~= stack_yield(s1) + (seq![t0[0]] + (y + toks(*self))));
}"""), where='after')
    sn.insert_at(r'\bwhile stack\.len\(\) >= 3 \{', F("""let ghost s2 = stack@;
proof { assert(op_ok(s2, s2.len() - 2, FLOOR)); }"""), where='after', occurrence=-1 if False else _last_occurrence(sn, r'\bwhile stack\.len\(\) >= 3 \{'))
    sn.insert_at(r'collect_last_binop_on_stack\(&mut stack\);', F("""proof { lemma_collected(s2, stack@, FLOOR); }"""), where='after',
                 occurrence=_last_occurrence(sn, r'collect_last_binop_on_stack\(&mut stack\);'))
    sn.insert_at(r'\bmatch stack\.pop\(\) \{', F("""proof { assert(expr_ok(stack@, 0, FLOOR)); lemma_single(stack@); }"""), where='before')
    # loops by ordinal in the rewritten text: 0 = `loop`, 1 = reduce loop (`while let`), 2 = final collapse (`while stack.len() >= 3`)
    sn.loop_spec(0, F("""invariant
                %s
                tree(stack@.last()->Expr_0) is Atom || (stack.len() == 1 && (toks(*self).len() == 0 || !binop_ok(toks(*self)[0], FLOOR))),
            ensures
                %s
                stack.len() == 1,
                toks(*self).len() == 0 || !binop_ok(toks(*self)[0], FLOOR),
            decreases toks(*self).len(), stack.len()""" % (STACK_INV, STACK_INV)))
    sn.loop_spec(1, F("""invariant_except_break
                stack.len() >= 2,
                stack@[stack.len() - 2] is Op,
            invariant
                op_prec == prec_of(opk),
                %s
                root_ge(tree(stack@.last()->Expr_0), pr(opk)),
            ensures
                %s
                root_ge(tree(stack@.last()->Expr_0), pr(opk)),
                stack.len() == 1 || pr(stack@[stack.len() - 2]->Op_0.kind) < pr(opk),
            decreases stack.len()""" % (STACK_INV, STACK_INV)))
    sn.loop_spec(2, F("""invariant
                %s
            decreases stack.len()""" % STACK_INV))


def _last_occurrence(sn, pat):
    from vlib.snippet import _mask_keep_marks
    return len(re.findall(pat, _mask_keep_marks(sn.text))) - 1


PARSED = """ensures res is Ok ==> parsed(tree(res->Ok_0), FLOOR, toks(*old(self)), toks(*final(self))),"""


def build(run):
    tsrc = Source(run.repo, TOKEN_RS)
    psrc = Source(run.repo, PARSE_RS)
    unit = VerusUnit('C11', run.scratch)
    unit.raw("#![allow(unused)]\nuse vstd::prelude::*;\nverus! {\nuse TokenKind::*;\nuse TokenCategory as TC;\n")
    for e in ('TokenKind', 'TokenCategory'):
        en = Snippet(tsrc.item('enum', e), 'enum ' + e)
        rules.erase_enum_payloads(en, set(), derives=DERIVES)
        unit.add(en)
    tok = Snippet(tsrc.item('struct', 'Token'), 'struct Token')
    keep_struct_fields(tok, {'TokenKind', 'u32'}, 'Token')
    unit.add(tok)
    unit.raw("impl TokenKind {\n")
    specs = []
    for (f, spec_name, ret) in (('precedence', 'prec_of', 'Option<usize>'), ('category', 'cat_of', 'TokenCategory')):
        sn = Snippet(tsrc.fn(f, impl=r'TokenKind'), 'TokenKind::' + f)
        rules.strip_vis_attrs(sn)
        specs.append(spec_table(sn.text, f, spec_name, ret))
        sn.contract("ensures res == %s(*self)," % spec_name)
        unit.add(sn)
    unit.raw("}\n// spec copies of the two tables, generated from the extracted text above (each exec fn is proved equal to its copy)\n" + ''.join(specs))
    unit.raw("impl Token {\n")
    for (f, spec) in (('category_is', "ensures res == (cat_of(self.kind) == category),"), ('is', "ensures res == (self.kind == kind),")):
        sn = Snippet(tsrc.fn(f, impl=r'Token'), 'Token::' + f)
        rules.strip_vis_attrs(sn)
        sn.contract(spec)
        unit.add(sn)
    unit.raw("}\n")
    eo = Snippet(psrc.item('enum', 'ExprOrOp'), 'enum ExprOrOp')
    rules.erase_enum_payloads(eo, {'Expr', 'Token'}, derives='')
    unit.add(eo)
    unit.raw_file(os.path.join(HERE, 'prelude.rs'))

    c = Snippet(psrc.fn('collect_last_binop_on_stack'), 'collect_last_binop_on_stack')
    rules.strip_vis_attrs(c)
    enum_unwrap_r6(c)
    c.contract("""requires ({ let s = old(stack)@; let n = s.len() as int; n >= 3 && s[n - 1] is Expr && s[n - 2] is Op && s[n - 3] is Expr }),
    ensures collected(old(stack)@, final(stack)@),""")
    c.insert_at(r'stack\.push\(ExprOrOp::Expr\(Expr::BinOp\(bin\)\)\);',
                "proof { assert(stack@.subrange(0, stack@.len() - 1) =~= old(stack)@.subrange(0, old(stack)@.len() - 3)); }", where='after')
    unit.add(c)

    unit.raw("impl Parser {\n")
    above = loop_fn(psrc, 'try_reduce_expr_above')
    above.contract(PARSED.replace('FLOOR', 'floor'))
    annotate_loop(above, 'floor')
    unit.add(above)

    w = Snippet(psrc.fn('try_reduce_expr', impl=r'Parser'), 'Parser::try_reduce_expr')
    rules.strip_vis_attrs(w)
    w.contract(PARSED.replace('FLOOR', 'None::<usize>'))
    unit.add(w)

    u = Snippet(psrc.fn('try_reduce_unary', impl=r'Parser'), 'Parser::try_reduce_unary')
    rules.strip_vis_attrs(u)
    strip_map_err(u)
    rules.diagnostics(u)
    u.contract("""requires toks(*old(self)).len() > 0,
    ensures res is Ok ==> ({
        let op = toks(*old(self))[0];
        &&& un_op(res->Ok_0) == op
        // the operand of a prefix operator: the tree of the table over the operators that bind at least as tightly as the prefix operator, and nothing looser is swallowed
        &&& parsed(un_arg(res->Ok_0), prec_of(op.kind), toks(*old(self)).skip(1), toks(*final(self)))
    }),""")
    unit.add(u)

    chunk = loop_fn(psrc, 'try_reduce_chunk')
    chunk.contract(PARSED.replace('FLOOR', 'None::<usize>'))
    annotate_loop(chunk, 'None::<usize>')
    unit.add(chunk)
    unit.raw("}\n} // verus!\n")
    return unit
