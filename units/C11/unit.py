"""C11: the operator precedence table (TokenKind::precedence / is_right_associative) equals the documented order.
Kani, loop-free over all pairs of token kinds (complete: finite domain)."""
import re

from vlib.extract import Source
from vlib.snippet import Snippet
from vlib.kani_unit import KaniUnit
from vlib import rules

TOKEN_RS = 'crates/erg_parser/token.rs'

# The documented table (property statement / doc/EN/API/operators.md), highest first.
GROUPS = [
    ("member access", ["Dot", "DblColon"]),
    ("**", ["Pow"]),
    ("prefix + - ~", ["PrePlus", "PreMinus", "PreBitNot"]),
    ("* / // %", ["Star", "Slash", "FloorDiv", "Mod"]),
    ("+ -", ["Plus", "Minus"]),
    ("shifts", ["Shl", "Shr"]),
    ("&&", ["BitAnd"]),
    ("^^", ["BitXor"]),
    ("||", ["BitOr"]),
    ("ranges", ["Closed", "LeftOpen", "RightOpen", "Open"]),
    ("comparisons", ["Less", "Gre", "LessEq", "GreEq", "DblEq", "NotEq", "InOp", "NotInOp", "ContainsOp", "IsOp", "IsNotOp"]),
    ("and", ["AndOp"]),
    ("or", ["OrOp"]),
]


def build(run):
    src = Source(run.repo, TOKEN_RS)
    unit = KaniUnit('C11', run.scratch)
    en = Snippet(src.item('enum', 'TokenKind'), 'enum TokenKind')
    variants = rules.erase_enum_payloads(en, set(), derives='#[derive(Debug, Clone, Copy, PartialEq, Eq)]\n#[repr(u8)]\n')
    names = [v for (v, k, t) in variants]
    unit.add(en)
    unit.raw("use TokenKind::*;\nimpl TokenKind {\n")
    for f in ('precedence', 'is_right_associative'):
        unit.add(Snippet(src.fn(f, impl=r'TokenKind'), 'TokenKind::' + f))
    unit.raw("}\n")
    kind_arms = '\n'.join("            %d => %s," % (i, n) for i, n in enumerate(names))
    grp_arms = []
    n_groups = len(GROUPS)
    for gi, (gname, members) in enumerate(GROUPS):
        grp_arms.append("            %s => Some(%d)," % (' | '.join(members), n_groups - gi))
    binary = [m for (g, ms) in GROUPS for m in ms if g != "prefix + - ~"]
    H = """
    const N_KINDS: u8 = %d;
    fn kind_of(i: u8) -> TokenKind {
        match i {
%s
            _ => unreachable!(),
        }
    }
    /// rank in the documented table (larger binds tighter); None = not an operator of the table
    fn doc_rank(k: TokenKind) -> Option<u8> {
        match k {
%s
            _ => None,
        }
    }
    fn is_binary_of_table(k: TokenKind) -> bool {
        matches!(k, %s)
    }
    #[kani::proof]
    fn h_precedence_order() {
        let i: u8 = kani::any();
        let j: u8 = kani::any();
        kani::assume(i < N_KINDS && j < N_KINDS);
        let (a, b) = (kind_of(i), kind_of(j));
        if let (Some(ra), Some(rb)) = (doc_rank(a), doc_rank(b)) {
            kani::cover!(ra > rb, "pairs of different rank exist");
            let (pa, pb) = (a.precedence(), b.precedence());
            assert!(pa.is_some() && pb.is_some(), "every operator of the table has a precedence");
            let (pa, pb) = (pa.unwrap(), pb.unwrap());
            assert!((ra > rb) == (pa > pb), "a binds tighter than b in the documented table <=> precedence(a) > precedence(b)");
            assert!((ra == rb) == (pa == pb), "same row of the table <=> same precedence");
        }
    }
    #[kani::proof]
    fn h_left_associative() {
        let i: u8 = kani::any();
        kani::assume(i < N_KINDS);
        let a = kind_of(i);
        if is_binary_of_table(a) {
            kani::cover!(true, "binary operators exist");
            assert!(!a.is_right_associative(), "binary operators of the table group to the left");
        }
    }
    #[kani::proof]
    fn h_brackets_lowest() {
        // an opening bracket on the operator stack must never be reduced by an operator: precedence 0 < every operator
        let i: u8 = kani::any();
        kani::assume(i < N_KINDS);
        let a = kind_of(i);
        if let Some(_) = doc_rank(a) {
            kani::cover!(true, "operators exist");
            let p = a.precedence().unwrap();
            assert!(LParen.precedence().unwrap() < p && LBrace.precedence().unwrap() < p && LSqBr.precedence().unwrap() < p, "brackets bind weaker than every operator");
        }
    }
""" % (len(names), kind_arms, '\n'.join(grp_arms), ' | '.join(binary))
    unit.harness(H)
    hs = [("h_precedence_order", "precedence order", "for all pairs (a, b) of table operators: rank(a) > rank(b) <=> precedence(a) > precedence(b); same row <=> equal; Some for all"),
          ("h_left_associative", "left associativity", "no binary operator of the table is right-associative"),
          ("h_brackets_lowest", "brackets lowest", "precedence of ( { [ is below every operator of the table")]
    return unit, hs


def run(run, replay=None):
    from units.C11 import vunit, cex as _cex
    tier = run.tier if hasattr(run, 'tier') else 'quick'
    run.explorations.append(("operator expressions parsed by the real parser", lambda: _cex.find(run, tier=tier)))
    vu = vunit.build(run)
    vres = vu.run(rlimit=80)
    run.add_verus(vu, vres, cex_finder=lambda f: _cex.find(run, f, tier=tier))
    run.trusted.append("C11/Verus: operands are atoms of the tree (contract of try_reduce_bin_lhs is assumed); executions through match arms outside the fragment (lambda, type ascription, member access, subscript, tuple, default parameter, pipeline, definition, call without parentheses) are not covered by the proof; the lexer's prefix/infix classification (Lexer::op_fix) is exercised only by the replay search")
    unit, hs = build(run)
    res = unit.run([h[0] for h in hs], jobs=4, timeout_s=600)
    run.note_functions(unit.snippets)
    run.trusted.append("the documented table (GROUPS in units/C11/unit.py) is transcribed from the property statement")
    for (h, label, spec) in hs:
        r = res[h]
        if r.status == 'SUCCESS':
            bad_cover = [c for c in r.covers if c[1] != 'SATISFIED']
            if bad_cover or not r.covers:
                run.undecided.append("kani %s: vacuity guard: cover %r" % (h, bad_cover))
                continue
            run.add_obligation(label, 'kani', True, time_s=r.time_s, cmd=r.cmd.replace(h, '<harness>'))
            run.sample({"obligation": label, "backend": "kani loop-free over all token kinds", "ensures": spec})
        elif r.status == 'FAILURE':
            descs = sorted(set(d for (d, _) in r.failed))
            key = "%s|kani|%s" % (label, descs[0][:100] if descs else 'failed')
            pb = unit.run_one(h, timeout_s=600, playback=True)
            vals = (pb.cex or {}).get("playback_values_in_order_of_kani_any_calls") or []
            cex = None
            if vals:
                src = Source(run.repo, TOKEN_RS)
                en = Snippet(src.item('enum', 'TokenKind'))
                names = [v for (v, k, t) in rules.parse_enum(en.text)[1]]
                try:
                    ks = [names[int(v["bytes"].split(',')[0])] for v in vals[:2]]
                except Exception:
                    ks = []
                cex = {"found": True, "how": "Kani concrete playback on the extracted real table (the table is data: the token kinds are the failing input)",
                       "input": {"token_kinds": ks}, "failed_checks": descs,
                       "replay_cmd": "grep -n 'fn precedence' -A 24 %s/%s" % (run.repo, TOKEN_RS)}
            run.add_obligation(key, 'kani', False, detail={"msg": "Kani harness %s FAILED: %s" % (h, '; '.join("%s @ %s" % f for f in r.failed[:6])), "rendered": r.log_tail[-2500:]},
                               time_s=r.time_s, cmd=r.cmd.replace(h, '<harness>'), cex=cex)
        else:
            run.undecided.append("kani %s: %s %s" % (h, r.status, r.log_tail[-400:].replace('\n', ' ') if r.status == 'ERROR' else ''))
