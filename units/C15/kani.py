"""C15 Kani unit: the writer's scalar encodings equal CPython's marshal format, reader(writer(x) ++ rest) == x,
the type-byte table, vec_to_bytes. Loop-free or bounded only by operand width (u64 has at most 5 15-bit digits)."""
import os
import re

from vlib.extract import Source
from vlib.snippet import Snippet
from vlib.kani_unit import KaniUnit
from vlib import rules

HERE = os.path.dirname(os.path.abspath(__file__))
DESER = 'crates/erg_compiler/ty/deserialize.rs'
SER = 'crates/erg_common/serialize.rs'
VALUE_RS = 'crates/erg_compiler/ty/value.rs'
PYUTIL = 'crates/erg_common/python_util.rs'

PRELUDE = """
use std::ops::Deref;
#[derive(Clone, Debug, PartialEq)]
pub struct Opaque;
pub type Str = String;
fn ext_opaque_arm<T>() -> T { panic!("R2-erased arm reached") }
fn ext_msg() -> String { String::new() }
#[derive(Debug)]
pub struct DeserializeError;
pub type DeserializeResult<T> = Result<T, DeserializeError>;
fn ext_deser_error() -> DeserializeError { DeserializeError }
pub struct Deserializer;
"""

HARNESS = r"""
    const VER: PythonVersion = PythonVersion::new(3, Some(11), Some(0));

    /// CPython marshal (Python/marshal.c, w_object / w_long / w_PyLong), scalar cases.
    fn spec_int32(i: i32) -> [u8; 5] {
        let u = i as u32;
        [b'i', (u & 0xff) as u8, ((u >> 8) & 0xff) as u8, ((u >> 16) & 0xff) as u8, (u >> 24) as u8]
    }
    fn spec_digit(n: u64, k: u32) -> u16 { ((n >> (15 * k)) & 0x7fff) as u16 }
    fn spec_ndigits(n: u64) -> usize {
        if n >> 60 != 0 { 5 } else if n >> 45 != 0 { 4 } else if n >> 30 != 0 { 3 } else if n >> 15 != 0 { 2 } else if n != 0 { 1 } else { 0 }
    }
    fn check_long(bytes: &[u8], n: u64) -> bool {
        let nd = spec_ndigits(n);
        if bytes.len() != 5 + 2 * nd || bytes[0] != b'l' { return false; }
        if bytes[1] as usize != nd || bytes[2] != 0 || bytes[3] != 0 || bytes[4] != 0 { return false; }
        let mut k = 0;
        while k < nd {
            let d = spec_digit(n, k as u32);
            if bytes[5 + 2 * k] != (d & 0xff) as u8 || bytes[6 + 2 * k] != (d >> 8) as u8 { return false; }
            k += 1;
        }
        true
    }
    fn num_eq(v: &ValueObj, want: i128) -> bool {
        match v { ValueObj::Int(i) => *i as i128 == want, ValueObj::Nat(n) => *n as i128 == want, _ => false }
    }

    #[kani::proof]
    fn h_enc_int() {
        let i: i32 = kani::any();
        let b = ValueObj::Int(i).into_bytes(VER);
        kani::cover!(i < 0, "negative ints reachable");
        assert!(b.as_slice() == spec_int32(i), "Int(i) is marshalled as 'i' + i32 little endian");
    }
    #[kani::proof]
    #[kani::unwind(7)]
    fn h_enc_nat() {
        let n: u64 = kani::any();
        let b = ValueObj::Nat(n).into_bytes(VER);
        kani::cover!(n > u32::MAX as u64, "large naturals reachable");
        if n <= i32::MAX as u64 {
            assert!(b.as_slice() == spec_int32(n as i32), "Nat below 2**31 is marshalled as 'i' + i32 little endian");
        } else {
            assert!(check_long(&b, n), "Nat of 2**31 and above is marshalled as 'l' + digit count + 15-bit digits (CPython w_PyLong)");
        }
    }
    #[kani::proof]
    fn h_enc_float() {
        let f: f64 = kani::any();
        let b = ValueObj::from(f).into_bytes(VER);
        kani::cover!(f.is_nan(), "NaN reachable");
        let bits = f.to_bits();
        assert!(b.len() == 9 && b[0] == b'g', "'g' + 8 bytes");
        let mut k = 0;
        while k < 8 { assert!(b[1 + k] == ((bits >> (8 * k)) & 0xff) as u8, "IEEE-754 bits little endian (sign of zero, NaN payload, infinities preserved)"); k += 1; }
    }
    #[kani::proof]
    fn h_enc_bool_none() {
        let t: bool = kani::any();
        kani::cover!(t, "true reachable");
        let b = ValueObj::Bool(t).into_bytes(VER);
        assert!(b.as_slice() == [if t { b'T' } else { b'F' }], "Bool is 'T' / 'F'");
        assert!(ValueObj::None.into_bytes(VER).as_slice() == [b'N'], "None is 'N'");
    }
    fn roundtrip(val: ValueObj, rest: u8) -> ValueObj {
        let mut bytes = val.into_bytes(VER);
        bytes.push(rest);
        let got = Deserializer.deserialize_const(&mut bytes, VER);
        assert!(got.is_ok(), "the reader accepts what the writer wrote");
        assert!(bytes.len() == 1 && bytes[0] == rest, "the reader consumes exactly the value and leaves the rest");
        got.unwrap()
    }
    #[kani::proof]
    fn h_roundtrip_int() {
        let i: i32 = kani::any();
        let got = roundtrip(ValueObj::Int(i), kani::any());
        kani::cover!(i < 0, "negative reachable");
        assert!(matches!(got, ValueObj::Int(j) if j == i), "Int read back with the same value");
    }
@@DEC_LONG@@
    #[kani::proof]
    fn h_roundtrip_float() {
        let f: f64 = kani::any();
        let got = roundtrip(ValueObj::from(f), kani::any());
        kani::cover!(f.is_nan(), "NaN reachable");
        assert!(matches!(got, ValueObj::Float(g) if (*g).to_bits() == f.to_bits()), "Float read back bit for bit");
    }
    #[kani::proof]
    fn h_roundtrip_bool_none() {
        let t: bool = kani::any();
        kani::cover!(t, "true reachable");
        assert!(matches!(roundtrip(ValueObj::Bool(t), kani::any()), ValueObj::Bool(u) if u == t), "Bool read back");
        assert!(matches!(roundtrip(ValueObj::None, kani::any()), ValueObj::None), "None read back");
    }
    #[kani::proof]
    fn h_prefix_table() {
        use DataTypePrefix::*;
        kani::cover!(true, "reachable");
        // every type byte the writer emits is recognised by the reader as the same type
        let emitted = [Int32, Long, BinFloat, True, False, None, Str, ShortAscii, ShortAsciiInterned, Unicode, SmallTuple, Tuple, Code];
        let mut k = 0;
        while k < emitted.len() { assert!(DataTypePrefix::from(emitted[k] as u8) == emitted[k], "DataTypePrefix::from inverts `as u8` on emitted type bytes"); k += 1; }
        let b: u8 = kani::any();
        let p = DataTypePrefix::from(b);
        // and no byte is mistaken for an emitted type it is not (modulo marshal's FLAG_REF bit 0x80)
        assert!(p == Illegal || (p as u8) & 0x7f == b & 0x7f, "a recognised byte is the type's byte, with or without FLAG_REF");
    }
    #[kani::proof]
    #[kani::unwind(12)]
    fn h_vec_to_bytes() {
        let n: usize = kani::any();
        kani::assume(n <= 10);
        let mut v = Vec::new();
        let mut k = 0;
        while k < n { v.push(kani::any::<u8>()); k += 1; }
        let w = v.clone();
        let a2 = Deserializer::vec_to_bytes::<2>(v.clone());
        let a4 = Deserializer::vec_to_bytes::<4>(v.clone());
        let a8 = Deserializer::vec_to_bytes::<8>(v);
        kani::cover!(n >= 8, "long vectors reachable");
        let mut i = 0;
        while i < 8 {
            if i < n {
                if i < 2 { assert!(a2[i] == w[i], "vec_to_bytes copies the first LEN bytes"); }
                if i < 4 { assert!(a4[i] == w[i], "vec_to_bytes copies the first LEN bytes"); }
                assert!(a8[i] == w[i], "vec_to_bytes copies the first LEN bytes");
            }
            i += 1;
        }
    }
    #[kani::proof]
    fn h_raw_string() {
        let (x, y): (u8, u8) = (kani::any(), kani::any());
        kani::cover!(true, "reachable");
        let b = raw_string_into_bytes(vec![x, y]);
        assert!(b.as_slice() == [b's', 2, 0, 0, 0, x, y], "bytes object: 's', length u32 little endian, payload");
    }
"""


def dec_long_harness(k):
    """reader side of the Nat round trip for a long of exactly k digits (concrete k => concrete loop counts)."""
    decl = '\n'.join("        let d%d: u16 = kani::any(); kani::assume(d%d < 0x8000);" % (i, i) for i in range(k))
    top = ("        kani::assume(d%d != 0);" % (k - 1)) if k > 0 else ""
    val = ' | '.join("((d%d as u128) << %d)" % (i, 15 * i) for i in range(k)) or "0u128"
    elems = ', '.join(["b'l'", "%d" % k, "0", "0", "0"] + ["(d%d & 0xff) as u8, (d%d >> 8) as u8" % (i, i) for i in range(k)] + ["rest"])
    return """    #[kani::proof]
    #[kani::unwind(7)]
    fn h_dec_long_%d() {
        let rest: u8 = kani::any();
%s
%s
        let value: u128 = %s;
        let mut v = vec![%s];
        let got = Deserializer.deserialize_const(&mut v, VER);
        kani::cover!(got.is_ok(), "accepted longs reachable");
        if value <= u64::MAX as u128 {
            assert!(matches!(got, Ok(ValueObj::Nat(m)) if m as u128 == value), "a marshal long of %d digits that fits in u64 is read back as that natural number");
            assert!(v.len() == 1 && v[0] == rest, "the reader consumes exactly the value and leaves the rest");
        } else {
            assert!(got.is_err(), "a long that does not fit is reported, not wrapped");
        }
    }
""" % (k, decl, top, val, elems, k)


def build(run):
    from units.C15.unit import errors_r3
    ssrc = Source(run.repo, SER)
    vsrc = Source(run.repo, VALUE_RS)
    dsrc = Source(run.repo, DESER)
    psrc = Source(run.repo, PYUTIL)
    unit = KaniUnit('C15', run.scratch)
    unit.raw(PRELUDE)
    unit.add(Snippet(psrc.item('struct', 'PythonVersion', with_attrs=True), 'struct PythonVersion'))
    unit.raw("impl PythonVersion {\n")
    unit.add(Snippet(psrc.fn('new', impl=r'PythonVersion'), 'PythonVersion::new'))
    unit.raw("}\n")
    pen = Snippet(ssrc.item('enum', 'DataTypePrefix', with_attrs=True), 'enum DataTypePrefix')
    unit.add(pen)
    unit.add(Snippet(ssrc.impl_block(r'From<u8> for DataTypePrefix'), 'impl From<u8> for DataTypePrefix'))
    for f in ('long_into_bytes', 'str_into_bytes', 'raw_string_into_bytes'):
        unit.add(Snippet(ssrc.fn(f), f))
    unit.add(Snippet(vsrc.item('struct', 'Float', with_attrs=True), 'struct Float'))
    unit.add(Snippet(vsrc.impl_block(r'Deref for Float'), 'impl Deref for Float'))
    en = Snippet(vsrc.item('enum', 'ValueObj'), 'enum ValueObj')
    variants = rules.erase_enum_payloads(en, {'i32', 'u64', 'bool', 'Float'}, derives='#[derive(Clone, Debug)]\n')
    erased = [v for (v, kind, tys) in variants if any('Opaque' in t for t in tys)]
    unit.add(en)
    unit.add(Snippet(vsrc.impl_block(r'From<f64> for ValueObj'), 'impl From<f64> for ValueObj'))
    rx = re.compile(r'\b(?:Self|ValueObj)::(%s)\s*\(\s*([^)]*)\)' % '|'.join(erased))

    def pred(pat):
        return any(m.group(2).strip() not in ('_', '..') for m in rx.finditer(pat))
    ib = Snippet(vsrc.fn('into_bytes', impl=r'ValueObj'), 'ValueObj::into_bytes')
    rules.diagnostics(ib)
    ib.erase_arms('R2', pred)
    unit.raw("impl ValueObj {\n")
    unit.add(ib)
    unit.raw("}\n")
    unit.raw("impl Deserializer {\n")
    for f in ('take', 'take_byte', 'vec_to_bytes', 'consume', 'deserialize_u32', 'deserialize_long'):
        sn = Snippet(dsrc.fn(f, impl=r'Deserializer'), 'Deserializer::' + f)
        errors_r3(sn)
        unit.add(sn)
    dc = Snippet(dsrc.fn('deserialize_const', impl=r'Deserializer'), 'Deserializer::deserialize_const')
    errors_r3(dc)
    rules.diagnostics(dc)
    # R2: string / tuple / code arms are outside this unit (strings go through caches, tuples recurse): reaching one fails the harness
    dc.erase_arms('R2', lambda pat: re.search(r'DataTypePrefix::(ShortAscii|Str|Unicode|SmallTuple|Tuple|Code)\b', pat) is not None)
    unit.add(dc)
    unit.raw("}\n")
    unit.harness(HARNESS.replace('@@DEC_LONG@@', ''.join(dec_long_harness(k) for k in range(0, 6))))
    hs = [("h_enc_int", "into_bytes[Int]", "== 'i' + i32 LE", 'complete'),
          ("h_enc_nat", "into_bytes[Nat]", "n < 2**31: 'i' + i32 LE; else CPython long: 'l', digit count, 15-bit digits LE (loop bounded by the 5 digits of a u64)", 'complete-by-width'),
          ("h_enc_float", "into_bytes[Float]", "== 'g' + IEEE-754 bits LE (all f64 incl. -0.0, inf, NaN)", 'complete'),
          ("h_enc_bool_none", "into_bytes[Bool,None]", "'T' / 'F' / 'N'", 'complete'),
          ("h_roundtrip_int", "deserialize_const(into_bytes(Int) ++ rest)", "== Ok(same Int), leaves rest (all i32)", 'complete'),
] + [("h_dec_long_%d" % k, "deserialize_const('l' + %d digits ++ rest)" % k, "== Ok(Nat(sum of digits << 15i)) if it fits in u64 else Err; leaves rest. With into_bytes[Nat] == the marshal long format (h_enc_nat) this gives the Nat round trip by transitivity", 'complete') for k in range(0, 6)] + [
          ("h_roundtrip_float", "deserialize_const(into_bytes(Float) ++ rest)", "== Ok(Float with the same bits), leaves rest (all f64)", 'complete'),
          ("h_roundtrip_bool_none", "deserialize_const(into_bytes(Bool|None) ++ rest)", "== Ok(same), leaves rest", 'complete'),
          ("h_prefix_table", "DataTypePrefix::from", "inverts `as u8` on every emitted type byte; no byte decodes to a different type", 'complete'),
          ("h_vec_to_bytes", "Deserializer::vec_to_bytes<2|4|8>", "copies the first LEN bytes (vectors up to 10 bytes)", 'bounded'),
          ("h_raw_string", "raw_string_into_bytes (2 bytes)", "'s' + length u32 LE + payload", 'bounded')]
    return unit, hs


def run_kani(run):
    unit, hs = build(run)
    res = unit.run([h[0] for h in hs], jobs=6, timeout_s=900)
    run.note_functions(unit.snippets)
    bounded = []
    for (h, label, spec, kind) in hs:
        r = res[h]
        if r.status == 'SUCCESS':
            bad_cover = [c for c in r.covers if c[1] != 'SATISFIED']
            if bad_cover or not r.covers:
                run.undecided.append("kani %s: vacuity guard: cover %r" % (h, bad_cover))
                continue
            if kind == 'bounded':
                bounded.append("%s: %s" % (label, spec))
                run.extra.setdefault("bounded_stand_ins(not counted as proved)", []).append({"harness": h, "what": label, "bound": spec, "status": "passed"})
                continue
            run.add_obligation(label, 'kani', True, time_s=r.time_s, cmd=r.cmd.replace(h, '<harness>'))
            run.sample({"obligation": label, "backend": "kani (%s)" % kind, "ensures": spec})
        elif r.status == 'FAILURE':
            descs = sorted(set(d for (d, _) in r.failed))
            if any('R2-erased arm reached' in d for d in descs):
                run.undecided.append("kani %s: %s" % (h, descs[:2]))
                continue
            key = "%s|kani|%s" % (label, descs[0][:100] if descs else 'failed')
            from units.C15 import cex
            run.add_obligation(key, 'kani', False, detail={"msg": "Kani harness %s FAILED: %s" % (h, '; '.join("%s @ %s" % f for f in r.failed[:6])), "rendered": r.log_tail[-2500:]},
                               time_s=r.time_s, cmd=r.cmd.replace(h, '<harness>'))
            run.failed[-1]["cex_finder"] = (lambda f, h=h: cex.find_kani(run, unit, h, f))
        else:
            run.undecided.append("kani %s: %s %s" % (h, r.status, r.log_tail[-400:].replace('\n', ' ') if r.status == 'ERROR' else ''))
