"""Counterexample search + replay for C15 on the REAL writer/reader (replay/src/c15.rs), with CPython's own
marshal module as the independent oracle for the writer and the property statement for the reader
(any byte sequence: Ok or Err, never a crash)."""
import marshal
import struct

from vlib import replay

INTS = [0, 1, -1, 127, 255, 256, 32767, 32768, 65535, 2**31 - 1, -2**31]
NATS = [0, 1, 255, 2**15 - 1, 2**15, 2**30, 2**31 - 1, 2**31, 2**31 + 1, 2**32, 2**32 + 1, 2**45, 2**60, 2**63, 2**64 - 1]
FLOATS = [0.0, -0.0, 1.5, float('inf'), float('-inf'), float('nan'), 5e-324, 1e308]
BROKEN = ["", "69", "6900", "6c", "6c01000000", "6c0100000000", "6cffffff7f", "67", "6700000000", "fa", "fa05", "fa0561", "75", "75ffffffff", "29", "2901",
          "28", "28ffffffff", "28ffffffff69", "e3", "73", "7305000000", "00", "ff", "72", "74", "da0261", "29016c"]


def fbits(x):
    return "0x%016x" % struct.unpack('<Q', struct.pack('<d', x))[0]


def py_loads(hexs):
    try:
        return ('value', marshal.loads(bytes.fromhex(hexs)))
    except Exception as e:
        return ('raises', type(e).__name__)


def find_reader(run, failure):
    binary = replay.build(run, 'c15')
    outs = []
    for b in BROKEN:   # one process per input: an abort must not hide the other cases
        o = replay.run_lines(binary, ["dec " + b]) if b else replay.run_lines(binary, ["dec 00"])
        outs.append(o[-1] if o else "ABORT (process died without output)")
    for b, out in zip(BROKEN, outs):
        if out.startswith('PANIC') or out.startswith('ABORT'):
            return {"found": True, "how": "byte-sequence search on the real Deserializer::deserialize_const (Verus gives no model)",
                    "input": {"bytes_hex": b}, "real_result": out, "oracle": "Ok(..) or Err(broken file): never a crash",
                    "verdict": "the reader crashes on a byte sequence instead of reporting a broken file",
                    "replay_cmd": "echo 'dec %s' | %s" % (b, binary)}
    return {"found": False, "note": "no crash on %d malformed byte sequences" % len(BROKEN)}


def find_writer(run):
    binary = replay.build(run, 'c15')
    cases = [("Int:%d" % i, i) for i in INTS] + [("Nat:%d" % n, n) for n in NATS] + [("Float:%s" % fbits(f), f) for f in FLOATS] + \
            [("Bool:true", True), ("Bool:false", False), ("None", None)]
    lines = ["enc " + c[0] for c in cases] + ["roundtrip " + c[0] for c in cases]
    outs = replay.run_lines(binary, lines)
    if len(outs) != len(lines):
        return {"found": False, "note": "replay produced %d lines for %d inputs" % (len(outs), len(lines))}
    for (txt, want), out in zip(cases, outs[:len(cases)]):
        if out.startswith('PANIC'):
            return _w(txt, out, repr(want), "writer panics", binary, 'enc')
        tag, got = py_loads(out)
        same = tag == 'value' and type(got) is type(want) and (got == want or (isinstance(want, float) and want != want and got != got)) \
            and (not isinstance(want, float) or struct.pack('<d', got) == struct.pack('<d', want) or want != want)
        if not same:
            return _w(txt, out, repr(want), "CPython's marshal.loads reads the written bytes as %r" % (got,), binary, 'enc')
    for (txt, want), out in zip(cases, outs[len(cases):]):
        ok = out.startswith('Ok(') and out.endswith('rest=0')
        if ok and isinstance(want, bool):
            ok = ('Bool:%s' % ('true' if want else 'false')) in out
        elif ok and isinstance(want, int):
            ok = (":%d)" % want) in out
        elif ok and isinstance(want, float):
            ok = fbits(want) in out
        if not ok:
            return _w(txt, out, "Ok(%s) rest=0" % txt, "the compiler's own reader does not read back what the writer wrote", binary, 'roundtrip')
    return {"found": False, "note": "writer agrees with marshal.loads and the reader on %d scalar values" % len(cases)}


def _w(txt, out, oracle, verdict, binary, cmd):
    return {"found": True, "how": "boundary-value search on the real ValueObj::into_bytes / deserialize_const; oracle: CPython marshal.loads",
            "input": {"value": txt}, "real_result": out, "oracle": oracle, "verdict": verdict,
            "replay_cmd": "echo '%s %s' | %s" % (cmd, txt, binary)}


def find_kani(run, unit, harness, failure):
    g = find_writer(run)
    if g.get("found"):
        return g
    r = find_reader(run, failure)
    if r.get("found"):
        return r
    pb = unit.run_one(harness, timeout_s=600, playback=True)
    vals = (pb.cex or {}).get("playback_values_in_order_of_kani_any_calls") or []
    return {"found": False, "note": "boundary search found no disagreement on the real code; Kani playback values: %r" % (vals[:4],)}


def fallback(run):
    g = find_writer(run)
    if g.get("found"):
        return g
    return find_reader(run, {})


# ---------------------------------------------------------------------------------------------------------------------------
# Bounded exploration next to the proof (NOT counted): "the compiler's own reader reads back every file the compiler writes, and
# the target interpreter's unmarshaller accepts it" on real files - the code-object level (field sequence of CodeObj::into_bytes
# vs. CodeObj::from_bytes, interned strings, nested code objects), which the scalar/strings contracts do not carry.
def explore_files(run):
    import glob
    import os
    import shutil
    import subprocess
    import tempfile
    from units.C14.cex import build_erg
    from units.C16 import cpython
    erg = build_erg(run)
    here = os.path.dirname(os.path.abspath(__file__))
    quick = run.tier != 'thorough'
    minors = [11] if quick else [11, 10, 9, 8, 7]
    files = sorted(glob.glob(os.path.join(here, 'probes', '*.er')) + glob.glob(os.path.join(run.repo, 'tests', 'should_ok', '*.er')) + glob.glob(os.path.join(run.repo, 'examples', '*.er')))
    work = tempfile.mkdtemp(prefix='pycread-', dir=run.scratch)
    fds = []
    n = 0
    for minor in minors:
        py = cpython.find_interpreter(minor)
        if not py:
            continue
        for f in files:
            d = tempfile.mkdtemp(dir=work)
            dst = os.path.join(d, os.path.basename(f))
            shutil.copy(f, dst)
            try:
                subprocess.run([erg, '--py-command', py, 'compile', dst], capture_output=True, text=True, timeout=180, cwd=os.path.dirname(f))
            except subprocess.TimeoutExpired:
                continue
            pyc = dst[:-3] + '.pyc'
            if not os.path.exists(pyc):
                shutil.rmtree(d, ignore_errors=True)
                continue
            n += 1
            r = subprocess.run([erg, '--mode', 'read', pyc], capture_output=True, text=True, timeout=120)
            out = (r.stdout + r.stderr)
            if r.returncode != 0 or 'failed to deserialize' in out or 'panicked' in out:
                fds.append({"key": "3.%d|%s|own reader" % (minor, os.path.basename(f)), "verdict": "Python 3.%d, %s: `erg --mode read` rejects the file the compiler wrote: %s" % (minor, os.path.basename(f), out.strip()[-200:]),
                            "input": {"file": f, "target": "3.%d" % minor}, "oracle": "the compiler's own reader reads back every file the compiler writes",
                            "replay_cmd": "%s --py-command %s compile %s && %s --mode read %s" % (erg, py, f, erg, os.path.basename(pyc))})
            if os.path.dirname(f) == os.path.join(here, 'probes') and minor == 11:
                # "...and reports any other byte sequence as a broken file instead of crashing": single-byte mutations of a real file
                import random
                rnd = random.Random(run.seed * 7919 + len(fds))
                data = open(pyc, 'rb').read()
                n_mut = 40 if quick else 400
                for k in range(n_mut):
                    pos = rnd.randrange(16, len(data))
                    mut = bytearray(data)
                    mut[pos] = rnd.randrange(256)
                    mp = pyc + '.mut'
                    open(mp, 'wb').write(bytes(mut))
                    try:
                        rr = subprocess.run([erg, '--mode', 'read', mp], capture_output=True, text=True, timeout=60)
                    except subprocess.TimeoutExpired:
                        fds.append({"key": "3.11|%s|reader hangs on a mutated file" % os.path.basename(f), "verdict": "the reader did not finish within 60 s on %s with byte %d set to %d" % (os.path.basename(f), pos, mut[pos]), "input": {"file": f, "byte": pos, "value": mut[pos]}})
                        break
                    oo = rr.stdout[-400:] + rr.stderr[-1200:]
                    if rr.returncode < 0 or 'panicked' in oo or 'overflowed its stack' in oo:
                        fds.append({"key": "3.11|%s|reader crashes on a mutated file" % os.path.basename(f),
                                    "verdict": "`erg --mode read` crashes on %s with byte %d set to 0x%02x: %s" % (os.path.basename(f)[:-3] + '.pyc', pos, mut[pos], ' '.join(oo.split())[-220:]),
                                    "input": {"file": f, "byte_offset": pos, "value": mut[pos]}, "oracle": "any other byte sequence is reported as a broken file instead of crashing",
                                    "replay_cmd": "compile %s, set byte %d to %d, %s --mode read <file>" % (f, pos, mut[pos], erg)})
                        break
                run.extra.setdefault("mutated_files_read", 0)
                run.extra["mutated_files_read"] += n_mut
            q = subprocess.run([py, '-c', "import marshal,sys; marshal.loads(open(sys.argv[1],'rb').read()[16:])", pyc], capture_output=True, text=True, timeout=60)
            if q.returncode != 0:
                fds.append({"key": "3.%d|%s|marshal.loads" % (minor, os.path.basename(f)), "verdict": "Python 3.%d, %s: the target interpreter's unmarshaller rejects the file: %s" % (minor, os.path.basename(f), q.stderr.strip()[-200:]),
                            "input": {"file": f, "target": "3.%d" % minor}, "oracle": "marshal.loads of the target interpreter", "replay_cmd": "%s -c 'import marshal; marshal.loads(open(\"%s\",\"rb\").read()[16:])'" % (py, pyc)})
            shutil.rmtree(d, ignore_errors=True)
    shutil.rmtree(work, ignore_errors=True)
    run.extra["bounded_pyc_read_back"] = {"files_written_and_read_back": n, "targets": ["3.%d" % m for m in minors],
                                          "corpus": "units/C15/probes, tests/should_ok, examples", "checked": "`erg --mode read` accepts the file; marshal.loads of the target interpreter accepts it"}
    return {"found": bool(fds), "findings": fds, "note": "%d files written and read back, %d findings" % (n, len(fds))}
