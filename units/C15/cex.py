"""Counterexample search + replay for C15 on the REAL writer/reader (replay/src/c15.rs), with CPython's own
marshal module as the independent oracle for the writer and the property statement for the reader
(any byte sequence: Ok or Err, never a crash)."""
import marshal
import struct

from vlib import replay

INTS = [0, 1, -1, 127, 255, 256, 32767, 32768, 65535, 2**31 - 1, -2**31]
NATS = [0, 1, 255, 2**15 - 1, 2**15, 2**30, 2**31 - 1, 2**31, 2**31 + 1, 2**32, 2**32 + 1, 2**45, 2**60, 2**63, 2**64 - 1]
FLOATS = [0.0, -0.0, 1.5, float('inf'), float('-inf'), float('nan'), 5e-324, 1e308]
BROKEN = ["", "69", "6900", "6c", "6c01000000", "6c0100000000", "6cffffff7f", "67", "6700000000", "fa", "fa05", "fa0561", "75", "75ffffffff", "29", "2901",
          "28", "28ffffffff", "28ffffffff69", "e3", "73", "7305000000", "00", "ff", "72", "74", "da0261", "29016c"]


def fbits(x):
    return "0x%016x" % struct.unpack('<Q', struct.pack('<d', x))[0]


def py_loads(hexs):
    try:
        return ('value', marshal.loads(bytes.fromhex(hexs)))
    except Exception as e:
        return ('raises', type(e).__name__)


def find_reader(run, failure):
    binary = replay.build(run, 'c15')
    outs = []
    for b in BROKEN:   # one process per input: an abort must not hide the other cases
        o = replay.run_lines(binary, ["dec " + b]) if b else replay.run_lines(binary, ["dec 00"])
        outs.append(o[-1] if o else "ABORT (process died without output)")
    for b, out in zip(BROKEN, outs):
        if out.startswith('PANIC') or out.startswith('ABORT'):
            return {"found": True, "how": "byte-sequence search on the real Deserializer::deserialize_const (Verus gives no model)",
                    "input": {"bytes_hex": b}, "real_result": out, "oracle": "Ok(..) or Err(broken file): never a crash",
                    "verdict": "the reader crashes on a byte sequence instead of reporting a broken file",
                    "replay_cmd": "echo 'dec %s' | %s" % (b, binary)}
    return {"found": False, "note": "no crash on %d malformed byte sequences" % len(BROKEN)}


def find_writer(run):
    binary = replay.build(run, 'c15')
    cases = [("Int:%d" % i, i) for i in INTS] + [("Nat:%d" % n, n) for n in NATS] + [("Float:%s" % fbits(f), f) for f in FLOATS] + \
            [("Bool:true", True), ("Bool:false", False), ("None", None)]
    lines = ["enc " + c[0] for c in cases] + ["roundtrip " + c[0] for c in cases]
    outs = replay.run_lines(binary, lines)
    if len(outs) != len(lines):
        return {"found": False, "note": "replay produced %d lines for %d inputs" % (len(outs), len(lines))}
    for (txt, want), out in zip(cases, outs[:len(cases)]):
        if out.startswith('PANIC'):
            return _w(txt, out, repr(want), "writer panics", binary, 'enc')
        tag, got = py_loads(out)
        same = tag == 'value' and type(got) is type(want) and (got == want or (isinstance(want, float) and want != want and got != got)) \
            and (not isinstance(want, float) or struct.pack('<d', got) == struct.pack('<d', want) or want != want)
        if not same:
            return _w(txt, out, repr(want), "CPython's marshal.loads reads the written bytes as %r" % (got,), binary, 'enc')
    for (txt, want), out in zip(cases, outs[len(cases):]):
        ok = out.startswith('Ok(') and out.endswith('rest=0')
        if ok and isinstance(want, bool):
            ok = ('Bool:%s' % ('true' if want else 'false')) in out
        elif ok and isinstance(want, int):
            ok = (":%d)" % want) in out
        elif ok and isinstance(want, float):
            ok = fbits(want) in out
        if not ok:
            return _w(txt, out, "Ok(%s) rest=0" % txt, "the compiler's own reader does not read back what the writer wrote", binary, 'roundtrip')
    return {"found": False, "note": "writer agrees with marshal.loads and the reader on %d scalar values" % len(cases)}


def _w(txt, out, oracle, verdict, binary, cmd):
    return {"found": True, "how": "boundary-value search on the real ValueObj::into_bytes / deserialize_const; oracle: CPython marshal.loads",
            "input": {"value": txt}, "real_result": out, "oracle": oracle, "verdict": verdict,
            "replay_cmd": "echo '%s %s' | %s" % (cmd, txt, binary)}


def find_kani(run, unit, harness, failure):
    g = find_writer(run)
    if g.get("found"):
        return g
    r = find_reader(run, failure)
    if r.get("found"):
        return r
    pb = unit.run_one(harness, timeout_s=600, playback=True)
    vals = (pb.cex or {}).get("playback_values_in_order_of_kani_any_calls") or []
    return {"found": False, "note": "boundary search found no disagreement on the real code; Kani playback values: %r" % (vals[:4],)}


def fallback(run):
    g = find_writer(run)
    if g.get("found"):
        return g
    return find_reader(run, {})
