"""C15 (partial): marshal writer / .pyc reader.
Verus: the reader primitives and Deserializer::deserialize_const are total on every byte vector (no panic; Err on
short input), consume exactly what they decode, and terminate. Kani (kani.py): the writer's scalar encodings equal
the marshal format and reader(writer(x) ++ rest) == x."""
import os
import re

from vlib.extract import Source, make_mask, match_close
from vlib.snippet import Snippet, Undecided
from vlib.verus_unit import VerusUnit
from vlib import rules

HERE = os.path.dirname(os.path.abspath(__file__))
DESER = 'crates/erg_compiler/ty/deserialize.rs'
SER = 'crates/erg_common/serialize.rs'
VALUE_RS = 'crates/erg_compiler/ty/value.rs'


def errors_r3(sn):
    for pat in (r'\bDeserializeError::file_broken_error\s*\(', r'\bDeserializeError::new\s*\(', r'\bDeserializeError::type_error\s*\('):
        while True:
            mask = make_mask(sn.text)
            m = re.search(pat, mask)
            if not m:
                break
            cp = match_close(mask, m.end() - 1)
            # The message is opaque, but ARGUMENT EVALUATION is kept: an argument that is itself a call (e.g. `other.ref_t()`, which
            # panics on a ValueObj) stays in the verified text and must be total. Paths, literals and references to them are dropped.
            args = [a.strip() for a in rules.split_top(sn.text[m.end():cp]) if a.strip()]
            kept = [a for a in args if re.search(r'\.\s*\w+\s*\(', a) and '::' not in a.split('.')[0]]   # method calls on local values (constructor calls of the expected type are dropped)
            if kept:
                new = '{ ' + ' '.join('let _ = %s;' % a for a in kept) + ' ext_deser_error() }'
            else:
                new = 'ext_deser_error()'
            sn.replace_range('R3', m.start(), cp + 1, new, "%s..) -> ext_deser_error() (argument calls kept: %d)" % (pat, len(kept)))


def reader_rewrites(sn):
    rules.strip_vis_attrs(sn)
    errors_r3(sn)
    sn.rw('R4', r'\bv\.drain\(\.\.(\w+)\)\.collect\(\)', r'w_drain_front(v, \1)')
    sn.rw('R4', r'\bv\.remove\(0\)', 'w_remove_first(v)')
    sn.rw('R4', r'\bv\.insert\(0,\s*([^;]*)\);', r'w_insert_first(v, \1);')
    sn.rw('R9', r'\bVec::with_capacity\(((?:[^()]|\([^()]*\))*)\)', r'w_vec_with_capacity(\1, v.len())')
    sn.rw('R8', r'\bu32::from_le_bytes\(', 'w_u32_from_le(')
    sn.rw('R8', r'\bi32::from_le_bytes\(', 'w_i32_from_le(')
    sn.rw('R8', r'\bu16::from_le_bytes\(', 'w_u16_from_le(')
    sn.rw('R8', r'ValueObj::from\(f64::from_le_bytes\((\w+)\)\)', r'w_float_value_from_le(\1)')
    sn.rw('R4', r'String::from_utf8\((\w+)\)\?', r'w_string_from_utf8(\1)?')
    sn.rw('R4', r'DataTypePrefix::from\(', 'w_prefix_from(')
    sn.rw('R4', r'ValueObj::from\(CodeObj::from_bytes\(v, python_ver\)\?\)', 'w_value_from_code(CodeObj::from_bytes(v, python_ver)?)')


LEN_POST = "final(v)@.len() <= old(v)@.len()"


# the fields in the order CPython's marshal.c lays them out; (binding in from_bytes, kind, tail spec that starts at this field)
LAYOUT = [('argcount', 'u32', 't_arg'), ('posonlyargcount', 'opt32:8', 't_pos'), ('kwonlyargcount', 'u32', 't_kw'), ('nlocals', 'nopt32:11', 't_nloc'),
          ('stacksize', 'u32', 't_stack'), ('flags', 'u32', 't_flags'), ('code', 'bytes', 't_code'), ('consts', 'consts', 't_consts'), ('names', 'strs', 't_names'),
          ('(varnames, freevars, cellvars)', 'locals', 't_locals'), ('filename', 'str:false', 't_file'), ('name', 'str:true', 't_name'), ('qualname', 'optstr:11', 't_qual'),
          ('firstlineno', 'u32', 't_first'), ('lnotab', 'bytes', 't_lnotab'), ('exceptiontable', 'optbytes:11', 't_exc')]


def from_bytes_layout(csrc):
    """class copy of CodeObj::from_bytes checked against the writer's layout: the element readers are replaced (R12) by ASSUMED decoders
    that invert the element encoders, so what is proved is that reader and writer agree on the ORDER of the fields and on their
    version-dependent PRESENCE."""
    fl = Snippet(csrc.fn('from_bytes', impl=r'CodeObj'), 'CodeObj::from_bytes[layout]')
    reader_rewrites(fl)
    fl.rw('R4', r'v\.first\(\) != Some\(&\((DataTypePrefix::Code as u8)\)\)', r'w_first_ne(v, \1)', expect=1)
    fl.rw('R4', r'python_ver\.minor >= Some\((\d+)\)', r'w_minor_ge(python_ver.minor, \1)')
    fl.rw('R9', r'vec!\[\]', 'w_empty_vec()', expect='*')
    byt = iter(['code', 'lnotab', 'exceptiontable'])
    fl.rw('R12', r'des\.deserialize_bytes\(v\)\?', lambda m: 'des.w_dec_bytes(v, Ghost(c0.%s@))?' % next(byt), expect=3)
    fl.rw('R12', r'des\.deserialize_const_vec\(v, python_ver, Some\("consts"\)\)\?', 'des.w_dec_consts(v, python_ver, Ghost(c0.consts@))?', expect=1)
    fl.rw('R12', r'des\.deserialize_str_vec\(v, python_ver, Some\("names"\)\)\?', 'des.w_dec_strs(v, python_ver, Ghost(c0.names@))?', expect=1)
    fl.rw('R12', r'des\.deserialize_locals\(v, python_ver\)\?', 'des.w_dec_locals(v, python_ver, Ghost(c0.varnames@), Ghost(c0.freevars@), Ghost(c0.cellvars@))?', expect=1)
    fl.rw('R12', r'des\.deserialize_str\(v, python_ver, Some\("(filename|name|qualname)"\)\)\?',
          lambda m: 'des.w_dec_str(v, python_ver, Ghost(c0.%s.bytes()), Ghost(%s))?' % (m.group(1), 'false' if m.group(1) == 'filename' else 'true'), expect=3, code_only=False)
    fl.rename_fn('from_bytes__layout')
    # ghost witnesses: the code object that was written and what follows it in the stream (a marked splice: ghost parameters only)
    fl.insert_ghost_params("Ghost(c0): Ghost<CodeObj>, Ghost(rest0): Ghost<Seq<u8>>")
    fl.contract("""requires old(v)@ == code_layout(c0, python_ver.minor) + rest0,   // what CodeObj::into_bytes writes (its contract), then anything
    ensures final(v)@ == rest0,
        res matches Ok(r) && {
            let m = python_ver.minor;
            &&& r.argcount == c0.argcount && r.kwonlyargcount == c0.kwonlyargcount && r.stacksize == c0.stacksize && r.flags == c0.flags && r.firstlineno == c0.firstlineno
            &&& r.posonlyargcount == (if minor_ge(m, 8) { c0.posonlyargcount } else { 0 })
            &&& r.nlocals == (if minor_ge(m, 11) { 0 } else { c0.nlocals })
            &&& r.code@ == c0.code@ && r.consts@ == c0.consts@ && r.names@ == c0.names@
            &&& r.varnames@ == c0.varnames@ && r.freevars@ == c0.freevars@ && r.cellvars@ == c0.cellvars@
            &&& r.filename.bytes() == c0.filename.bytes() && r.name.bytes() == c0.name.bytes()
            &&& r.qualname.bytes() == (if minor_ge(m, 11) { c0.qualname.bytes() } else { c0.name.bytes() })
            &&& r.lnotab@ == c0.lnotab@
            &&& r.exceptiontable@ == (if minor_ge(m, 11) { c0.exceptiontable@ } else { Seq::<u8>::empty() })
        },""")
    # its own solver process with a pruned context: a broken field order is then refuted in seconds instead of exhausting the limit
    fl.kani_attrs("#[verifier::spinoff_prover]")
    fl.body_prologue("let ghost m = python_ver.minor;\n        proof { lemma_layout_stream(c0, m, rest0); lemma_front(seq![0xE3u8], t_arg(c0, m, rest0)); }")
    ENC = {'bytes': 'marshal_bytes(c0.%s@)', 'consts': 'consts_enc(c0.%s@, m)', 'strs': 'strs_enc(c0.%s@)'}
    for k, (bind, kind, tail) in enumerate(LAYOUT):
        nxt = LAYOUT[k + 1][2] + '(c0, m, rest0)' if k + 1 < len(LAYOUT) else 'rest0'
        here = "%s(c0, m, rest0)" % tail
        f = bind
        if kind == 'u32':
            step = "lemma_front32(c0.%s, %s);" % (f, nxt)
        elif kind.startswith('opt32:') or kind.startswith('nopt32:'):
            n = kind.split(':')[1]
            cond = ("minor_ge(m, %s)" % n) if kind.startswith('opt32') else ("!minor_ge(m, %s)" % n)
            step = "if %s { lemma_front32(c0.%s, %s); } else { assert(v@ =~= %s); }" % (cond, f, nxt, nxt)
        elif kind in ENC:
            step = "lemma_front(%s, %s);" % (ENC[kind] % f, nxt)
        elif kind == 'locals':
            step = "lemma_front(locals_enc(c0.varnames@, c0.freevars@, c0.cellvars@, m), %s);" % nxt
        elif kind.startswith('str:'):
            step = "lemma_front(marshal_str(c0.%s.bytes(), %s), %s);" % (f, kind.split(':')[1], nxt)
        elif kind.startswith('optstr:'):
            step = "if minor_ge(m, %s) { lemma_front(marshal_str(c0.%s.bytes(), true), %s); } else { assert(v@ =~= %s); }" % (kind.split(':')[1], f, nxt, nxt)
        elif kind.startswith('optbytes:'):
            step = "if minor_ge(m, %s) { lemma_front(marshal_bytes(c0.%s@), %s); } else { assert(v@ =~= %s); }" % (kind.split(':')[1], f, nxt, nxt)
        first = "assert(v@ =~= %s);" % here if k == 0 else "assert(v@ == %s);" % here
        fl.insert_at(r'let %s\s*=' % re.escape(bind), "        proof { %s %s }" % (first, step), where='before')
    # the bindings hold the written fields (stated one by one, so that a wrong binding is refuted where it is, not searched for)
    fl.insert_at(r'Ok\(CodeObj \{', """        proof {
            assert(qualname.bytes() == (if minor_ge(m, 11) { c0.qualname.bytes() } else { c0.name.bytes() }));
            assert(filename.bytes() == c0.filename.bytes() && name.bytes() == c0.name.bytes());
            assert(exceptiontable@ == (if minor_ge(m, 11) { c0.exceptiontable@ } else { Seq::<u8>::empty() }));
            assert(posonlyargcount == (if minor_ge(m, 8) { c0.posonlyargcount } else { 0 }) && nlocals == (if minor_ge(m, 11) { 0 } else { c0.nlocals }));
        }""", where='before')
    return fl


def build(run):
    src = Source(run.repo, DESER)
    ssrc = Source(run.repo, SER)
    vsrc = Source(run.repo, VALUE_RS)
    unit = VerusUnit('C15', run.scratch)
    unit.raw_file(os.path.join(HERE, 'prelude.rs'))
    unit.raw("verus! {\n")
    ven = Snippet(vsrc.item('enum', 'ValueObj'), 'enum ValueObj')
    rules.erase_enum_payloads(ven, {'i32', 'u64', 'bool'})
    unit.add(ven)
    pen = Snippet(ssrc.item('enum', 'DataTypePrefix'), 'enum DataTypePrefix')
    rules.erase_enum_payloads(pen, set(), derives='#[derive(Clone, Copy, PartialEq, Eq)]\n#[repr(u8)]\n')
    unit.add(pen)
    from units.C14.unit import keep_struct_fields
    psrc = Source(run.repo, 'crates/erg_common/python_util.rs')
    pv = Snippet(psrc.item('struct', 'PythonVersion'), 'struct PythonVersion')
    keep_struct_fields(pv, {'u8', 'Option<u8>'}, 'PythonVersion')
    unit.add(pv)
    csrc = Source(run.repo, 'crates/erg_compiler/ty/codeobj.rs')
    co = Snippet(csrc.item('struct', 'CodeObj'), 'struct CodeObj')
    keep_struct_fields(co, {'u32', 'Vec<u8>', 'Vec<ValueObj>', 'Vec<Str>', 'Str'}, 'CodeObj')
    unit.add(co)
    unit.raw("impl Deserializer {\n")

    take = Snippet(src.fn('take', impl=r'Deserializer'), 'Deserializer::take')
    reader_rewrites(take)
    take.contract("""ensures
        res is Ok <==> len <= old(v)@.len(),
        res matches Ok(r) ==> r@ == old(v)@.subrange(0, len as int) && final(v)@ == old(v)@.subrange(len as int, old(v)@.len() as int),
        res is Err ==> final(v)@ == old(v)@,""")
    unit.add(take)

    tb = Snippet(src.fn('take_byte', impl=r'Deserializer'), 'Deserializer::take_byte')
    reader_rewrites(tb)
    tb.contract("""ensures
        res is Ok <==> old(v)@.len() > 0,
        res matches Ok(b) ==> b == old(v)@[0] && final(v)@ == old(v)@.subrange(1, old(v)@.len() as int),
        res is Err ==> final(v)@ == old(v)@,""")
    unit.add(tb)

    cons = Snippet(src.fn('consume', impl=r'Deserializer'), 'Deserializer::consume')
    reader_rewrites(cons)
    cons.contract("""ensures
        res is Ok <==> LEN <= old(v)@.len(),
        res matches Ok(a) ==> (forall|i: int| 0 <= i < LEN ==> a@[i] == old(v)@[i]) && final(v)@ == old(v)@.subrange(LEN as int, old(v)@.len() as int),
        res is Err ==> final(v)@ == old(v)@,""")
    cons.body_prologue("broadcast use vstd::seq::group_seq_axioms;")
    unit.add(cons)

    du = Snippet(src.fn('deserialize_u32', impl=r'Deserializer'), 'Deserializer::deserialize_u32')
    reader_rewrites(du)
    du.contract("""ensures
        res is Ok <==> 4 <= old(v)@.len(),
        res matches Ok(x) ==> x == old(v)@[0] as int + old(v)@[1] as int * 256 + old(v)@[2] as int * 65536 + old(v)@[3] as int * 16777216
            && final(v)@ == old(v)@.subrange(4, old(v)@.len() as int),
        res is Err ==> final(v)@ == old(v)@,""")
    unit.add(du)

    dl = Snippet(src.fn('deserialize_long', impl=r'Deserializer'), 'Deserializer::deserialize_long')
    reader_rewrites(dl)
    dl.rw('R4', r'ndigits\.unsigned_abs\(\)', 'w_i32_unsigned_abs(ndigits)', expect=1)
    dl.contract("ensures %s,\n        res is Ok ==> final(v)@.len() + 4 <= old(v)@.len()," % LEN_POST)
    dl.loop_spec(0, """invariant
            v@.len() + 4 <= old(v)@.len(),
            shift as int == 15 * (shift as int / 15),""")
    unit.add(dl)

    db = Snippet(src.fn('deserialize_bytes', impl=r'Deserializer'), 'Deserializer::deserialize_bytes')
    reader_rewrites(db)
    db.contract("ensures %s,\n        res is Ok ==> final(v)@.len() + 5 <= old(v)@.len()," % LEN_POST)
    unit.add(db)

    dc = Snippet(src.fn('deserialize_const', impl=r'Deserializer'), 'Deserializer::deserialize_const')
    reader_rewrites(dc)
    rules.diagnostics(dc)
    dc.contract("""ensures
        %s,
        res is Ok ==> final(v)@.len() < old(v)@.len(),   // every value takes at least its type byte: no progress-free success
        old(v)@.len() == 0 ==> res is Err,               // an empty input is reported, not a crash
    decreases old(v)@.len(), 1int,""" % LEN_POST)
    dc.loop_spec(0, "invariant v@.len() < old(v)@.len(),")
    dc.loop_spec(1, "invariant v@.len() < old(v)@.len(),")
    unit.add(dc)
    # thin wrappers around deserialize_const (arms binding erased payloads are R2-erased: their result is unspecified, which is enough for totality)
    for f in ('deserialize_const_vec', 'deserialize_str_vec', 'deserialize_str'):
        w = Snippet(src.fn(f, impl=r'Deserializer'), 'Deserializer::' + f)
        reader_rewrites(w)
        rules.diagnostics(w)
        w.erase_arms('R2', lambda pat: re.search(r'ValueObj::(List|Tuple|Str)\s*\(\s*\w', pat) is not None)
        w.contract("""ensures %s,
        res is Ok ==> final(v)@.len() < old(v)@.len(),
    decreases old(v)@.len(), 2int,""" % LEN_POST)
        unit.add(w)
    unit.raw("}\n")
    unit.raw("impl CodeObj {\n")
    fb = Snippet(csrc.fn('from_bytes', impl=r'CodeObj'), 'CodeObj::from_bytes')
    reader_rewrites(fb)
    fb.rw('R4', r'v\.first\(\) != Some\(&\((DataTypePrefix::Code as u8)\)\)', r'w_first_ne(v, \1)', expect=1)
    fb.rw('R4', r'python_ver\.minor >= Some\((\d+)\)', r'w_minor_ge(python_ver.minor, \1)')
    fb.contract("""ensures %s,
        res is Ok ==> final(v)@.len() < old(v)@.len(),   // what the Code arm of deserialize_const relies on
    decreases old(v)@.len(), 0int,""" % LEN_POST)
    unit.add(fb)
    unit.raw("}\n")
    unit.raw("} // verus!\n")
    unit.raw_file(os.path.join(HERE, 'prelude_reader_layout.rs'))
    unit.raw("verus! {\nimpl CodeObj {\n")
    unit.add(from_bytes_layout(csrc))
    unit.raw("}\n")
    run.sample({"function": "CodeObj::from_bytes [class copy against the writer's layout]", "ensures": "on code_layout(c, minor) ++ rest (what CodeObj::into_bytes writes) it returns Ok with every field of c (posonlyargcount only from 3.8, nlocals only before 3.11, qualname = name before 3.11, exceptiontable empty before 3.11) and leaves rest: reader and writer agree on the order and the version-dependent presence of the fields - GIVEN that the element decoders invert the element encoders (assumed, R12)"})
    run.sample({"function": "CodeObj::from_bytes", "ensures": "total on every byte vector (a foreign first byte or short input is reported as a broken file), never grows the input, terminates (mutual recursion with deserialize_const proved with a lexicographic measure)"})
    unit.raw("""
// @trusted: i32::unsigned_abs
#[verifier::external_body]
fn w_i32_unsigned_abs(x: i32) -> (r: u32) ensures r == (if x >= 0 { x as int } else { -(x as int) }) { x.unsigned_abs() }
} // verus!
""")
    # ---- writer: strings and byte strings (serialize.rs) ------------------------------------------
    unit.raw("verus! {\n")
    sb = Snippet(ssrc.fn('str_into_bytes'), 'str_into_bytes')
    rules.strip_vis_attrs(sb)
    sb.rw('R4', r'\(cont\.len\(\) as u32\)\.to_le_bytes\(\)\.to_vec\(\)', 'w_u32_le_vec(cont.len() as u32)', expect=1)
    sb.rw('R4', r'cont\.as_bytes\(\)\.to_vec\(\)', 'cont.w_bytes_vec()', expect=1)
    sb.contract("requires cont.bytes().len() <= 0xFFFF_FFFF,\n    ensures res@ == marshal_str(cont.bytes(), is_interned),")
    sb.body_prologue("broadcast use vstd::seq::group_seq_axioms;")
    sb.insert_before_tail("    proof { assert(%s@ =~= marshal_str(cont.bytes(), is_interned)); }" % sb.tail_ident())
    unit.add(sb)
    rb = Snippet(ssrc.fn('raw_string_into_bytes'), 'raw_string_into_bytes')
    rules.strip_vis_attrs(rb)
    rb.rw('R4', r'\(cont\.len\(\) as u32\)\.to_le_bytes\(\)\.to_vec\(\)', 'w_u32_le_vec(cont.len() as u32)', expect=1)
    rb.rw('R9', r'vec!\[DataTypePrefix::Str as u8\]', 'w_vec1(DataTypePrefix::Str as u8)', expect=1)
    rb.contract("requires cont@.len() <= 0xFFFF_FFFF,\n    ensures res@ == marshal_bytes(cont@),")
    rb.body_prologue("let ghost cont0 = cont@;")
    rb.insert_before_tail("    proof { assert(%s@ =~= marshal_bytes(cont0)); }" % rb.tail_ident())
    unit.add(rb)
    # ---- writer: the code object itself (field order and presence per target version vs. CPython's marshal.c layout) --------------
    ib = Snippet(csrc.fn('into_bytes', impl=r'CodeObj'), 'CodeObj::into_bytes')
    rules.strip_vis_attrs(ib)
    ib.rw('R9', r'vec!\[DataTypePrefix::Code as u8\]', 'w_vec1(DataTypePrefix::Code as u8)', expect=1)
    ib.rw('R8', r'&mut self\.(\w+)\.to_le_bytes\(\)\.to_vec\(\)', r'&mut w_u32_le_vec(self.\1)')
    ib.rw('R4', r'python_ver\.minor >= Some\((\d+)\)', r'w_minor_ge(python_ver.minor, \1)')
    ib.rw('R4', r'python_ver\.minor < Some\((\d+)\)', r'!w_minor_ge(python_ver.minor, \1)')
    ib.contract("""requires self.code@.len() <= 0xFFFF_FFFF, self.lnotab@.len() <= 0xFFFF_FFFF, self.exceptiontable@.len() <= 0xFFFF_FFFF,
        self.filename.bytes().len() <= 0xFFFF_FFFF, self.name.bytes().len() <= 0xFFFF_FFFF, self.qualname.bytes().len() <= 0xFFFF_FFFF,
        self.consts@.len() <= 0xFFFF_FFFF, self.names@.len() <= 0xFFFF_FFFF, forall|k: int| 0 <= k < self.names@.len() ==> self.names@[k].bytes().len() <= 0xFFFF_FFFF,
        self.varnames@.len() <= 0xFFFF_FFFF, forall|k: int| 0 <= k < self.varnames@.len() ==> self.varnames@[k].bytes().len() <= 0xFFFF_FFFF,
        self.freevars@.len() <= 0xFFFF_FFFF, forall|k: int| 0 <= k < self.freevars@.len() ==> self.freevars@[k].bytes().len() <= 0xFFFF_FFFF,
        self.cellvars@.len() <= 0xFFFF_FFFF, forall|k: int| 0 <= k < self.cellvars@.len() ==> self.cellvars@[k].bytes().len() <= 0xFFFF_FFFF,
    ensures res@ == code_layout(self, python_ver.minor),   // the fields CPython's unmarshaller expects for that version, in its order""")
    ib.body_prologue("broadcast use vstd::seq::group_seq_axioms;")
    ib.insert_at(r'bytes\.append\(&mut w_u32_le_vec\(self\.kwonlyargcount\)\)', "        proof { assert(bytes@ =~= layout_a(self, python_ver.minor)); }", where='before')
    ib.insert_at(r'bytes\.append\(&mut w_u32_le_vec\(self\.stacksize\)\)', "        proof { assert(bytes@ =~= layout_b(self, python_ver.minor)); }", where='before')
    ib.insert_at(r'Self::dump_locals\(', "        proof { assert(bytes@ =~= layout_c(self, python_ver.minor)); }", where='before')
    ib.insert_at(r'bytes\.append\(&mut w_u32_le_vec\(self\.firstlineno\)\)', "        proof { assert(bytes@ =~= layout_d(self, python_ver.minor)); }", where='before')
    ib.insert_at(r'(?m)^\s*bytes\s*$', "        proof { assert(bytes@ =~= code_layout(self, python_ver.minor)); }", where='before')
    unit.raw("impl CodeObj {\n")
    unit.add(ib)
    # ---- dump_locals: the branch for targets below 3.11 (three tuples of names in marshal.c's order) is under contract; the 3.11 branch
    # (iterator filter / concat) is erased to an assumed stub (R2b)
    dl = Snippet(csrc.fn('dump_locals', impl=r'CodeObj'), 'CodeObj::dump_locals')
    rules.strip_vis_attrs(dl)
    mask = make_mask(dl.text)
    m = re.search(r'if python_ver\.minor >= Some\(11\) \{', mask)
    if not m:
        raise Undecided("CodeObj::dump_locals: the 3.11 branch was not found")
    cb = match_close(mask, m.end() - 1)
    if not re.match(r'\s*else\s*\{', mask[cb + 1:]):
        raise Undecided("CodeObj::dump_locals: the branch for older targets was not found")
    dl.replace_range('R2b', m.end(), cb, '\n            Self::ext_dump_locals_311(varnames, freevars, cellvars, bytes);\n        ', "3.11 branch (iterator filter/concat) -> ext_dump_locals_311 (assumed: appends locals_enc_311)")
    dl.rw('R4', r'python_ver\.minor >= Some\((\d+)\)', r'w_minor_ge(python_ver.minor, \1)', expect=1)
    dl.contract("""requires varnames@.len() <= 0xFFFF_FFFF, forall|k: int| 0 <= k < varnames@.len() ==> varnames@[k].bytes().len() <= 0xFFFF_FFFF,
        freevars@.len() <= 0xFFFF_FFFF, forall|k: int| 0 <= k < freevars@.len() ==> freevars@[k].bytes().len() <= 0xFFFF_FFFF,
        cellvars@.len() <= 0xFFFF_FFFF, forall|k: int| 0 <= k < cellvars@.len() ==> cellvars@[k].bytes().len() <= 0xFFFF_FFFF,
    ensures final(bytes)@ == old(bytes)@ + locals_enc(varnames@, freevars@, cellvars@, python_ver.minor),   // before 3.11: co_varnames, co_freevars, co_cellvars""")
    dl.body_prologue("broadcast use vstd::seq::group_seq_axioms; let ghost verif_b0 = bytes@; let ghost (verif_v, verif_f, verif_c) = (varnames@, freevars@, cellvars@);")
    dl.insert_at_end("    proof { assert(bytes@ =~= verif_b0 + locals_enc(verif_v, verif_f, verif_c, python_ver.minor)); }")
    unit.add(dl)
    unit.raw("}\n")
    # ---- writer: tuples of names and of constants (header + elements) ---------------------------------------------------------
    TUP_INV = """invariant
            i <= %(v)s@.len(), %(v)s@.len() <= 0xFFFF_FFFF, %(extra)s
            %(t)s@ == tuple_header(%(v)s@.len()) + %(body)s,
        decreases %(v)s@.len() - i,"""
    for (fname, source, vec, body, elem_pre) in (
            ('strs_into_bytes', ssrc, 'names', 'strs_body(names@.take(i as int))', 'forall|k: int| 0 <= k < names@.len() ==> names@[k].bytes().len() <= 0xFFFF_FFFF,'),
            ('consts_into_bytes', csrc, 'consts', 'consts_body(consts@.take(i as int), python_ver.minor)', '')):
        tb = Snippet(source.fn(fname), fname)
        rules.strip_vis_attrs(tb)
        t = tb.tail_ident()   # the local that accumulates the bytes, whatever it is called
        tb.rw('R9', r'let mut %s = vec!\[\];' % t, 'let mut %s: Vec<u8> = Vec::new();' % t, expect=1)
        tb.rw('R8', r'&mut \((\w+)\.len\(\) as u32\)\.to_le_bytes\(\)\.to_vec\(\)', r'&mut w_u32_le_vec(\1.len() as u32)', expect=1)
        # `for x in vec` (by value) -> indexed loop over the same vector with a clone of each element (Verus has no by-value Vec iteration)
        tb.rw('R4', r'for (\w+) in %s(?:\.into_iter\(\))? \{' % vec, r'let mut i: usize = 0; while i < %s.len() { let \1 = %s[i].clone(); i = i + 1;' % (vec, vec), expect=1)
        tb.contract("requires %s@.len() <= 0xFFFF_FFFF, %s\n    ensures res@ == %s," % (vec, elem_pre, 'strs_enc(names@)' if fname == 'strs_into_bytes' else 'consts_enc(consts@, python_ver.minor)'))
        tb.body_prologue("broadcast use vstd::seq::group_seq_axioms; reveal(strs_enc); reveal(consts_enc);")
        tb.loop_spec(0, TUP_INV % {"v": vec, "body": body, "extra": elem_pre, "t": t},
                     body_prologue="proof { assert(%s@.take(i as int + 1).drop_last() =~= %s@.take(i as int)); assert(%s@.take(i as int + 1).last() == %s@[i as int]); }" % (vec, vec, vec, vec))
        tb.insert_before_tail("    proof { assert(%s@.take(i as int) =~= %s@); }" % (vec, vec))
        unit.add(tb)
    unit.raw("} // verus!\n")
    run.sample({"function": "CodeObj::into_bytes", "ensures": "res == 'c' ++ the fields of CPython's marshal layout for the target version, in order (posonlyargcount from 3.8, nlocals up to 3.10, qualname and exceptiontable from 3.11); compound fields by their own writers"})
    run.sample({"function": "str_into_bytes", "ensures": "== CPython's marshal encoding of the string (short-ASCII header with length byte, or 'u' + u32 byte length) for every string below 4 GiB"})
    for fn_, what in (("take/take_byte/consume/deserialize_u32", "Ok <=> enough bytes; Ok returns exactly the next bytes and leaves the rest; Err leaves the input untouched; never panics"),
                      ("deserialize_const", "total on every byte vector (no panic, Err on short/ill-typed input), never grows the input, success consumes >= 1 byte, terminates"),
                      ("deserialize_long / deserialize_bytes", "total; success consumes the header")):
        run.sample({"function": "Deserializer::" + fn_, "ensures": what})
    return unit


def run(run, replay=None):
    from units.C15 import cex as _cex
    run.fallbacks.append(("marshal writer/reader (boundary values, malformed inputs)", lambda: _cex.fallback(run)))
    run.explorations.append(("pyc read back", lambda: _cex.explore_files(run)))
    unit = build(run)
    res = unit.run(rlimit=400, multiple_errors=4)   # a broken field order fails every later stage: a few errors are enough, and enumerating all of them exhausts the solver
    run.add_verus(unit, res, cex_finder=lambda f: find_cex(run, f))
    from units.C15 import kani as k
    k.run_kani(run)


def find_cex(run, failure):
    from units.C15 import cex
    return cex.find_reader(run, failure)
