verus! {
// ---- reader vs writer: the ASSUMED element decoders (inverse of the element encoders) with ghost witnesses
impl Deserializer {
    // @trusted: ASSUMED CALLEE CONTRACT (R12): Deserializer::deserialize_bytes inverts raw_string_into_bytes (its totality is verified above; its value is not)
    #[verifier::external_body]
    pub fn w_dec_bytes(&self, v: &mut Vec<u8>, Ghost(b): Ghost<Seq<u8>>) -> (r: DeserializeResult<Vec<u8>>)
        requires old(v)@.len() >= marshal_bytes(b).len(), old(v)@.subrange(0, marshal_bytes(b).len() as int) == marshal_bytes(b),
        ensures r matches Ok(x) && x@ == b, final(v)@ == old(v)@.subrange(marshal_bytes(b).len() as int, old(v)@.len() as int),
    { unimplemented!() }
    // @trusted: ASSUMED CALLEE CONTRACT (R12): deserialize_const_vec inverts consts_into_bytes (interning caches, recursion: value not carried)
    #[verifier::external_body]
    pub fn w_dec_consts(&mut self, v: &mut Vec<u8>, python_ver: PythonVersion, Ghost(cs): Ghost<Seq<ValueObj>>) -> (r: DeserializeResult<Vec<ValueObj>>)
        requires old(v)@.len() >= consts_enc(cs, python_ver.minor).len(), old(v)@.subrange(0, consts_enc(cs, python_ver.minor).len() as int) == consts_enc(cs, python_ver.minor),
        ensures r matches Ok(x) && x@ == cs, final(v)@ == old(v)@.subrange(consts_enc(cs, python_ver.minor).len() as int, old(v)@.len() as int),
    { unimplemented!() }
    // @trusted: ASSUMED CALLEE CONTRACT (R12): deserialize_str_vec inverts strs_into_bytes
    // @trusted: ASSUMED CALLEE CONTRACT (R12): deserialize_str inverts str_into_bytes
    #[verifier::external_body]
    pub fn w_dec_strs(&mut self, v: &mut Vec<u8>, python_ver: PythonVersion, Ghost(ss): Ghost<Seq<Str>>) -> (r: DeserializeResult<Vec<Str>>)
        requires old(v)@.len() >= strs_enc(ss).len(), old(v)@.subrange(0, strs_enc(ss).len() as int) == strs_enc(ss),
        ensures r matches Ok(x) && x@ == ss, final(v)@ == old(v)@.subrange(strs_enc(ss).len() as int, old(v)@.len() as int),
    { unimplemented!() }
    // @trusted: ASSUMED CALLEE CONTRACT (R12): deserialize_locals inverts CodeObj::dump_locals
    #[verifier::external_body]
    pub fn w_dec_locals(&mut self, v: &mut Vec<u8>, python_ver: PythonVersion, Ghost(a): Ghost<Seq<Str>>, Ghost(b): Ghost<Seq<Str>>, Ghost(c): Ghost<Seq<Str>>) -> (r: DeserializeResult<(Vec<Str>, Vec<Str>, Vec<Str>)>)
        requires old(v)@.len() >= locals_enc(a, b, c, python_ver.minor).len(), old(v)@.subrange(0, locals_enc(a, b, c, python_ver.minor).len() as int) == locals_enc(a, b, c, python_ver.minor),
        ensures r matches Ok(x) && x.0@ == a && x.1@ == b && x.2@ == c, final(v)@ == old(v)@.subrange(locals_enc(a, b, c, python_ver.minor).len() as int, old(v)@.len() as int),
    { unimplemented!() }
    // @trusted: ASSUMED CALLEE CONTRACT (R12): deserialize_str inverts str_into_bytes
    #[verifier::external_body]
    pub fn w_dec_str(&mut self, v: &mut Vec<u8>, python_ver: PythonVersion, Ghost(s): Ghost<Seq<u8>>, Ghost(interned): Ghost<bool>) -> (r: DeserializeResult<Str>)
        requires old(v)@.len() >= marshal_str(s, interned).len(), old(v)@.subrange(0, marshal_str(s, interned).len() as int) == marshal_str(s, interned),
        ensures r matches Ok(x) && x.bytes() == s, final(v)@ == old(v)@.subrange(marshal_str(s, interned).len() as int, old(v)@.len() as int),
    { unimplemented!() }
}
// @trusted: vec![] : empty vector
#[verifier::external_body]
fn w_empty_vec() -> (r: Vec<u8>) ensures r@ == Seq::<u8>::empty() { vec![] }

pub open spec fn t_exc(c: CodeObj, m: Option<u8>, rest: Seq<u8>) -> Seq<u8> { opt(minor_ge(m, 11), marshal_bytes(c.exceptiontable@)) + rest }
pub open spec fn t_lnotab(c: CodeObj, m: Option<u8>, rest: Seq<u8>) -> Seq<u8> { marshal_bytes(c.lnotab@) + t_exc(c, m, rest) }
pub open spec fn t_first(c: CodeObj, m: Option<u8>, rest: Seq<u8>) -> Seq<u8> { le32(c.firstlineno as int) + t_lnotab(c, m, rest) }
pub open spec fn t_qual(c: CodeObj, m: Option<u8>, rest: Seq<u8>) -> Seq<u8> { opt(minor_ge(m, 11), marshal_str(c.qualname.bytes(), true)) + t_first(c, m, rest) }
pub open spec fn t_name(c: CodeObj, m: Option<u8>, rest: Seq<u8>) -> Seq<u8> { marshal_str(c.name.bytes(), true) + t_qual(c, m, rest) }
pub open spec fn t_file(c: CodeObj, m: Option<u8>, rest: Seq<u8>) -> Seq<u8> { marshal_str(c.filename.bytes(), false) + t_name(c, m, rest) }
pub open spec fn t_locals(c: CodeObj, m: Option<u8>, rest: Seq<u8>) -> Seq<u8> { locals_enc(c.varnames@, c.freevars@, c.cellvars@, m) + t_file(c, m, rest) }
pub open spec fn t_names(c: CodeObj, m: Option<u8>, rest: Seq<u8>) -> Seq<u8> { strs_enc(c.names@) + t_locals(c, m, rest) }
pub open spec fn t_consts(c: CodeObj, m: Option<u8>, rest: Seq<u8>) -> Seq<u8> { consts_enc(c.consts@, m) + t_names(c, m, rest) }
pub open spec fn t_code(c: CodeObj, m: Option<u8>, rest: Seq<u8>) -> Seq<u8> { marshal_bytes(c.code@) + t_consts(c, m, rest) }
pub open spec fn t_flags(c: CodeObj, m: Option<u8>, rest: Seq<u8>) -> Seq<u8> { le32(c.flags as int) + t_code(c, m, rest) }
pub open spec fn t_stack(c: CodeObj, m: Option<u8>, rest: Seq<u8>) -> Seq<u8> { le32(c.stacksize as int) + t_flags(c, m, rest) }
pub open spec fn t_nloc(c: CodeObj, m: Option<u8>, rest: Seq<u8>) -> Seq<u8> { opt(!minor_ge(m, 11), le32(c.nlocals as int)) + t_stack(c, m, rest) }
pub open spec fn t_kw(c: CodeObj, m: Option<u8>, rest: Seq<u8>) -> Seq<u8> { le32(c.kwonlyargcount as int) + t_nloc(c, m, rest) }
pub open spec fn t_pos(c: CodeObj, m: Option<u8>, rest: Seq<u8>) -> Seq<u8> { opt(minor_ge(m, 8), le32(c.posonlyargcount as int)) + t_kw(c, m, rest) }
pub open spec fn t_arg(c: CodeObj, m: Option<u8>, rest: Seq<u8>) -> Seq<u8> { le32(c.argcount as int) + t_pos(c, m, rest) }

proof fn lemma_assoc(a: Seq<u8>, b: Seq<u8>, c: Seq<u8>)
    ensures (a + b) + c == a + (b + c)
{ assert(((a + b) + c) =~= (a + (b + c))); }
/// the writer's layout followed by anything, as a right-nested stream (associativity of concatenation, layer by layer)
proof fn lemma_layout_stream(c: CodeObj, m: Option<u8>, rest: Seq<u8>)
    ensures code_layout(c, m) + rest == seq![0xE3u8] + t_arg(c, m, rest)
{
    let la = layout_a(c, m); let lb = layout_b(c, m); let lc = layout_c(c, m); let ld = layout_d(c, m);
    // code_layout = ((ld + F) + L) + E
    let f = le32(c.firstlineno as int); let l = marshal_bytes(c.lnotab@); let e = opt(minor_ge(m, 11), marshal_bytes(c.exceptiontable@));
    lemma_assoc((ld + f) + l, e, rest); lemma_assoc(ld + f, l, e + rest); lemma_assoc(ld, f, l + (e + rest));
    assert(code_layout(c, m) + rest == ld + t_first(c, m, rest));
    // layout_d = (((lc + Loc) + File) + Name) + Q
    let loc = locals_enc(c.varnames@, c.freevars@, c.cellvars@, m); let fi = marshal_str(c.filename.bytes(), false);
    let na = marshal_str(c.name.bytes(), true); let q = opt(minor_ge(m, 11), marshal_str(c.qualname.bytes(), true));
    let t1 = t_first(c, m, rest);
    lemma_assoc(((lc + loc) + fi) + na, q, t1); lemma_assoc((lc + loc) + fi, na, q + t1); lemma_assoc(lc + loc, fi, na + (q + t1)); lemma_assoc(lc, loc, fi + (na + (q + t1)));
    assert(ld + t1 == lc + t_locals(c, m, rest));
    // layout_c = ((((lb + S) + Fl) + Code) + Consts) + Names
    let st = le32(c.stacksize as int); let fl = le32(c.flags as int); let co = marshal_bytes(c.code@); let cs = consts_enc(c.consts@, m); let ns = strs_enc(c.names@);
    let t2 = t_locals(c, m, rest);
    lemma_assoc((((lb + st) + fl) + co) + cs, ns, t2); lemma_assoc(((lb + st) + fl) + co, cs, ns + t2); lemma_assoc((lb + st) + fl, co, cs + (ns + t2));
    lemma_assoc(lb + st, fl, co + (cs + (ns + t2))); lemma_assoc(lb, st, fl + (co + (cs + (ns + t2))));
    assert(lc + t2 == lb + t_stack(c, m, rest));
    // layout_b = (la + Kw) + Nl
    let kw = le32(c.kwonlyargcount as int); let nl = opt(!minor_ge(m, 11), le32(c.nlocals as int));
    let t3 = t_stack(c, m, rest);
    lemma_assoc(la + kw, nl, t3); lemma_assoc(la, kw, nl + t3);
    assert(lb + t3 == la + t_kw(c, m, rest));
    // layout_a = (seq![E3] + Arg) + Pos
    let ar = le32(c.argcount as int); let po = opt(minor_ge(m, 8), le32(c.posonlyargcount as int));
    let t4 = t_kw(c, m, rest);
    lemma_assoc(seq![0xE3u8] + ar, po, t4); lemma_assoc(seq![0xE3u8], ar, po + t4);
    assert(la + t4 == seq![0xE3u8] + t_arg(c, m, rest));
}
proof fn lemma_le32(x: u32)
    ensures le32(x as int).len() == 4,
        le32(x as int)[0] as int + le32(x as int)[1] as int * 256 + le32(x as int)[2] as int * 65536 + le32(x as int)[3] as int * 16777216 == x
{ }
/// reading a 32-bit field off the front of `le32(x) + tail`
proof fn lemma_front32(x: u32, tail: Seq<u8>)
    ensures (le32(x as int) + tail).len() >= 4,
        (le32(x as int) + tail)[0] as int + (le32(x as int) + tail)[1] as int * 256 + (le32(x as int) + tail)[2] as int * 65536 + (le32(x as int) + tail)[3] as int * 16777216 == x,
        (le32(x as int) + tail).subrange(4, (le32(x as int) + tail).len() as int) == tail
{
    lemma_le32(x);
    let s = le32(x as int) + tail;
    assert(s[0] == le32(x as int)[0] && s[1] == le32(x as int)[1] && s[2] == le32(x as int)[2] && s[3] == le32(x as int)[3]);
    assert(s.subrange(4, s.len() as int) =~= tail);
}
/// taking an encoded element off the front of `enc + tail`
proof fn lemma_front(enc: Seq<u8>, tail: Seq<u8>)
    ensures (enc + tail).len() >= enc.len(), (enc + tail).subrange(0, enc.len() as int) == enc, (enc + tail).subrange(enc.len() as int, (enc + tail).len() as int) == tail
{
    assert((enc + tail).subrange(0, enc.len() as int) =~= enc);
    assert((enc + tail).subrange(enc.len() as int, (enc + tail).len() as int) =~= tail);
}

} // verus!
