// C15 reader prelude (hand-written): stubs for what the extracted reader calls, and the byte-sequence view.
use vstd::prelude::*;

verus! {

// @trusted: R1 opaque payload type
#[verifier::external_body]
pub struct Opaque { _p: core::marker::PhantomData<()> }

// @trusted: R2 erased arm body: result unspecified
#[verifier::external_body]
fn ext_opaque_arm<T>() -> T { unimplemented!() }

// @trusted: R3 error values are opaque (message text is not part of any contract)
#[verifier::external_body]
pub struct DeserializeError { _p: core::marker::PhantomData<()> }
pub type DeserializeResult<T> = Result<T, DeserializeError>;
// @trusted: R3 construction of an error value
#[verifier::external_body]
fn ext_deser_error() -> DeserializeError { unimplemented!() }
impl ValueObj {
    // @trusted: `impl HasType for ValueObj { fn ref_t(&self) -> &Type { panic!("cannot get reference of the const") } }` (value.rs): calling it PANICS => precondition false
    #[verifier::external_body]
    fn ref_t(&self) -> (r: &Opaque) requires false { unimplemented!() }
    // @trusted: ValueObj::class (value.rs): a total match over the variants returning the class of the value
    #[verifier::external_body]
    fn class(&self) -> (r: Opaque) { unimplemented!() }
}

pub struct Deserializer { pub _caches: Opaque }
impl Clone for PythonVersion {
    // @trusted: derived Clone/Copy on PythonVersion
    #[verifier::external_body]
    fn clone(&self) -> (r: Self) ensures r == *self { unimplemented!() }
}
impl Copy for PythonVersion {}
// @trusted: Option<u8> comparison `minor >= Some(n)` (None < Some(_))
#[verifier::external_body]
fn w_minor_ge(minor: Option<u8>, n: u8) -> (r: bool) ensures r == (minor matches Some(m) && m >= n) { minor >= Some(n) }

impl Deserializer {
    // @trusted: str_cache.get: interning, returns a Str value (opaque)
    #[verifier::external_body]
    fn get_cached_str(&mut self, s: &String) -> ValueObj { unimplemented!() }
    // @trusted: arr_cache.linear_get: interning, returns a List value (opaque)
    #[verifier::external_body]
    fn get_cached_arr(&mut self, arr: &Vec<ValueObj>) -> ValueObj { unimplemented!() }
    // @trusted: vec_to_bytes<LEN> (6 lines, iterator zip: not expressible in Verus): copies the first LEN bytes; checked by the Kani unit for LEN in {2,4,8}
    #[verifier::external_body]
    pub fn vec_to_bytes<const LEN: usize>(vector: Vec<u8>) -> (r: [u8; LEN])
        ensures forall|i: int| 0 <= i < LEN && i < vector@.len() ==> #[trigger] r@[i] == vector@[i]
    { unimplemented!() }
}

impl Deserializer {
    // @trusted: Deserializer::new creates empty interning caches
    #[verifier::external_body]
    pub fn new() -> Deserializer { unimplemented!() }
    // @trusted: ASSUMED CALLEE CONTRACT deserialize_locals (iterator zip over names/kinds: not expressible in Verus): returns Ok or Err, never grows the input. Its only panicking constructs (assert_eq!, unreachable!) were replaced by error returns in the repair; this is argued by reading, not proved
    #[verifier::external_body]
    pub fn deserialize_locals(&mut self, v: &mut Vec<u8>, python_ver: PythonVersion) -> (r: DeserializeResult<(Vec<Str>, Vec<Str>, Vec<Str>)>)
        ensures final(v)@.len() <= old(v)@.len()
    { unimplemented!() }
}
// @trusted: `v.first() != Some(&x)`: true iff v is empty or its first byte differs from x
#[verifier::external_body]
fn w_first_ne(v: &Vec<u8>, x: u8) -> (r: bool) ensures r == (v@.len() == 0 || v@[0] != x) { v.first() != Some(&x) }

// ---- std wrappers -----------------------------------------------------------------------------
// @trusted: Vec::drain(..n).collect(): removes and returns the first n elements; PANICS if n > len (=> precondition)
#[verifier::external_body]
fn w_drain_front(v: &mut Vec<u8>, n: usize) -> (r: Vec<u8>)
    requires n <= old(v)@.len()
    ensures r@ == old(v)@.subrange(0, n as int), final(v)@ == old(v)@.subrange(n as int, old(v)@.len() as int)
{ v.drain(..n).collect() }
// @trusted: Vec::remove(0): removes and returns the first element; PANICS on an empty vector (=> precondition)
#[verifier::external_body]
fn w_remove_first(v: &mut Vec<u8>) -> (r: u8)
    requires old(v)@.len() > 0
    ensures r == old(v)@[0], final(v)@ == old(v)@.subrange(1, old(v)@.len() as int)
{ v.remove(0) }
// @trusted: Vec::insert(0, x): prepends x
#[verifier::external_body]
fn w_insert_first(v: &mut Vec<u8>, x: u8)
    ensures final(v)@ == seq![x] + old(v)@
{ v.insert(0, x) }
// @trusted: Vec::with_capacity ABORTS the process when the allocation fails; a reader of untrusted input must not size an allocation by a length field it has not checked against the input (=> precondition: small constant, or at most the number of remaining input bytes)
#[verifier::external_body]
fn w_vec_with_capacity<T>(cap: usize, remaining_input: usize) -> (r: Vec<T>)
    requires cap <= 255 || cap <= remaining_input
    ensures r@.len() == 0
{ Vec::with_capacity(cap) }
// @trusted: u32::from_le_bytes
#[verifier::external_body]
fn w_u32_from_le(b: [u8; 4]) -> (r: u32)
    ensures r == b[0] as int + b[1] as int * 256 + b[2] as int * 65536 + b[3] as int * 16777216
{ u32::from_le_bytes(b) }
// @trusted: i32::from_le_bytes (two's complement of the little-endian u32)
#[verifier::external_body]
fn w_i32_from_le(b: [u8; 4]) -> (r: i32)
    ensures r as u32 == (b[0] as int + b[1] as int * 256 + b[2] as int * 65536 + b[3] as int * 16777216) as u32
{ i32::from_le_bytes(b) }
// @trusted: u16::from_le_bytes
#[verifier::external_body]
fn w_u16_from_le(b: [u8; 2]) -> (r: u16) ensures r == b[0] as int + b[1] as int * 256 { u16::from_le_bytes(b) }
// @trusted: f64::from_le_bytes then ValueObj::from(f64): a Float value (bits not modelled in Verus; the round trip of floats is checked by the Kani unit)
#[verifier::external_body]
fn w_float_value_from_le(b: [u8; 8]) -> (r: ValueObj) ensures r is Float { unimplemented!() }
// @trusted: String::from_utf8 with the error converted by `?` (From<FromUtf8Error> for DeserializeError): never panics
#[verifier::external_body]
fn w_string_from_utf8(bytes: Vec<u8>) -> DeserializeResult<String> { unimplemented!() }
// @trusted: DataTypePrefix::from(u8) (serialize.rs, match on `item as char`): result unspecified here (every arm of the reader is considered reachable); the table itself is checked by the Kani unit
#[verifier::external_body]
fn w_prefix_from(b: u8) -> DataTypePrefix { unimplemented!() }
// @trusted: ValueObj::from(CodeObj): wraps the code object
#[verifier::external_body]
fn w_value_from_code(c: CodeObj) -> (r: ValueObj) ensures r is Code { unimplemented!() }


// ---- writer side: strings -----------------------------------------------------------------------
// @trusted: R1 erg_common::Str abstracted by its UTF-8 bytes
#[verifier::external_body]
pub struct Str { _p: core::marker::PhantomData<()> }
impl Clone for Str {
    // @trusted: Str::clone returns an equal string
    #[verifier::external_body]
    fn clone(&self) -> (r: Self) ensures r.bytes() == self.bytes() { unimplemented!() }
}
impl Str {
    pub uninterp spec fn bytes(&self) -> Seq<u8>;
    // @trusted: str::is_ascii: true iff every byte is below 0x80
    #[verifier::external_body]
    pub fn is_ascii(&self) -> (r: bool) ensures r == (forall|i: int| 0 <= i < self.bytes().len() ==> self.bytes()[i] < 0x80) { unimplemented!() }
    // @trusted: str::len: number of UTF-8 bytes
    #[verifier::external_body]
    pub fn len(&self) -> (r: usize) ensures r == self.bytes().len() { unimplemented!() }
    // @trusted: str::as_bytes().to_vec(): the UTF-8 bytes
    #[verifier::external_body]
    pub fn w_bytes_vec(&self) -> (r: Vec<u8>) ensures r@ == self.bytes() { unimplemented!() }
}
// @trusted: u32::to_le_bytes().to_vec()
#[verifier::external_body]
fn w_u32_le_vec(x: u32) -> (r: Vec<u8>)
    ensures r@ == seq![(x % 256) as u8, ((x / 256) % 256) as u8, ((x / 65536) % 256) as u8, (x / 16777216) as u8]
{ x.to_le_bytes().to_vec() }

pub open spec fn le32(x: int) -> Seq<u8> {
    seq![(x % 256) as u8, ((x / 256) % 256) as u8, ((x / 65536) % 256) as u8, (x / 16777216) as u8]
}
pub open spec fn all_ascii(b: Seq<u8>) -> bool { forall|i: int| 0 <= i < b.len() ==> b[i] < 0x80 }
/// CPython marshal.c w_object for str: TYPE_SHORT_ASCII(_INTERNED) with FLAG_REF for short ASCII, else TYPE_UNICODE + byte length
pub open spec fn marshal_str(b: Seq<u8>, interned: bool) -> Seq<u8> {
    if all_ascii(b) && b.len() <= 255 {
        seq![if interned { 0xDAu8 } else { 0xFAu8 }, b.len() as u8] + b
    } else {
        seq![0x75u8] + le32(b.len() as int) + b
    }
}
/// TYPE_STRING: 's' + byte length + payload
pub open spec fn marshal_bytes(b: Seq<u8>) -> Seq<u8> { seq![0x73u8] + le32(b.len() as int) + b }

// ---- writer of code objects: the field layout of CPython's marshal.c (w_object, TYPE_CODE) per target version --------------
/// encodings of the compound fields: written by their own functions (consts_into_bytes, strs_into_bytes, CodeObj::dump_locals),
/// which are not part of this contract (iterator/closure code) - uninterpreted here, so that only ORDER and PRESENCE are pinned
/// marshal.c w_object for a tuple: TYPE_SMALL_TUPLE ')' + 1-byte length up to 255 elements, TYPE_TUPLE '(' + 4-byte length above
pub open spec fn tuple_header(n: nat) -> Seq<u8> {
    if n > 255 { seq![0x28u8] + le32(n as int) } else { seq![0x29u8, n as u8] }
}
/// encoding of one constant: ValueObj::into_bytes (scalar arms verified by the Kani unit; uninterpreted here)
pub uninterp spec fn val_enc(v: ValueObj, minor: Option<u8>) -> Seq<u8>;
pub open spec fn consts_body(c: Seq<ValueObj>, minor: Option<u8>) -> Seq<u8>
    decreases c.len()
{
    if c.len() == 0 { Seq::<u8>::empty() } else { consts_body(c.drop_last(), minor) + val_enc(c.last(), minor) }
}
#[verifier::opaque]
pub open spec fn consts_enc(c: Seq<ValueObj>, minor: Option<u8>) -> Seq<u8> { tuple_header(c.len()) + consts_body(c, minor) }
pub open spec fn strs_body(s: Seq<Str>) -> Seq<u8>
    decreases s.len()
{
    if s.len() == 0 { Seq::<u8>::empty() } else { strs_body(s.drop_last()) + marshal_str(s.last().bytes(), true) }
}
/// a tuple of interned names
#[verifier::opaque]
pub open spec fn strs_enc(s: Seq<Str>) -> Seq<u8> { tuple_header(s.len()) + strs_body(s) }
pub uninterp spec fn locals_enc_311(varnames: Seq<Str>, freevars: Seq<Str>, cellvars: Seq<Str>) -> Seq<u8>;
/// marshal.c before 3.11: co_varnames, co_freevars, co_cellvars, each a tuple of strings; from 3.11: localsplusnames + localspluskinds
pub open spec fn locals_enc(varnames: Seq<Str>, freevars: Seq<Str>, cellvars: Seq<Str>, minor: Option<u8>) -> Seq<u8> {
    if minor matches Some(m) && m >= 11 { locals_enc_311(varnames, freevars, cellvars) } else { strs_enc(varnames) + strs_enc(freevars) + strs_enc(cellvars) }
}
pub open spec fn minor_ge(minor: Option<u8>, n: u8) -> bool { minor matches Some(m) && m >= n }
pub open spec fn opt(cond: bool, s: Seq<u8>) -> Seq<u8> { if cond { s } else { Seq::<u8>::empty() } }
/// marshal.c: 3.7: argcount kwonlyargcount nlocals stacksize flags code consts names varnames freevars cellvars filename name
/// firstlineno lnotab; 3.8-3.10: + posonlyargcount after argcount; 3.11: nlocals dropped, varnames/freevars/cellvars replaced by
/// localsplusnames + localspluskinds, + qualname after name, + exceptiontable after the line table
pub open spec fn layout_a(c: CodeObj, minor: Option<u8>) -> Seq<u8> {
    seq![0xE3u8] + le32(c.argcount as int) + opt(minor_ge(minor, 8), le32(c.posonlyargcount as int))   // TYPE_CODE | FLAG_REF, as CPython writes a code object
}
pub open spec fn layout_b(c: CodeObj, minor: Option<u8>) -> Seq<u8> {
    layout_a(c, minor) + le32(c.kwonlyargcount as int) + opt(!minor_ge(minor, 11), le32(c.nlocals as int))
}
pub open spec fn layout_c(c: CodeObj, minor: Option<u8>) -> Seq<u8> {
    layout_b(c, minor) + le32(c.stacksize as int) + le32(c.flags as int) + marshal_bytes(c.code@) + consts_enc(c.consts@, minor) + strs_enc(c.names@)
}
pub open spec fn layout_d(c: CodeObj, minor: Option<u8>) -> Seq<u8> {
    layout_c(c, minor) + locals_enc(c.varnames@, c.freevars@, c.cellvars@, minor) + marshal_str(c.filename.bytes(), false)
        + marshal_str(c.name.bytes(), true) + opt(minor_ge(minor, 11), marshal_str(c.qualname.bytes(), true))
}
pub open spec fn code_layout(c: CodeObj, minor: Option<u8>) -> Seq<u8> {
    layout_d(c, minor) + le32(c.firstlineno as int) + marshal_bytes(c.lnotab@) + opt(minor_ge(minor, 11), marshal_bytes(c.exceptiontable@))
}
impl Clone for ValueObj {
    // @trusted: derived Clone on ValueObj returns an equal value (used only by rule R11: by-value iteration -> indexed loop over clones)
    #[verifier::external_body]
    fn clone(&self) -> (r: Self) ensures r == *self { unimplemented!() }
}
impl ValueObj {
    // @trusted: ASSUMED CALLEE CONTRACT ValueObj::into_bytes: its output is what val_enc names (scalar arms are verified against the marshal format by the Kani unit)
    #[verifier::external_body]
    fn into_bytes(self, python_ver: PythonVersion) -> (r: Vec<u8>) ensures r@ == val_enc(self, python_ver.minor) { unimplemented!() }
}
impl CodeObj {
    // @trusted: ASSUMED (R2b: erased branch) the 3.11 branch of CodeObj::dump_locals (iterator filter / concat: localsplusnames + localspluskinds): appends what locals_enc_311 names and nothing else
    #[verifier::external_body]
    fn ext_dump_locals_311(varnames: Vec<Str>, freevars: Vec<Str>, cellvars: Vec<Str>, bytes: &mut Vec<u8>)
        ensures final(bytes)@ == old(bytes)@ + locals_enc_311(varnames@, freevars@, cellvars@)
    { unimplemented!() }
}
// @trusted: vec![x]
#[verifier::external_body]
fn w_vec1(x: u8) -> (r: Vec<u8>) ensures r@ == seq![x] { vec![x] }

} // verus!
