"""C21 (BOUNDED stand-in, not a proof): run-time-checked contracts on the real ModuleGraph / tsort.

No deductive back end reaches these functions (Kani does not terminate on hashbrown's probe loops - a 2-node tsort ran
25 min without result; Verus rejects `iter().find(closure)`, `for x in set.iter()`, `iter_mut()`, `retain(closure)`, which is
what these functions consist of). The contracts are therefore executable predicates (replay/src/c21.rs) over an abstract view
(vertex set, edge set) and are checked after EVERY operation of EVERY operation sequence up to a stated length."""
import json
import subprocess
import time

from vlib import replay
from vlib.snippet import Undecided
from vlib.extract import Source


def run(run, replay_path=None, replay=None):
    from vlib import replay as rp
    # the functions under (run-time-checked) contract must still be there
    g = Source(run.repo, 'crates/erg_compiler/module/graph.rs')
    t = Source(run.repo, 'crates/erg_common/tsort.rs')
    fns = []
    for f in ('get_node', 'depends_on', 'deep_depends_on', 'children', 'parents', 'ancestors', 'add_node_if_none', 'inc_ref', 'sorted', 'remove', 'rename_path'):
        fns.append(g.fn(f, impl=r'ModuleGraph').describe())
    for f in ('dfs', 'tsort', 'reorder_by_key'):
        fns.append(t.fn(f).describe())
    run.functions.extend(fns)
    binary = rp.build(run, 'c21')
    configs = [(3, 4, ''), (3, 3, 'raw'), (4, 3, 'raw')] if run.tier != 'thorough' else [(3, 5, ''), (4, 4, ''), (3, 4, 'raw'), (4, 3, 'raw')]
    run.level = 'exploration'
    total_seq = total_checks = distinct = 0
    samples = []
    t0 = time.time()
    for (n, ln, raw) in configs:
        p = subprocess.run([binary, str(n), str(ln)] + ([raw] if raw else []), capture_output=True, text=True, timeout=7200)
        try:
            js = json.loads(p.stdout.strip().split('\n')[-1])
        except Exception:
            raise Undecided("c21 exploration produced no result: " + p.stderr[-400:])
        total_seq += js["sequences"]
        total_checks += js["checks"]
        distinct += js["distinct_graphs_with_edges"]
        samples += js["samples"]
        for v in js["violations"]:
            what, _, trace = v.partition(' | trace: ')
            key = "ModuleGraph|contract|" + what.split(':')[0].split('(')[0].replace('after ', '').strip() + '|' + what.split(': ', 1)[-1].split('(')[0][:40]
            run.add_obligation(key, 'runtime-contract', False,
                               detail={"msg": v},
                               cex={"found": True, "how": "exhaustive enumeration of operation sequences on the real ModuleGraph against a reference graph",
                                    "input": {"operation_sequence": trace, "paths": n}, "real_result": what, "oracle": "plain reference graph (vertex set, edge set)",
                                    "verdict": "a query or postcondition disagrees with the reference graph",
                                    "replay_cmd": "%s %d %d %s  # enumerates; the failing history is: %s" % (binary, n, ln, raw, trace)})
        if not js["violations"]:
            run.add_obligation("all sequences up to length %d over %d paths%s" % (ln, n, " incl. inc_ref to unregistered targets" if raw else ""), 'runtime-contract', True, cmd="%s %d %d %s" % (binary, n, ln, raw))
    run.solver_time_s = time.time() - t0
    run.bounded_note = "all operation sequences up to the stated length over the stated number of module paths; nothing beyond that bound is covered"
    run.extra.update({
        "evaluations": total_seq,
        "distinct_nontrivial": distinct,
        "rule": "every sequence of operations from {add_node_if_none(p), inc_ref(a, b), remove(p), rename_path(p, fresh), sort} up to length L over N paths (quick: %s); after every operation: registered modules, get_node, depends_on, deep_depends_on, ancestors, children for every path (pair) are compared with a reference graph; inc_ref refused <=> the edge closes a cycle and then the edge set is unchanged; sorted lists every module after its dependencies, fails only on a cycle. distinct_nontrivial = distinct final reference graphs with at least one edge." % (configs,),
        "samples": samples[:6] or ["(none)"],
        "exhaustive": True,
        "postcondition_checks": total_checks,
    })
    run.samples = samples[:6]
    run.assumptions.append("BOUNDED: exhaustive only up to the stated sequence length and number of paths; run-time-checked contracts, not a deductive proof. Two op sets: the usual one registers an import target before inc_ref; the 'raw' one also calls inc_ref with an unregistered target (sort may then answer KeyNotFound, which is accepted). Rename targets are fresh paths.")
