"""C21: (1) Verus unit on the real text of erg_common/tsort.rs (dfs, tsort, the error constructors): the topological order and
the cycle report, for every graph, with termination; (2) BOUNDED stand-in (not a proof): run-time-checked contracts on the real
ModuleGraph operations.

ModuleGraph::get_node / get_mut_node / parents / depends_on / deep_depends_on / ancestors / add_node_if_none / inc_ref / remove / rename_path are under contract in a second Verus unit (units/C21/graph.py).
No deductive back end reaches the others (Kani does not terminate on hashbrown's probe loops - a 2-node tsort ran 25 min without
result; Verus rejects what children/sorted consist of: iterator filter chains, collect into a Dict). Their contracts are therefore executable predicates (replay/src/c21.rs) over an abstract view
(vertex set, edge set) and are checked after EVERY operation of EVERY operation sequence up to a stated length."""
import json
import os
import re
import subprocess
import time

from vlib import replay
from vlib.snippet import Undecided
from vlib.extract import Source
from vlib.snippet import Snippet
from vlib.verus_unit import VerusUnit
from vlib import rules

HERE = os.path.dirname(os.path.abspath(__file__))
TSORT = 'crates/erg_common/tsort.rs'

DFS_SPEC = """requires
        order_ok(g@, old(used)@, old(idx)@),
        !old(used)@.contains(v),
        // the vertices that are being visited (used, not yet listed) are the ancestors of v on the current search path
        forall|x: u64| gray(old(used)@, old(idx)@, x) ==> reach(g@, x, v),
    ensures
        res.is_ok() ==> {
            &&& order_ok(g@, final(used)@, final(idx)@)
            &&& old(used)@.subset_of(final(used)@)
            &&& old(idx)@.is_prefix_of(final(idx)@)
            &&& final(idx)@.contains(v)
            &&& forall|x: u64| #![trigger gray(final(used)@, final(idx)@, x)] #![trigger gray(old(used)@, old(idx)@, x)] gray(final(used)@, final(idx)@, x) <==> gray(old(used)@, old(idx)@, x)
        },
        // a cycle is reported only when there is one
        res matches Err(e) && e.kind == TopoSortErrorKind::CyclicReference ==> has_cycle(g@),
        res matches Err(e) && e.kind == TopoSortErrorKind::KeyNotFound ==> exists|x: u64| (x == v || reach(g@, v, x)) && !has_node(g@, x),
    decreases unused(g@, old(used)@).len(),"""

DFS_LOOP = """invariant
            verif_i <= verif_elems.len(),
            has_node(g@, v),
            forall|x: u64| #![trigger deps(g@, v).contains(x)] #![trigger verif_elems@.contains(x)] deps(g@, v).contains(x) <==> verif_elems@.contains(x),
            order_ok(g@, used@, idx@),
            verif_used0.insert(v).subset_of(used@),
            verif_idx0.is_prefix_of(idx@),
            !idx@.contains(v),
            !verif_used0.contains(v), verif_used0 == old(used)@, verif_idx0 == old(idx)@,
            forall|x: u64| #![trigger gray(used@, idx@, x)] #![trigger gray(verif_used0, verif_idx0, x)] gray(used@, idx@, x) <==> (gray(verif_used0, verif_idx0, x) || x == v),
            forall|x: u64| gray(verif_used0, verif_idx0, x) ==> reach(g@, x, v),
            forall|j: int| 0 <= j < verif_i ==> idx@.contains(verif_elems@[j]),
        decreases verif_elems.len() - verif_i,"""

TSORT_SPEC = """ensures
        // Ok: the same nodes, every node after the nodes it depends on - and then there is no cycle
        res matches Ok(r) ==> r@.to_multiset() == g@.to_multiset() && sorted_ok(g@, r@) && !has_cycle(g@),
        // a cycle is reported only when there is one
        res matches Err(e) && e.kind == TopoSortErrorKind::CyclicReference ==> has_cycle(g@),
        // KeyNotFound only for a dependency that is not a node of the graph
        res matches Err(e) && e.kind == TopoSortErrorKind::KeyNotFound ==> exists|a: u64, x: u64| has_node(g@, a) && reach(g@, a, x) && !has_node(g@, x),"""

TSORT_LOOP = """invariant
            verif_k <= g.len(),
            order_ok(g@, used@, idx@),
            forall|x: u64| !gray(used@, idx@, x),
            forall|j: int| 0 <= j < verif_k ==> idx@.contains(#[trigger] g@[j].id),
        decreases g.len() - verif_k,"""


def mono(sn, generics_re):
    """R5: T := u64, U := () (the functions use T only through Eq + Hash + Clone + Debug, U not at all)."""
    sn.rw('R5', generics_re, '', expect=1)
    sn.rw('R5', r'\bGraph<T, U>', 'Graph', expect='*')
    sn.rw('R5', r'\bSet<T>', 'ErgSet', expect='*')
    sn.rw('R5', r'\bVec<T>', 'Vec<u64>', expect='*')
    sn.rw('R5', r':\s*T\b', ': u64', expect='*')
    sn.rw('R5', r':\s*U\b', ': ()', expect='*')


def build_verus(run):
    src = Source(run.repo, TSORT)
    unit = VerusUnit('C21', run.scratch)
    unit.raw_file(os.path.join(HERE, 'prelude.rs'))
    unit.raw("verus! {\n")
    node = Snippet(src.item('struct', 'Node'), 'struct Node')
    mono(node, r'<T: Eq \+ Hash \+ Immutable, U>')
    unit.add(node)
    kind = Snippet(src.item('enum', 'TopoSortErrorKind'), 'enum TopoSortErrorKind')
    unit.raw("#[derive(Clone, Copy, PartialEq, Eq)]\n")
    unit.add(kind)
    err = Snippet(src.item('struct', 'TopoSortError'), 'struct TopoSortError')
    unit.add(err)
    unit.raw("impl TopoSortError {\n")
    for (f, post) in (('new', 'res.kind == kind'), ('key_not_found', 'res.kind == TopoSortErrorKind::KeyNotFound'), ('cycle_detected', 'res.kind == TopoSortErrorKind::CyclicReference')):
        sn = Snippet(src.fn(f, impl=r'TopoSortError'), 'TopoSortError::' + f)
        sn.contract("ensures %s," % post)
        unit.add(sn)
    unit.raw("}\n")
    # ---- reorder_by_key: std's stable sort by the position in idx. Its body stays unverified (assumed contract); what IS checked
    # at the call site is the precondition that makes the `.unwrap()` inside the key closure safe.
    rk = Snippet(src.fn('reorder_by_key'), 'reorder_by_key')
    mono(rk, r'<T: Eq \+ Hash \+ Immutable, U>')
    rk.rw('R7', r'\(mut g: Graph,', '(g: Graph,', expect=1)
    rk.rw('R7', r'\{\s*g\.sort_by_key', '{ let mut g = g; g.sort_by_key', expect=1)
    rk.kani_attrs("// @trusted: std contract of slice::sort_by_key (stable, a permutation ordered by the key) with key = Iterator::position (first index); body not verified\n#[verifier::external_body]")
    rk.contract("""requires forall|i: int| 0 <= i < g@.len() ==> idx@.contains(#[trigger] g@[i].id),   // position(..).unwrap() never fails
    ensures
        res@.to_multiset() == g@.to_multiset(),
        forall|a: int, b: int| 0 <= a < b < res@.len() ==> first_pos(idx@, res@[a].id) <= first_pos(idx@, res@[b].id),""")
    unit.add(rk)
    # ---- dfs (and a vacuity probe: the same text and proof under the same precondition with `ensures false` must be rejected)
    for probe in (False, True):
        dfs = Snippet(src.fn('dfs'), 'vacuity-probe dfs' if probe else 'dfs')
        mono(dfs, r'<T: Eq \+ Hash \+ Clone \+ Debug \+ Immutable, U: Debug>')
        rules.diagnostics(dfs)
        dfs.rw('R4', r'g\.iter\(\)\.find\(\|(\w+)\| \1\.id == v\)', 'w_find_node(g, v)', expect=1)
        dfs.rw('R4', r'\bidx\.contains\((\w+)\)', r'w_vec_contains(idx, \1)', expect='*')
        # the locals are called whatever the code calls them: D = the dependency visited by the loop, V = the node found for v
        mloop = re.search(r'for (\w+) in (\w+)\.depends_on\.iter\(\) \{', dfs.text)
        if not mloop:
            raise Undecided("dfs: the loop over the dependencies of the vertex was not found")
        D, V = mloop.group(1), mloop.group(2)
        dfs.rw('R11', r'for %s in %s\.depends_on\.iter\(\) \{' % (D, V),
               'let verif_elems = w_set_elems(&%s.depends_on);\n    let mut verif_i: usize = 0;\n    while verif_i < verif_elems.len() {\n        let %s = &verif_elems[verif_i]; verif_i = verif_i + 1;' % (V, D), expect=1)
        if probe:
            dfs.rename_fn('dfs__vacuity_probe')
            run.extra.setdefault('vacuity_probe_labels', []).append(dfs.label)
        dfs.contract(DFS_SPEC.split('ensures')[0] + 'ensures false,' if probe else DFS_SPEC)
        dfs.body_prologue("let ghost verif_used0 = used@; let ghost verif_idx0 = idx@;")
        dfs.insert_at(r'let mut verif_i: usize = 0;', "    proof { if verif_idx0.contains(v) { lemma_order_listed_used(g@, verif_used0, verif_idx0, v); } lemma_order_used(g@, verif_used0, used@, idx@); }", where='before')
        dfs.loop_spec(0, DFS_LOOP)
        dfs.insert_at(r'verif_i = verif_i \+ 1;', ("""        proof {
            assert(verif_elems@.contains(*node_id)); lemma_edge_intro(g@, v, *node_id);
            // a dependency that is being visited (used, not yet listed) closes a cycle
            if gray(used@, idx@, *node_id) { if *node_id == v { lemma_self_cycle(g@, v); } else { lemma_cycle(g@, *node_id, v); } }
        }""").replace('node_id', D), where='after')
        CALL = r'dfs\(g, %s\.clone\(\), used, idx\)\?;' % D
        dfs.insert_at(CALL, ("""            proof {
                    assert forall|x: u64| gray(used@, idx@, x) implies reach(g@, x, *node_id) by {
                        if x == v { lemma_reach_refl_edge(g@, v, *node_id); } else { lemma_reach_step(g@, x, v, *node_id); }
                    }
                    // whatever unregistered vertex the callee reaches from node_id is reached from v
                    assert forall|x: u64| !#[trigger] has_node(g@, x) && (x == *node_id || reach(g@, *node_id, x)) implies reach(g@, v, x) by {
                        lemma_reach_prepend(g@, v, *node_id, x);
                    }
                    lemma_unused_dec(g@, verif_used0, used@, v);
                    assert(unused(g@, used@).len() < unused(g@, verif_used0).len());
                }
                let ghost verif_idx1 = idx@;
                let ghost verif_used1 = used@;""").replace('node_id', D), where='before')
        dfs.insert_at(CALL, """            proof {
                    assert(gray(verif_used1, verif_idx1, v));
                    assert forall|j: int| 0 <= j < verif_i implies idx@.contains(verif_elems@[j]) by {
                        if j < verif_i - 1 { lemma_prefix_contains(verif_idx1, idx@, verif_elems@[j]); }
                    }
                }""", where='after')
        dfs.insert_at(r'idx\.push\(', """    proof {
            assert forall|d: u64| deps(g@, v).contains(d) implies idx@.contains(d) by {
                let e = choose|e: int| 0 <= e < verif_elems@.len() && verif_elems@[e] == d;
                assert(idx@.contains(verif_elems@[e]));
            }
            lemma_order_push(g@, used@, idx@, v);
            lemma_push_contains(idx@, v);
        }""", where='before')
        dfs.insert_at(r'idx\.push\(', "    proof { assert(idx@[idx@.len() - 1] == v); }", where='after')
        unit.add(dfs)
    # ---- tsort (and its vacuity probe)
    for probe in (False, True):
        ts = Snippet(src.fn('tsort'), 'vacuity-probe tsort' if probe else 'tsort')
        rules.strip_vis_attrs(ts)
        mono(ts, r'<T: Eq \+ Hash \+ Clone \+ Debug \+ Immutable, U: Debug>')
        ts.rw('R5', r'\bSet::new\(\)', 'ErgSet::new()', expect=1)
        mt = re.search(r'for (\w+) in g\.iter\(\) \{', ts.text)
        if not mt:
            raise Undecided("tsort: the loop over the nodes was not found")
        N = mt.group(1)   # the loop variable, whatever it is called
        ts.rw('R11', r'for %s in g\.iter\(\) \{' % N, 'let mut verif_k: usize = 0;\n    while verif_k < g.len() {\n        let %s = &g[verif_k]; verif_k = verif_k + 1;' % N, expect=1)
        if probe:
            ts.rename_fn('tsort__vacuity_probe')
            run.extra.setdefault('vacuity_probe_labels', []).append(ts.label)
        ts.contract('ensures false,' if probe else TSORT_SPEC)
        ts.insert_at(r'let mut verif_k: usize = 0;', "    proof { reveal(order_ok); }", where='before')
        ts.loop_spec(0, TSORT_LOOP)
        ts.insert_at(r'verif_k = verif_k \+ 1;', "        proof { assert(!gray(used@, idx@, %s.id)); }" % N, where='after')
        TCALL = r'dfs\(&g, %s\.id\.clone\(\), &mut used, &mut idx\)\?;' % N
        ts.insert_at(TCALL, """            let ghost verif_idx1 = idx@;
                proof {
                    lemma_has_node(g@, verif_k - 1);
                    assert forall|x: u64| !#[trigger] has_node(g@, x) && (x == v.id || reach(g@, v.id, x)) implies has_node(g@, v.id) && reach(g@, v.id, x) by { }
                }""".replace('v.id', N + '.id'), where='before')
        ts.insert_at(TCALL, """            proof {
                    assert forall|j: int| 0 <= j < verif_k implies idx@.contains(#[trigger] g@[j].id) by {
                        if j < verif_k - 1 { lemma_prefix_contains(verif_idx1, idx@, g@[j].id); }
                    }
                }""", where='after')
        ts.insert_at(r'Ok\(reorder_by_key\(g, idx\)\)', """    proof {
            assert forall|x: u64| has_node(g@, x) implies idx@.contains(x) by {
                reveal(has_node);
                let i = choose|i: int| 0 <= i < g@.len() && g@[i].id == x;
                assert(idx@.contains(g@[i].id));
            }
            lemma_order_acyclic(g@, used@, idx@);
            assert forall|r: Seq<Node>| r.to_multiset() == g@.to_multiset()
                && (forall|a: int, b: int| 0 <= a < b < r.len() ==> first_pos(idx@, r[a].id) <= first_pos(idx@, r[b].id)) implies #[trigger] sorted_ok(g@, r) by {
                lemma_sorted(g@, used@, idx@, r);
            }
        }""", where='before')
        unit.add(ts)
    unit.raw("} // verus!\n")
    run.sample({"function": "tsort", "ensures": "Ok(r): r is a permutation of the nodes and every node comes after every node it depends on (hence no cycle); Err(CyclicReference) only if the graph has a cycle; Err(KeyNotFound) only if some dependency is not a node; terminates"})
    run.sample({"function": "dfs", "ensures": "keeps the order invariant (no duplicates, dependencies listed first), lists v, leaves the search path unchanged; a reported cycle is a real one (the vertices being visited all reach v); terminates (the number of unvisited nodes decreases)"})
    return unit


def tsort_replay(run, n=3):
    """E-R: the contract of the real tsort checked at run time on every graph with n nodes (every rotation, unregistered dependency
    included). Returns a counterexample dict."""
    from vlib import replay as rp
    binary = rp.build(run, 'c21t', deps=('erg_common',))
    p = subprocess.run([binary, str(n)], capture_output=True, text=True, timeout=3600)
    try:
        js = json.loads(p.stdout.strip().split('\n')[-1])
    except Exception:
        return {"found": False, "note": "tsort replay produced no result: " + p.stderr[-300:]}
    run.extra["tsort_replay_graphs"] = run.extra.get("tsort_replay_graphs", 0) + js["graphs"]
    if js["violations"]:
        v = js["violations"][0]
        return {"found": True, "how": "the real erg_common::tsort::tsort run on every graph with %d nodes" % n, "input": v.split(': ')[0],
                "real_result": v.split(': ', 1)[-1], "oracle": "reachability in the dependency relation (cycle / unregistered dependency / order)",
                "verdict": "tsort breaks its contract: " + v[:200], "replay_cmd": "%s %d" % (binary, n), "all": js["violations"]}
    return {"found": False, "note": "all %d graphs with %d nodes satisfy the contract" % (js["graphs"], n)}


def run_verus(run):
    run.fallbacks.append(("tsort", lambda: tsort_replay(run, 3)))
    if run.tier == 'thorough':
        run.explorations.append(("tsort (all graphs with 4 nodes)", lambda: tsort_replay(run, 4)))
    unit = build_verus(run)
    res = unit.run(rlimit=60)
    run.add_verus(unit, res, cex_finder=lambda f: tsort_replay(run, 3), expect_fail=tuple(run.extra.get('vacuity_probe_labels', ())))


def explore_graph_ops(run):
    """BOUNDED stand-in for the ModuleGraph operations (not counted as proved): every operation sequence up to a stated length over a
    stated number of paths on the real ModuleGraph against a reference graph. Returns {"findings": [...]}."""
    from vlib import replay as rp
    binary = rp.build(run, 'c21')
    configs = [(3, 4, ''), (3, 3, 'raw'), (4, 3, 'raw')] if run.tier != 'thorough' else [(3, 5, ''), (4, 4, ''), (3, 4, 'raw'), (4, 3, 'raw')]
    total_seq = total_checks = distinct = 0
    samples = []
    findings = []
    for (n, ln, raw) in configs:
        p = subprocess.run([binary, str(n), str(ln)] + ([raw] if raw else []), capture_output=True, text=True, timeout=7200)
        try:
            js = json.loads(p.stdout.strip().split('\n')[-1])
        except Exception:
            return {"found": False, "note": "c21 exploration produced no result: " + p.stderr[-400:]}
        total_seq += js["sequences"]
        total_checks += js["checks"]
        distinct += js["distinct_graphs_with_edges"]
        samples += js["samples"]
        for v in js["violations"]:
            what, _, trace = v.partition(' | trace: ')
            key = what.split(':')[0].split('(')[0].replace('after ', '').strip() + '|' + what.split(': ', 1)[-1].split('(')[0][:40]
            if any(f["key"] == key for f in findings):
                continue
            findings.append({"key": key, "how": "exhaustive enumeration of operation sequences on the real ModuleGraph against a reference graph",
                             "input": {"operation_sequence": trace, "paths": n}, "real_result": what, "oracle": "plain reference graph (vertex set, edge set)",
                             "verdict": "a query or postcondition disagrees with the reference graph: " + what[:160],
                             "replay_cmd": "%s %d %d %s  # enumerates; the failing history is: %s" % (binary, n, ln, raw, trace)})
    run.extra["bounded_contract_on_module_graph_operations"] = {
        "operation_sequences": total_seq, "postcondition_checks": total_checks, "distinct_final_graphs_with_edges": distinct, "exhaustive_within_bound": True,
        "rule": "every sequence of operations from {add_node_if_none(p), inc_ref(a, b), remove(p), rename_path(p, fresh), sort} up to length L over N paths (%s as (N, L, op set)); after every operation: registered modules, get_node, depends_on, deep_depends_on, ancestors, children for every path (pair) are compared with a reference graph; inc_ref refused <=> the edge closes a cycle and then the edge set is unchanged; sorted lists every module after its dependencies, fails only on a cycle; the path index agrees with the node vector" % (configs,),
        "samples": samples[:6]}
    return {"findings": findings, "found": bool(findings), "note": "%d operation sequences, %d postcondition checks, no disagreement" % (total_seq, total_checks) if not findings else None}


def run(run, replay_path=None, replay=None):
    # the functions under (run-time-checked, bounded) contract must still be there
    g = Source(run.repo, 'crates/erg_compiler/module/graph.rs')
    fns = []
    for f in ('children', 'sorted'):
        d = g.fn(f, impl=r'ModuleGraph').describe()
        d["unit_label"] = "ModuleGraph::%s (BOUNDED run-time-checked contract only)" % f
        fns.append(d)
    run.functions.extend(fns)
    # textual anchor: ModuleGraph::sorted is tsort on the node vector (so the proved contract of tsort is the contract of sort)
    srt = g.fn('sorted', impl=r'ModuleGraph').text
    if not re.search(r'tsort\(self\.graph\)', srt):
        raise Undecided("ModuleGraph::sorted no longer calls tsort(self.graph): the proved contract of tsort does not carry over")
    run.level = 'proof'
    run.explorations.append(("ModuleGraph", lambda: explore_graph_ops(run)))
    run_verus(run)
    from units.C21 import graph as _graph

    def graph_finder(f):
        r = explore_graph_ops(run)
        fs = r.get("findings") or []
        return dict(fs[0], found=True) if fs else {"found": False, "note": r.get("note")}
    _graph.run_graph(run, graph_finder)
    run.bounded_note = "ModuleGraph::get_node, get_mut_node, parents, depends_on, deep_depends_on, ancestors, add_node_if_none, inc_ref, remove and rename_path are under contract (Verus); children, sort's index rebuild and the other queries are covered only by the bounded run-time-checked contract (coverage.bounded_contract_on_module_graph_operations): all operation sequences up to the stated length over the stated number of paths; not counted in the obligations"
    run.assumptions.append("ModuleGraph::get_node / get_mut_node / depends_on / add_node_if_none / inc_ref / remove / rename_path (proved): deep_depends_on(_) is unfolded by rule R11a (Option::map/unwrap_or, short-circuit ||, Iterator::any -> match, early return, indexed loop over the set's elements) and its visited set holds ids instead of references; paths are u64 ids (R5: NormalizedPathBuf is used only through Eq + Hash + Clone); the hash map `index` and the hash sets are abstract finite maps / sets with assumed contracts (get, insert, remove; values_mut() as a loop over the keys with load/store, rule R11m; Set::retain(|p| p != path) on one node as an assumed wrapper); Path::is_dir is an arbitrary predicate and the claim is for non-directory paths (a directory path is ignored, or panics in debug builds, by design); fewer than usize::MAX nodes.")
    run.assumptions.append("The other ModuleGraph operations and queries (children, the index rebuilt by sorted): BOUNDED run-time-checked contracts only (exhaustive up to the stated sequence length and number of paths), not a deductive proof. Two op sets: the usual one registers an import target before inc_ref; the 'raw' one also calls inc_ref with an unregistered target (sort may then answer KeyNotFound, which is accepted). Rename targets are fresh paths.")
    run.assumptions.append("tsort: hash set (erg_common::set::Set) seen as a mathematical set with the contracts of new/insert/contains/iter assumed; Iterator::find, slice::contains and reorder_by_key (slice::sort_by_key with Iterator::position as key) carry assumed std contracts; T := u64, U := () (rule R5; the code uses T only through Eq + Hash + Clone + Debug). ModuleGraph::sorted rebuilding `index` from the sorted vector (iterator chain into a Dict) is covered by the bounded contract only.")
