// C21 prelude (hand-written): the hash set wrapper of erg_common::set as an abstract set (assumed contracts), std combinators
// used by tsort.rs as wrappers with assumed contracts (rule R4), and the specification of a topological order.
use vstd::prelude::*;
verus! {

/// R5: `Set<T>` (erg_common::set::Set, a wrapper of a hash set) with T := u64, seen as the mathematical set of its elements.
// @trusted: R5 abstract view of erg_common::set::Set<u64> (hash set wrapper)
#[verifier::external_body]
pub struct ErgSet { inner: std::collections::HashSet<u64> }
impl ErgSet {
    pub uninterp spec fn view(&self) -> Set<u64>;
    // @trusted: contract of Set::new (empty)
    #[verifier::external_body]
    pub fn new() -> (r: ErgSet) ensures r@ == Set::<u64>::empty() { ErgSet { inner: std::collections::HashSet::new() } }
    // @trusted: contract of Set::insert (hash set insertion)
    #[verifier::external_body]
    pub fn insert(&mut self, v: u64) -> (b: bool) ensures final(self)@ == old(self)@.insert(v), b == !old(self)@.contains(v) { self.inner.insert(v) }
    // @trusted: contract of Set::contains (hash set membership)
    #[verifier::external_body]
    pub fn contains(&self, v: &u64) -> (b: bool) ensures b == self@.contains(*v) { self.inner.contains(v) }
}
/// R11: `for x in set.iter()` is rewritten into an indexed loop over the elements in iteration order; the order is
/// arbitrary, every element occurs.
// @trusted: contract of Set::iter (visits exactly the elements, in some order)
#[verifier::external_body]
pub fn w_set_elems(s: &ErgSet) -> (r: Vec<u64>)
    ensures forall|x: u64| #![trigger s@.contains(x)] #![trigger r@.contains(x)] s@.contains(x) <==> r@.contains(x),
{ s.inner.iter().cloned().collect() }

pub type Graph = Vec<Node>;   // R5: Graph<T, U> := Vec<Node<u64, ()>>

// @trusted: R3 opaque diagnostic text
#[verifier::external_body]
pub fn ext_msg() -> String { String::new() }

// ---- specs
#[verifier::opaque]
pub open spec fn has_node(g: Seq<Node>, x: u64) -> bool { exists|i: int| 0 <= i < g.len() && g[i].id == x }
pub open spec fn first_idx(g: Seq<Node>, x: u64) -> int { choose|i: int| 0 <= i < g.len() && g[i].id == x && forall|j: int| 0 <= j < i ==> g[j].id != x }
#[verifier::opaque]
pub open spec fn deps(g: Seq<Node>, x: u64) -> Set<u64> { g[first_idx(g, x)].depends_on@ }
#[verifier::opaque]
pub open spec fn edge(g: Seq<Node>, a: u64, b: u64) -> bool { has_node(g, a) && deps(g, a).contains(b) }
pub open spec fn is_path(g: Seq<Node>, p: Seq<u64>) -> bool { p.len() >= 1 && forall|i: int| 0 <= i < p.len() - 1 ==> edge(g, p[i], #[trigger] p[i + 1]) }
#[verifier::opaque]
pub open spec fn reach(g: Seq<Node>, a: u64, b: u64) -> bool { exists|p: Seq<u64>| is_path(g, p) && p[0] == a && p.last() == b }
#[verifier::opaque]
pub open spec fn has_cycle(g: Seq<Node>) -> bool { exists|p: Seq<u64>| is_path(g, p) && p.len() >= 2 && p[0] == p.last() }
pub open spec fn pos(s: Seq<u64>, x: u64) -> int { choose|i: int| 0 <= i < s.len() && s[i] == x }
/// the order built so far: no duplicates, every listed vertex is a node, used, and all its dependencies are listed before it
#[verifier::opaque]
pub open spec fn order_ok(g: Seq<Node>, used: Set<u64>, idx: Seq<u64>) -> bool {
    &&& forall|i: int, j: int| 0 <= i < j < idx.len() ==> idx[i] != idx[j]
    &&& forall|k: int| 0 <= k < idx.len() ==> used.contains(#[trigger] idx[k]) && has_node(g, idx[k])
    &&& forall|k: int, d: u64| 0 <= k < idx.len() && #[trigger] deps(g, idx[k]).contains(d) ==> exists|j: int| 0 <= j < k && idx[j] == d
}
pub open spec fn gray(used: Set<u64>, idx: Seq<u64>, x: u64) -> bool { used.contains(x) && !idx.contains(x) }

/// R4: `g.iter().find(|n| n.id == v)`
// @trusted: std contract of Iterator::find on a slice iterator (first element satisfying the predicate)
#[verifier::external_body]
pub fn w_find_node<'a>(g: &'a Graph, v: u64) -> (r: Option<&'a Node>)
    ensures
        r.is_none() <==> !has_node(g@, v),
        r.is_some() ==> has_node(g@, v) && r.unwrap().depends_on@ == deps(g@, v),
{ g.iter().find(|n| n.id == v) }
/// R4: `vec.contains(x)`
// @trusted: std contract of slice::contains
#[verifier::external_body]
pub fn w_vec_contains(v: &Vec<u64>, x: &u64) -> (b: bool) ensures b == v@.contains(*x) { v.contains(x) }

pub open spec fn ids(g: Seq<Node>) -> Set<u64> { g.map_values(|n: Node| n.id).to_set() }
pub open spec fn unused(g: Seq<Node>, used: Set<u64>) -> Set<u64> { ids(g).difference(used) }
proof fn lemma_order_used(g: Seq<Node>, u1: Set<u64>, u2: Set<u64>, idx: Seq<u64>)
    requires order_ok(g, u1, idx), u1.subset_of(u2)
    ensures order_ok(g, u2, idx)
{ reveal(order_ok); }
proof fn lemma_order_listed_used(g: Seq<Node>, used: Set<u64>, idx: Seq<u64>, x: u64)
    requires order_ok(g, used, idx), idx.contains(x)
    ensures used.contains(x), has_node(g, x)
{ reveal(order_ok); let k = choose|k: int| 0 <= k < idx.len() && idx[k] == x; assert(used.contains(idx[k])); }
proof fn lemma_order_push(g: Seq<Node>, used: Set<u64>, idx: Seq<u64>, v: u64)
    requires order_ok(g, used, idx), used.contains(v), has_node(g, v), !idx.contains(v),
        forall|d: u64| deps(g, v).contains(d) ==> idx.contains(d),
    ensures order_ok(g, used, idx.push(v))
{
    reveal(order_ok);
    let idx2 = idx.push(v);
    let n = idx.len() as int;
    assert forall|k: int, d: u64| 0 <= k < idx2.len() && #[trigger] deps(g, idx2[k]).contains(d) implies exists|j: int| 0 <= j < k && idx2[j] == d by {
        if k == n {
            assert(idx.contains(d));
            let j = choose|j: int| 0 <= j < n && idx[j] == d;
            assert(idx2[j] == d);
        } else {
            assert(idx[k] == idx2[k]);
            let j = choose|j: int| 0 <= j < k && idx[j] == d;
            assert(idx2[j] == d);
        }
    }
    assert forall|i: int, j: int| 0 <= i < j < idx2.len() implies idx2[i] != idx2[j] by {
        if j == n { assert(idx2[i] == idx[i]); assert(idx.contains(idx[i])); } else { assert(idx2[i] == idx[i]); assert(idx2[j] == idx[j]); }
    }
    assert forall|k: int| 0 <= k < idx2.len() implies used.contains(#[trigger] idx2[k]) && has_node(g, idx2[k]) by {
        if k < n { assert(idx2[k] == idx[k]); }
    }
}
proof fn lemma_push_contains(a: Seq<u64>, v: u64)
    ensures forall|x: u64| #[trigger] a.push(v).contains(x) <==> (a.contains(x) || x == v)
{
    let b = a.push(v);
    assert forall|x: u64| #[trigger] b.contains(x) <==> (a.contains(x) || x == v) by {
        if b.contains(x) { let k = choose|k: int| 0 <= k < b.len() && b[k] == x; if k < a.len() { assert(a[k] == x); } }
        if a.contains(x) { let k = choose|k: int| 0 <= k < a.len() && a[k] == x; assert(b[k] == x); }
        if x == v { assert(b[a.len() as int] == v); }
    }
}
proof fn lemma_prefix_contains(a: Seq<u64>, b: Seq<u64>, x: u64)
    requires a.is_prefix_of(b), a.contains(x)
    ensures b.contains(x)
{ let k = choose|k: int| 0 <= k < a.len() && a[k] == x; assert(b[k] == x); }
proof fn lemma_edge_intro(g: Seq<Node>, a: u64, b: u64)
    requires has_node(g, a), deps(g, a).contains(b)
    ensures edge(g, a, b)
{ reveal(edge); }
proof fn lemma_ids(g: Seq<Node>)
    ensures forall|x: u64| ids(g).contains(x) <==> has_node(g, x)
{
    reveal(has_node);
    let m = g.map_values(|n: Node| n.id);

    assert forall|x: u64| ids(g).contains(x) <==> has_node(g, x) by {
        if ids(g).contains(x) { let i = choose|i: int| 0 <= i < m.len() && m[i] == x; assert(g[i].id == x); }
        if has_node(g, x) { let i = choose|i: int| 0 <= i < g.len() && g[i].id == x; assert(m[i] == x); assert(m.contains(x)); }
    }
}
proof fn lemma_unused_mono(g: Seq<Node>, u1: Set<u64>, u2: Set<u64>)
    requires u1.subset_of(u2)
    ensures unused(g, u2).len() <= unused(g, u1).len()
{
    lemma_ids(g);
    vstd::set_lib::lemma_len_subset(unused(g, u2), unused(g, u1));
}
proof fn lemma_unused_dec(g: Seq<Node>, u1: Set<u64>, u2: Set<u64>, v: u64)
    requires u1.subset_of(u2), has_node(g, v), !u1.contains(v), u2.contains(v)
    ensures unused(g, u2).len() < unused(g, u1).len()
{
    lemma_ids(g);
    let a = unused(g, u1);
    assert(a.contains(v));
    assert(unused(g, u2).subset_of(a.remove(v)));
    vstd::set_lib::lemma_len_subset(unused(g, u2), a.remove(v));
}
proof fn lemma_reach_prepend(g: Seq<Node>, a: u64, b: u64, c: u64)
    requires edge(g, a, b), b == c || reach(g, b, c)
    ensures reach(g, a, c)
{
    reveal(reach); reveal(has_cycle);
    if b == c { lemma_reach_refl_edge(g, a, b); } else {
        let p = choose|p: Seq<u64>| is_path(g, p) && p[0] == b && p.last() == c;
        let q = seq![a] + p;
        assert forall|i: int| 0 <= i < q.len() - 1 implies edge(g, q[i], #[trigger] q[i + 1]) by {
            if i == 0 { assert(q[0] == a); assert(q[1] == p[0]); } else { assert(q[i] == p[i - 1]); assert(q[i + 1] == p[(i - 1) + 1]); assert(edge(g, p[i - 1], p[(i - 1) + 1])); }
        }
        assert(is_path(g, q) && q[0] == a && q.last() == c);
    }
}
proof fn lemma_reach_step(g: Seq<Node>, a: u64, b: u64, c: u64)
    requires reach(g, a, b), edge(g, b, c)
    ensures reach(g, a, c)
{
    reveal(reach); reveal(has_cycle);
    let p = choose|p: Seq<u64>| is_path(g, p) && p[0] == a && p.last() == b;
    let q = p.push(c);
    assert forall|i: int| 0 <= i < q.len() - 1 implies edge(g, q[i], #[trigger] q[i + 1]) by {
        if i < p.len() - 1 { assert(q[i] == p[i]); assert(q[i + 1] == p[i + 1]); } else { assert(q[i] == b); assert(q[i+1] == c); }
    }
    assert(is_path(g, q) && q[0] == a && q.last() == c);
}
proof fn lemma_reach_refl_edge(g: Seq<Node>, a: u64, b: u64)
    requires edge(g, a, b)
    ensures reach(g, a, b)
{
    reveal(reach); reveal(has_cycle);
    let q = seq![a, b];
    assert(is_path(g, q) && q[0] == a && q.last() == b);
}
proof fn lemma_cycle(g: Seq<Node>, a: u64, b: u64)
    requires reach(g, a, b), edge(g, b, a)
    ensures has_cycle(g)
{
    reveal(reach); reveal(has_cycle);
    let p = choose|p: Seq<u64>| is_path(g, p) && p[0] == a && p.last() == b;
    let q = p.push(a);
    assert forall|i: int| 0 <= i < q.len() - 1 implies edge(g, q[i], #[trigger] q[i + 1]) by {
        if i < p.len() - 1 { assert(q[i] == p[i]); assert(q[i + 1] == p[i + 1]); } else { assert(q[i] == b); assert(q[i+1] == a); }
    }
    assert(is_path(g, q) && q.len() >= 2 && q[0] == q.last());
}
proof fn lemma_self_cycle(g: Seq<Node>, a: u64)
    requires edge(g, a, a)
    ensures has_cycle(g)
{
    reveal(reach); reveal(has_cycle);
    let q = seq![a, a];
    assert(is_path(g, q) && q.len() >= 2 && q[0] == q.last());
}

pub open spec fn first_pos(s: Seq<u64>, x: u64) -> int { choose|i: int| 0 <= i < s.len() && s[i] == x && forall|j: int| 0 <= j < i ==> s[j] != x }
pub open spec fn all_listed(g: Seq<Node>, idx: Seq<u64>) -> bool { forall|x: u64| has_node(g, x) ==> idx.contains(x) }

proof fn lemma_order_pos(g: Seq<Node>, used: Set<u64>, idx: Seq<u64>, a: u64, b: u64)
    requires order_ok(g, used, idx), idx.contains(a), deps(g, a).contains(b)
    ensures idx.contains(b), first_pos(idx, b) < first_pos(idx, a), has_node(g, a)
{
    reveal(order_ok);
    let k = choose|k: int| 0 <= k < idx.len() && idx[k] == a;
    assert(deps(g, idx[k]).contains(b));
    let j = choose|j: int| 0 <= j < k && idx[j] == b;
    lemma_first_pos(idx, a); lemma_first_pos(idx, b);
    let fa = first_pos(idx, a); let fb = first_pos(idx, b);
    assert(fa == k) by { if fa < k { assert(idx[fa] != idx[k]); } }
    assert(fb <= j) by { if j < fb { } }
    assert(used.contains(idx[k]));
}
proof fn lemma_first_pos(s: Seq<u64>, x: u64)
    requires s.contains(x)
    ensures 0 <= first_pos(s, x) < s.len(), s[first_pos(s, x)] == x, forall|j: int| 0 <= j < first_pos(s, x) ==> s[j] != x
{
    let k = choose|k: int| 0 <= k < s.len() && s[k] == x;
    lemma_first_exists(s, x, k);
}
proof fn lemma_first_exists(s: Seq<u64>, x: u64, k: int)
    requires 0 <= k < s.len(), s[k] == x
    ensures exists|i: int| 0 <= i < s.len() && s[i] == x && forall|j: int| 0 <= j < i ==> s[j] != x
    decreases k
{
    if exists|j: int| 0 <= j < k && s[j] == x {
        let j = choose|j: int| 0 <= j < k && s[j] == x;
        lemma_first_exists(s, x, j);
    } else {
        assert(0 <= k < s.len() && s[k] == x && forall|j: int| 0 <= j < k ==> s[j] != x);
    }
}
/// along a path every vertex but the last is listed, and positions strictly decrease
proof fn lemma_path_pos(g: Seq<Node>, used: Set<u64>, idx: Seq<u64>, p: Seq<u64>, i: int)
    requires order_ok(g, used, idx), all_listed(g, idx), is_path(g, p), 0 <= i < p.len(), p.len() >= 2
    ensures idx.contains(p[i]), idx.contains(p[0]), first_pos(idx, p[i]) <= first_pos(idx, p[0]) - i
    decreases i
{
    reveal(edge);
    assert(edge(g, p[0], p[0int + 1]));
    if i == 0 { } else {
        lemma_path_pos(g, used, idx, p, i - 1);
        assert(edge(g, p[i - 1], p[(i - 1) + 1]));
        lemma_order_pos(g, used, idx, p[i - 1], p[i]);
    }
}
proof fn lemma_order_acyclic(g: Seq<Node>, used: Set<u64>, idx: Seq<u64>)
    requires order_ok(g, used, idx), all_listed(g, idx)
    ensures !has_cycle(g)
{
    reveal(has_cycle);
    if has_cycle(g) {
        let p = choose|p: Seq<u64>| is_path(g, p) && p.len() >= 2 && p[0] == p.last();
        lemma_path_pos(g, used, idx, p, p.len() - 1);
    }
}

pub open spec fn sorted_ok(g: Seq<Node>, res: Seq<Node>) -> bool {
    forall|a: int, d: u64| 0 <= a < res.len() && #[trigger] deps(g, res[a].id).contains(d) ==> exists|b: int| 0 <= b < a && res[b].id == d
}

proof fn lemma_has_node(g: Seq<Node>, i: int)
    requires 0 <= i < g.len()
    ensures has_node(g, g[i].id)
{ reveal(has_node); }
proof fn lemma_sorted(g: Seq<Node>, used: Set<u64>, idx: Seq<u64>, res: Seq<Node>)
    requires order_ok(g, used, idx), all_listed(g, idx), res.to_multiset() == g.to_multiset(),
        forall|a: int, b: int| 0 <= a < b < res.len() ==> first_pos(idx, res[a].id) <= first_pos(idx, res[b].id),
    ensures sorted_ok(g, res)
{
    res.to_multiset_ensures(); g.to_multiset_ensures();
    assert forall|a: int, d: u64| 0 <= a < res.len() && #[trigger] deps(g, res[a].id).contains(d) implies exists|b: int| 0 <= b < a && res[b].id == d by {
        let x = res[a].id;
        assert(res.contains(res[a]));
        assert(res.to_multiset().count(res[a]) > 0);
        assert(g.to_multiset().count(res[a]) > 0);
        assert(g.contains(res[a]));
        let i = choose|i: int| 0 <= i < g.len() && g[i] == res[a];
        lemma_has_node(g, i);
        assert(idx.contains(x));
        lemma_order_pos(g, used, idx, x, d);
        // d is a node: it is listed, hence (order_ok) a node of g, hence somewhere in res
        lemma_order_listed_used(g, used, idx, d);
        reveal(has_node);
        let j = choose|j: int| 0 <= j < g.len() && g[j].id == d;
        assert(g.contains(g[j]));
        assert(g.to_multiset().count(g[j]) > 0);
        assert(res.to_multiset().count(g[j]) > 0);
        assert(res.contains(g[j]));
        let b = choose|b: int| 0 <= b < res.len() && res[b] == g[j];
        if b >= a { if b > a { } else { } }
        assert(b < a);
    }
}
} // verus!

// ---- the statement in terms of the nodes themselves, for graphs whose node ids are pairwise different (ModuleGraph keeps them so:
// a node is pushed only when `index` has no entry for its path)
verus! {
pub open spec fn unique_ids(g: Seq<Node>) -> bool { forall|i: int, j: int| 0 <= i < j < g.len() ==> g[i].id != g[j].id }
proof fn lemma_deps_unique(g: Seq<Node>, i: int)
    requires unique_ids(g), 0 <= i < g.len()
    ensures deps(g, g[i].id) == g[i].depends_on@
{
    reveal(deps);
    let x = g[i].id;
    assert(0 <= i < g.len() && g[i].id == x && forall|j: int| 0 <= j < i ==> g[j].id != x);
    let f = first_idx(g, x);
    assert(f == i) by { if f < i { } else if i < f { } }
}
/// every module is listed after all modules it depends on
proof fn lemma_sorted_unique(g: Seq<Node>, res: Seq<Node>)
    requires unique_ids(g), res.to_multiset() == g.to_multiset(), sorted_ok(g, res)
    ensures forall|a: int, d: u64| 0 <= a < res.len() && #[trigger] res[a].depends_on@.contains(d) ==> exists|b: int| 0 <= b < a && res[b].id == d
{
    res.to_multiset_ensures(); g.to_multiset_ensures();
    assert forall|a: int, d: u64| 0 <= a < res.len() && #[trigger] res[a].depends_on@.contains(d) implies exists|b: int| 0 <= b < a && res[b].id == d by {
        assert(res.contains(res[a]));
        assert(res.to_multiset().count(res[a]) > 0);
        assert(g.to_multiset().count(res[a]) > 0);
        assert(g.contains(res[a]));
        let i = choose|i: int| 0 <= i < g.len() && g[i] == res[a];
        lemma_deps_unique(g, i);
        assert(deps(g, res[a].id).contains(d));
    }
}
} // verus!
