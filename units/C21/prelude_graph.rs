// C21 prelude for the ModuleGraph unit (hand-written): erg_common's hash set / hash map wrappers as abstract set / map (assumed
// contracts, rule R5), wrappers for what Verus cannot express (R4/R11m), the representation invariant of ModuleGraph and the lemma
// that the index shift of `remove` re-establishes it. Paths are u64 ids (R5: NormalizedPathBuf := u64, used only through Eq + Hash + Clone).
use vstd::prelude::*;
verus! {
// @trusted: R5 abstract view of erg_common::set::Set<u64>
#[verifier::external_body]
pub struct ErgSet { inner: std::collections::HashSet<u64> }
impl ErgSet {
    pub uninterp spec fn view(&self) -> Set<u64>;
    // @trusted: assumed contract of the hash set / hash map wrapper: new
    #[verifier::external_body]
    pub fn new() -> (r: ErgSet) ensures r@ == Set::<u64>::empty() { ErgSet { inner: std::collections::HashSet::new() } }
    // @trusted: assumed contract of the hash set / hash map wrapper: insert
    #[verifier::external_body]
    pub fn insert(&mut self, v: u64) -> (b: bool) ensures final(self)@ == old(self)@.insert(v), b == !old(self)@.contains(v) { self.inner.insert(v) }
    // @trusted: assumed contract of the hash set / hash map wrapper: contains
    #[verifier::external_body]
    pub fn contains(&self, v: &u64) -> (b: bool) ensures b == self@.contains(*v) { self.inner.contains(v) }
}
/// R5: Dict<NormalizedPathBuf, usize> (erg_common::dict::Dict, a hash map wrapper) seen as the finite map it holds
// @trusted: assumed contract of the hash set / hash map wrapper: ErgDict
#[verifier::external_body]
pub struct ErgDict { inner: std::collections::HashMap<u64, usize> }
impl ErgDict {
    pub uninterp spec fn view(&self) -> Map<u64, usize>;
    // @trusted: assumed contract of the hash set / hash map wrapper: new
    #[verifier::external_body]
    pub fn new() -> (r: ErgDict) ensures r@ == Map::<u64, usize>::empty() { ErgDict { inner: std::collections::HashMap::new() } }
    // @trusted: assumed contract of the hash set / hash map wrapper: get
    #[verifier::external_body]
    pub fn get(&self, k: &u64) -> (r: Option<&usize>) ensures match r { Some(v) => self@.contains_key(*k) && *v == self@[*k], None => !self@.contains_key(*k) } { self.inner.get(k) }
    // @trusted: assumed contract of the hash set / hash map wrapper: contains_key
    #[verifier::external_body]
    pub fn contains_key(&self, k: &u64) -> (b: bool) ensures b == self@.contains_key(*k) { self.inner.contains_key(k) }
    // @trusted: assumed contract of the hash set / hash map wrapper: insert
    #[verifier::external_body]
    pub fn insert(&mut self, k: u64, v: usize) -> (r: Option<usize>) ensures final(self)@ == old(self)@.insert(k, v) { self.inner.insert(k, v) }
    // @trusted: assumed contract of the hash set / hash map wrapper: remove
    #[verifier::external_body]
    pub fn remove(&mut self, k: &u64) -> (r: Option<usize>) ensures final(self)@ == old(self)@.remove(*k), r == (if old(self)@.contains_key(*k) { Some(old(self)@[*k]) } else { None }) { self.inner.remove(k) }
    /// R11m: `for v in dict.values_mut() { .. *v .. }` is an indexed loop over the keys with the value loaded before and stored after the body
    // @trusted: assumed contract of the hash set / hash map wrapper: w_keys
    #[verifier::external_body]
    pub fn w_keys(&self) -> (r: Vec<u64>) ensures r@.no_duplicates(), forall|k: u64| #![trigger self@.contains_key(k)] #![trigger r@.contains(k)] self@.contains_key(k) <==> r@.contains(k) { self.inner.keys().cloned().collect() }
    // @trusted: assumed contract of the hash set / hash map wrapper: w_value
    #[verifier::external_body]
    pub fn w_value(&self, k: &u64) -> (r: usize) requires self@.contains_key(*k) ensures r == self@[*k] { self.inner[k] }
    // @trusted: assumed contract of the hash set / hash map wrapper: w_set_value
    #[verifier::external_body]
    pub fn w_set_value(&mut self, k: &u64, v: usize) requires old(self)@.contains_key(*k) ensures final(self)@ == old(self)@.insert(*k, v) { self.inner.insert(*k, v); }
}
pub uninterp spec fn is_dir(p: u64) -> bool;
// @trusted: Path::is_dir is a file-system query; an arbitrary but fixed predicate here
#[verifier::external_body]
pub fn w_is_dir(p: &u64) -> (b: bool) ensures b == is_dir(*p) { false }
// @trusted: DEBUG_MODE (cfg!(feature = "debug")) is an arbitrary boolean
#[verifier::external_body]
pub fn w_debug_mode() -> bool { false }
// @trusted: R6 diverging call; reaching it is an error (requires false)
#[verifier::external_body]
pub fn ext_abort() requires false { panic!() }
// @trusted: contract of Set::retain(|p| p != path) on one node (hash set: removes exactly that element)
/// R4: `node.depends_on.retain(|p| p != path)` on the j-th node of the vector
#[verifier::external_body]
pub fn w_retain_ne(g: &mut Vec<Node>, j: usize, path: &u64)
    requires j < old(g)@.len()
    ensures final(g)@.len() == old(g)@.len(), final(g)@[j as int].id == old(g)@[j as int].id, final(g)@[j as int].depends_on@ == old(g)@[j as int].depends_on@.remove(*path),
        forall|k: int| 0 <= k < old(g)@.len() && k != j ==> final(g)@[k] == old(g)@[k],
{ g[j].depends_on.inner.retain(|p| p != path) }

/// R5: `NormalizedPathBuf::new(p.to_path_buf())` on a path that is already a NormalizedPathBuf
// @trusted: normalising a normalised path gives the same path (idempotence: proved for cheap_canonicalize_path in C31, bounded for normalize_path)
#[verifier::external_body]
pub fn w_renormalize(p: &u64) -> (r: u64) ensures r == *p { *p }
/// representation invariant: the path index and the node vector agree
spec fn wf(m: ModuleGraph) -> bool {
    &&& forall|p: u64| #[trigger] m.index@.contains_key(p) ==> m.index@[p] < m.graph@.len() && m.graph@[m.index@[p] as int].id == p
    &&& forall|i: int| 0 <= i < m.graph@.len() ==> m.index@.contains_key(#[trigger] m.graph@[i].id) && m.index@[m.graph@[i].id] == i
}
spec fn has_path(m: ModuleGraph, p: u64) -> bool { exists|i: int| 0 <= i < m.graph@.len() && m.graph@[i].id == p }

spec fn src_idx(k: int, i: int) -> int { if k < i { k } else { k + 1 } }
/// after the vector removal and the index shift the index and the vector agree again
proof fn lemma_shifted(o: ModuleGraph, n: ModuleGraph, path: u64, keys: Seq<u64>)
    requires wf(o), o.index@.contains_key(path), n.graph@ == o.graph@.remove(o.index@[path] as int),
        n.index@.dom() == o.index@.dom().remove(path),
        forall|k: u64| #![trigger n.index@.contains_key(k)] #![trigger keys.contains(k)] n.index@.contains_key(k) <==> keys.contains(k),
        forall|a: int| 0 <= a < keys.len() ==> #[trigger] n.index@[keys[a]] == (if o.index@[keys[a]] > o.index@[path] { (o.index@[keys[a]] - 1) as usize } else { o.index@[keys[a]] }),
    ensures wf(n), !has_path(n, path),
        forall|k: int| 0 <= k < n.graph@.len() ==> #[trigger] n.graph@[k] == o.graph@[src_idx(k, o.index@[path] as int)],
{
    let i = o.index@[path] as int;
    assert forall|p: u64| #[trigger] n.index@.contains_key(p) implies n.index@[p] < n.graph@.len() && n.graph@[n.index@[p] as int].id == p by {
        assert(keys.contains(p));
        let a = choose|a: int| 0 <= a < keys.len() && keys[a] == p;
        assert(o.index@.contains_key(p) && p != path);
        assert(o.graph@[o.index@[p] as int].id == p);
        assert(o.index@[p] as int != i);
    }
    assert forall|k: int| 0 <= k < n.graph@.len() implies n.index@.contains_key(#[trigger] n.graph@[k].id) && n.index@[n.graph@[k].id] == k by {
        let src = src_idx(k, i);
        assert(n.graph@[k] == o.graph@[src]);
        let id = o.graph@[src].id;
        assert(o.index@.contains_key(id) && o.index@[id] == src);
        assert(id != path);
        assert(n.index@.contains_key(id));
        assert(keys.contains(id));
        let a = choose|a: int| 0 <= a < keys.len() && keys[a] == id;
    }
    if has_path(n, path) {
        let k = choose|k: int| 0 <= k < n.graph@.len() && n.graph@[k].id == path;
        assert(n.index@.contains_key(n.graph@[k].id));
    }
}
/// R11m: `for node in vec.iter_mut() { BODY(node) }` -> indexed loop; the node is taken out before and put back after BODY
// @trusted: moving the k-th element out of / back into the vector (what iter_mut's cursor stands for)
#[verifier::external_body]
pub fn w_take_node(g: &mut Vec<Node>, k: usize) -> (n: Node)
    requires k < old(g)@.len()
    ensures n == old(g)@[k as int], final(g)@.len() == old(g)@.len(), forall|j: int| 0 <= j < old(g)@.len() && j != k ==> final(g)@[j] == old(g)@[j],
{ std::mem::replace(&mut g[k], Node { id: 0, data: (), depends_on: ErgSet::new() }) }
// @trusted: see w_take_node
#[verifier::external_body]
pub fn w_put_node(g: &mut Vec<Node>, k: usize, n: Node)
    requires k < old(g)@.len()
    ensures final(g)@ == old(g)@.update(k as int, n),
{ g[k] = n; }
// @trusted: contract of Set::retain(|p| p != x) (hash set: removes exactly that element)
#[verifier::external_body]
pub fn w_set_retain_ne(s: &mut ErgSet, x: &u64) ensures final(s)@ == old(s)@.remove(*x) { s.inner.retain(|p| p != x) }

spec fn ren(p: u64, o: u64, n: u64) -> u64 { if p == o { n } else { p } }
spec fn ren_set(s: Set<u64>, o: u64, n: u64) -> Set<u64> { if s.contains(o) { s.remove(o).insert(n) } else { s } }

proof fn lemma_renamed(o: ModuleGraph, n: ModuleGraph, op: u64, np: u64)
    requires wf(o), !has_path(o, np), np != op, n.graph@.len() == o.graph@.len(),
        n.index@ == (if o.index@.contains_key(op) { o.index@.remove(op).insert(np, o.index@[op]) } else { o.index@ }),
        forall|k: int| 0 <= k < n.graph@.len() ==> (#[trigger] n.graph@[k]).id == ren(o.graph@[k].id, op, np),
    ensures wf(n)
{
    assert(!o.index@.contains_key(np)) by { if o.index@.contains_key(np) { assert(o.graph@[o.index@[np] as int].id == np); } }
    assert forall|p: u64| #[trigger] n.index@.contains_key(p) implies n.index@[p] < n.graph@.len() && n.graph@[n.index@[p] as int].id == p by {
        if o.index@.contains_key(op) && p == np { assert(o.graph@[o.index@[op] as int].id == op); }
        else { assert(o.index@.contains_key(p)); assert(o.graph@[o.index@[p] as int].id == p); }
    }
    assert forall|i: int| 0 <= i < n.graph@.len() implies n.index@.contains_key(#[trigger] n.graph@[i].id) && n.index@[n.graph@[i].id] == i by {
        assert(o.index@.contains_key(o.graph@[i].id));
    }
}
spec fn edge_g(g: Seq<Node>, a: u64, b: u64) -> bool { exists|i: int| 0 <= i < g.len() && g[i].id == a && g[i].depends_on@.contains(b) }
spec fn is_walk(g: Seq<Node>, p: Seq<u64>) -> bool { p.len() >= 2 && forall|i: int| 0 <= i < p.len() - 1 ==> edge_g(g, p[i], #[trigger] p[i + 1]) }
/// `b` is reached from `a` along at least one dependency edge
spec fn reach_g(g: Seq<Node>, a: u64, b: u64) -> bool { exists|p: Seq<u64>| is_walk(g, p) && p[0] == a && p.last() == b }
/// the vector after `add_node_if_none(referrer)`
spec fn is_mid(g0: Seq<Node>, mid: Seq<Node>, r: u64) -> bool {
    if exists|i: int| 0 <= i < g0.len() && g0[i].id == r { mid == g0 }
    else { mid.len() == g0.len() + 1 && mid.drop_last() == g0 && mid.last().id == r && mid.last().depends_on@ == Set::<u64>::empty() }
}
spec fn added_edge(mid: Seq<Node>, fin: Seq<Node>, a: u64, b: u64) -> bool {
    fin.len() == mid.len() && forall|k: int| 0 <= k < fin.len() ==> (#[trigger] fin[k]).id == mid[k].id
        && fin[k].depends_on@ == (if mid[k].id == a { mid[k].depends_on@.insert(b) } else { mid[k].depends_on@ })
}

proof fn reveal_mid(o: ModuleGraph, m: ModuleGraph, r: u64)
    requires wf(o), wf(m),
        has_path(o, r) ==> m.graph@ == o.graph@,
        !has_path(o, r) ==> m.graph@.len() == o.graph@.len() + 1 && m.graph@.last().id == r && m.graph@.last().depends_on@ == Set::<u64>::empty() && m.graph@.drop_last() == o.graph@,
    ensures is_mid(o.graph@, m.graph@, r), has_path(m, r)
{
    if !has_path(o, r) { assert(m.graph@[m.graph@.len() - 1].id == r); }
}
proof fn lemma_edge_added(m: ModuleGraph, f: ModuleGraph, a: u64, b: u64)
    requires wf(m), has_path(m, a), f.index@ == m.index@, f.graph@.len() == m.graph@.len(),
        forall|k: int| 0 <= k < m.graph@.len() && k != m.index@[a] ==> f.graph@[k] == m.graph@[k],
        f.graph@[m.index@[a] as int].id == a, f.graph@[m.index@[a] as int].depends_on@ == m.graph@[m.index@[a] as int].depends_on@.insert(b),
    ensures wf(f), added_edge(m.graph@, f.graph@, a, b)
{
    let ia = m.index@[a] as int;
    let i0 = choose|i: int| 0 <= i < m.graph@.len() && m.graph@[i].id == a;
    assert(m.index@.contains_key(m.graph@[i0].id));
    assert(m.graph@[ia].id == a);
    assert forall|k: int| 0 <= k < f.graph@.len() implies (#[trigger] f.graph@[k]).id == m.graph@[k].id
        && f.graph@[k].depends_on@ == (if m.graph@[k].id == a { m.graph@[k].depends_on@.insert(b) } else { m.graph@[k].depends_on@ }) by {
        if k != ia { assert(m.index@.contains_key(m.graph@[k].id) && m.index@[m.graph@[k].id] == k); }
    }
    assert forall|p: u64| #[trigger] f.index@.contains_key(p) implies f.index@[p] < f.graph@.len() && f.graph@[f.index@[p] as int].id == p by {
        assert(m.graph@[m.index@[p] as int].id == p);
    }
    assert forall|i: int| 0 <= i < f.graph@.len() implies f.index@.contains_key(#[trigger] f.graph@[i].id) && f.index@[f.graph@[i].id] == i by {
        assert(m.index@.contains_key(m.graph@[i].id));
    }
}
// @trusted: contract of Set::iter (visits exactly the elements, in some order)
#[verifier::external_body]
pub fn w_set_elems(s: &ErgSet) -> (r: Vec<u64>)
    ensures forall|x: u64| #![trigger s@.contains(x)] #![trigger r@.contains(x)] s@.contains(x) <==> r@.contains(x),
{ s.inner.iter().cloned().collect() }

spec fn ids(g: Seq<Node>) -> Set<u64> { g.map_values(|n: Node| n.id).to_set() }
spec fn unvisited(g: Seq<Node>, vis: Set<u64>) -> Set<u64> { ids(g).difference(vis) }
/// every visited vertex that is not being visited (not on the search path) is finished: the target is not among its dependencies
/// and all its dependencies are visited
spec fn closed(g: Seq<Node>, vis: Set<u64>, stack: Set<u64>, t: u64) -> bool {
    forall|i: int, d: u64| 0 <= i < g.len() && vis.contains(#[trigger] g[i].id) && !stack.contains(g[i].id) && #[trigger] g[i].depends_on@.contains(d) ==> d != t && vis.contains(d)
}
proof fn lemma_ids(g: Seq<Node>)
    ensures forall|x: u64| ids(g).contains(x) <==> exists|i: int| 0 <= i < g.len() && g[i].id == x
{
    let m = g.map_values(|n: Node| n.id);
    assert forall|x: u64| ids(g).contains(x) <==> exists|i: int| 0 <= i < g.len() && g[i].id == x by {
        if ids(g).contains(x) { let i = choose|i: int| 0 <= i < m.len() && m[i] == x; assert(g[i].id == x); }
        if exists|i: int| 0 <= i < g.len() && g[i].id == x { let i = choose|i: int| 0 <= i < g.len() && g[i].id == x; assert(m[i] == x); assert(m.contains(x)); }
    }
}
proof fn lemma_unvisited_dec(g: Seq<Node>, u1: Set<u64>, u2: Set<u64>, k: int)
    requires u1.subset_of(u2), 0 <= k < g.len(), !u1.contains(g[k].id), u2.contains(g[k].id)
    ensures unvisited(g, u2).len() < unvisited(g, u1).len()
{
    lemma_ids(g);
    let a = unvisited(g, u1);
    assert(a.contains(g[k].id));
    assert(unvisited(g, u2).subset_of(a.remove(g[k].id)));
    vstd::set_lib::lemma_len_subset(unvisited(g, u2), a.remove(g[k].id));
}
proof fn lemma_walk1(g: Seq<Node>, k: int, t: u64)
    requires 0 <= k < g.len(), g[k].depends_on@.contains(t)
    ensures reach_g(g, g[k].id, t)
{
    let p = seq![g[k].id, t];
    assert(edge_g(g, p[0], p[1]));
    assert(is_walk(g, p) && p[0] == g[k].id && p.last() == t);
}
proof fn lemma_walk_prepend(g: Seq<Node>, k: int, b: u64, t: u64)
    requires 0 <= k < g.len(), g[k].depends_on@.contains(b), reach_g(g, b, t)
    ensures reach_g(g, g[k].id, t)
{
    let p = choose|p: Seq<u64>| is_walk(g, p) && p[0] == b && p.last() == t;
    let q = seq![g[k].id] + p;
    assert forall|i: int| 0 <= i < q.len() - 1 implies edge_g(g, q[i], #[trigger] q[i + 1]) by {
        if i == 0 { assert(q[1] == p[0]); assert(edge_g(g, g[k].id, b)); } else { assert(q[i] == p[i - 1]); assert(q[i + 1] == p[(i - 1) + 1]); assert(edge_g(g, p[i - 1], p[(i - 1) + 1])); }
    }
    assert(is_walk(g, q) && q[0] == g[k].id && q.last() == t);
}
/// a closed visited set (nothing on the search path) that contains a is closed under dependencies and never meets the target
proof fn lemma_closed_no_reach(g: Seq<Node>, vis: Set<u64>, a: u64, t: u64)
    requires closed(g, vis, Set::<u64>::empty(), t), vis.contains(a)
    ensures !reach_g(g, a, t)
{
    if reach_g(g, a, t) {
        let p = choose|p: Seq<u64>| is_walk(g, p) && p[0] == a && p.last() == t;
        lemma_walk_in(g, vis, t, p, p.len() - 1);
        // the last edge ends at t although its source is visited and finished
        let j = p.len() - 2;
        assert(edge_g(g, p[j], p[j + 1]));
        let i = choose|i: int| 0 <= i < g.len() && g[i].id == p[j] && g[i].depends_on@.contains(p[j + 1]);
        assert(vis.contains(g[i].id));
    }
}
proof fn lemma_walk_in(g: Seq<Node>, vis: Set<u64>, t: u64, p: Seq<u64>, n: int)
    requires closed(g, vis, Set::<u64>::empty(), t), is_walk(g, p), vis.contains(p[0]), 0 <= n < p.len() - 1 || n == p.len() - 1
    ensures forall|j: int| 0 <= j < n ==> vis.contains(#[trigger] p[j])
    decreases n
{
    if n > 1 {
        lemma_walk_in(g, vis, t, p, n - 1);
        let j = n - 2;
        assert(edge_g(g, p[j], p[j + 1]));
        let i = choose|i: int| 0 <= i < g.len() && g[i].id == p[j] && g[i].depends_on@.contains(p[j + 1]);
        assert(vis.contains(g[i].id));
        assert(vis.contains(p[n - 1]));
    }
}

spec fn from_root(g: Seq<Node>, root: u64, v: u64) -> bool { v == root || reach_g(g, root, v) }
/// invariant of the ancestor search: what is collected is reachable from the root, what is visited is the root or reachable from it,
/// and every visited vertex off the search path has all its dependencies collected
spec fn anc_inv(g: Seq<Node>, anc: Set<u64>, vis: Set<u64>, stack: Set<u64>, root: u64) -> bool {
    &&& forall|x: u64| anc.contains(x) ==> reach_g(g, root, x)
    &&& forall|v: u64| vis.contains(v) ==> from_root(g, root, v)
    &&& forall|i: int, d: u64| 0 <= i < g.len() && vis.contains(#[trigger] g[i].id) && !stack.contains(g[i].id) && #[trigger] g[i].depends_on@.contains(d) ==> anc.contains(d)
}
proof fn lemma_walk_append(g: Seq<Node>, root: u64, k: int, d: u64)
    requires 0 <= k < g.len(), g[k].depends_on@.contains(d), from_root(g, root, g[k].id)
    ensures reach_g(g, root, d)
{
    if g[k].id == root { lemma_walk1(g, k, d); }
    else {
        let p = choose|p: Seq<u64>| is_walk(g, p) && p[0] == root && p.last() == g[k].id;
        let q = p.push(d);
        assert forall|i: int| 0 <= i < q.len() - 1 implies edge_g(g, q[i], #[trigger] q[i + 1]) by {
            if i == p.len() - 1 { assert(q[i] == p.last()); assert(q[i + 1] == d); assert(edge_g(g, g[k].id, d)); }
            else { assert(q[i] == p[i]); assert(q[i + 1] == p[i + 1]); assert(edge_g(g, p[i], p[i + 1])); }
        }
        assert(is_walk(g, q) && q[0] == root && q.last() == d);
    }
}
/// with nothing on the search path, everything reachable from the (visited) root has been collected
proof fn lemma_anc_complete(g: Seq<Node>, anc: Set<u64>, vis: Set<u64>, root: u64, x: u64)
    requires anc_inv(g, anc, vis, Set::<u64>::empty(), root), vis.contains(root), anc.subset_of(vis), reach_g(g, root, x)
    ensures anc.contains(x)
{
    let p = choose|p: Seq<u64>| is_walk(g, p) && p[0] == root && p.last() == x;
    lemma_anc_walk(g, anc, vis, root, p, p.len() - 1);
}
proof fn lemma_anc_walk(g: Seq<Node>, anc: Set<u64>, vis: Set<u64>, root: u64, p: Seq<u64>, n: int)
    requires anc_inv(g, anc, vis, Set::<u64>::empty(), root), vis.contains(root), anc.subset_of(vis), is_walk(g, p), p[0] == root, 1 <= n <= p.len() - 1
    ensures anc.contains(p[n])
    decreases n
{
    if n > 1 { lemma_anc_walk(g, anc, vis, root, p, n - 1); }
    let j = n - 1;
    assert(edge_g(g, p[j], p[j + 1]));
    let i = choose|i: int| 0 <= i < g.len() && g[i].id == p[j] && g[i].depends_on@.contains(p[j + 1]);
    assert(vis.contains(g[i].id));
}

} // verus!
