"""C21, ModuleGraph part: Verus unit on the real text of ModuleGraph::get_node, add_node_if_none and remove
(crates/erg_compiler/module/graph.rs) with the struct ModuleGraph and Node::new (erg_common/tsort.rs).

Data structure against an abstract view: the node vector is the view, `wf` (the path index and the node vector agree) is the
representation invariant; every operation under contract requires and re-establishes it and states the whole vector afterwards.
Paths are u64 ids (R5), the hash map `index` is an abstract finite map with assumed contracts."""
import os
import re

from vlib.extract import Source, make_mask, match_close
from vlib.snippet import Snippet, Undecided
from vlib.verus_unit import VerusUnit
from vlib import rules

HERE = os.path.dirname(os.path.abspath(__file__))
GRAPH = 'crates/erg_compiler/module/graph.rs'
TSORT = 'crates/erg_common/tsort.rs'

GET_SPEC = """requires wf(*self),
        ensures match res {
            // the node registered under that path (the index points at it), or none if the path is not registered
            Some(n) => has_path(*self, *path) && n.id == *path && *n == self.graph@[self.index@[*path] as int],
            None => !has_path(*self, *path),
        },"""

PARENTS_SPEC = """requires wf(*self),
        // the dependency set of the node registered under that path; none if the path is not registered
        ensures match res { Some(d) => has_path(*self, *path) && d@ == self.graph@[self.index@[*path] as int].depends_on@, None => !has_path(*self, *path) },"""

DEP_SPEC = """requires wf(*self),
        // true exactly if the path is registered and its node lists the target among its dependencies
        ensures res == (has_path(*self, *path) && self.graph@[self.index@[*path] as int].depends_on@.contains(*target)),"""

ADD_SPEC = """requires wf(*old(self)), !is_dir(*path), old(self).graph@.len() < usize::MAX,
        ensures wf(*final(self)),
            // registered already: nothing changes; otherwise exactly one node without dependencies is appended
            has_path(*old(self), *path) ==> final(self).graph@ == old(self).graph@ && final(self).index@ == old(self).index@,
            !has_path(*old(self), *path) ==> final(self).graph@.len() == old(self).graph@.len() + 1 && final(self).graph@.last().id == *path
                && final(self).graph@.last().depends_on@ == Set::<u64>::empty() && final(self).graph@.drop_last() == old(self).graph@,"""

REMOVE_SPEC = """requires wf(*old(self)),
        ensures wf(*final(self)), !has_path(*final(self), *path),
            // the other nodes stay, in order, each without the removed path among its dependencies
            !has_path(*old(self), *path) ==> final(self).graph@.len() == old(self).graph@.len()
                && forall|k: int| 0 <= k < final(self).graph@.len() ==> (#[trigger] final(self).graph@[k]).id == old(self).graph@[k].id && final(self).graph@[k].depends_on@ == old(self).graph@[k].depends_on@.remove(*path),
            has_path(*old(self), *path) ==> final(self).graph@.len() == old(self).graph@.len() - 1
                && forall|k: int| 0 <= k < final(self).graph@.len() ==> (#[trigger] final(self).graph@[k]).id == old(self).graph@[src_idx(k, old(self).index@[*path] as int)].id
                        && final(self).graph@[k].depends_on@ == old(self).graph@[src_idx(k, old(self).index@[*path] as int)].depends_on@.remove(*path),"""

GETMUT_SPEC = """requires wf(*old(self)),
        ensures final(self).index@ == old(self).index@, match res {
            // a mutable borrow of the node the index points at: whatever is written through it lands at that position and nowhere else
            Some(n) => has_path(*old(self), *path) && *n == old(self).graph@[old(self).index@[*path] as int] && final(self).graph@ == old(self).graph@.update(old(self).index@[*path] as int, *final(n)),
            None => !has_path(*old(self), *path) && final(self).graph@ == old(self).graph@,
        },"""

INC_SPEC = """requires wf(*old(self)), !is_dir(*%(r)s), !is_dir(%(d)s), old(self).graph@.len() < usize::MAX,
        ensures wf(*final(self)),
            // mid: the vector after the referrer has been registered (if it was not)
            exists|mid: Seq<Node>| #[trigger] is_mid(old(self).graph@, mid, *%(r)s) && match res {
                // refused: only when the edge would close a cycle; nothing but the registration of the referrer has happened
                Err(_) => *%(r)s != %(d)s && reach_g(mid, %(d)s, *%(r)s) && final(self).graph@ == mid,
                // accepted: a self-import changes nothing more; otherwise the edge closes no cycle and exactly that edge is added
                Ok(_) => if *%(r)s == %(d)s { final(self).graph@ == mid }
                         else { !reach_g(mid, %(d)s, *%(r)s) && added_edge(mid, final(self).graph@, *%(r)s, %(d)s) },
            },"""

DEEP_SPEC = """requires wf(*self),
        // the transitive-dependency query answers reachability along at least one dependency edge - as a plain reference graph would
        ensures res == reach_g(self.graph@, *path, *target),"""

DEEP__SPEC = """requires wf(*self), closed(self.graph@, old(visited)@, stack, *target), stack.subset_of(old(visited)@),
        ensures old(visited)@.subset_of(final(visited)@), final(visited)@.contains(*path),
            res ==> reach_g(self.graph@, *path, *target),
            // false: every visited vertex off the search path is finished (target not among its dependencies, all of them visited)
            !res ==> closed(self.graph@, final(visited)@, stack, *target),
            !res && stack =~= Set::<u64>::empty() ==> !reach_g(self.graph@, *path, *target),
        decreases unvisited(self.graph@, old(visited)@).len(),"""

DEEP__LOOP = """invariant verif_i <= verif_elems.len(), wf(*self), 0 <= verif_k < self.graph@.len(), self.graph@[verif_k].id == *path, *%(n)s == self.graph@[verif_k],
                    forall|x: u64| #![trigger %(n)s.depends_on@.contains(x)] #![trigger verif_elems@.contains(x)] %(n)s.depends_on@.contains(x) <==> verif_elems@.contains(x),
                    !%(n)s.depends_on@.contains(*target),
                    old(visited)@.insert(*path).subset_of(visited@), !old(visited)@.contains(*path),
                    stack.subset_of(old(visited)@),
                    closed(self.graph@, visited@, stack.insert(*path), *target),
                    forall|j: int| 0 <= j < verif_i ==> visited@.contains(verif_elems@[j]),
                decreases verif_elems.len() - verif_i,"""

NOREACH = "proof { if stack =~= Set::<u64>::empty() { lemma_closed_no_reach(self.graph@, visited@, *path, *target); } }"

ANC_SPEC = """requires wf(*self),
        // the ancestors of a path are exactly the paths reached from it along at least one dependency edge
        ensures forall|x: u64| res@.contains(x) <==> reach_g(self.graph@, *path, x),"""

ANC__SPEC = """requires wf(*self), anc_inv(self.graph@, old(ancestors)@, old(visited)@, stack, root), stack.subset_of(old(visited)@),
            old(ancestors)@.subset_of(old(visited)@.insert(*path)), from_root(self.graph@, root, *path),
        ensures old(visited)@.subset_of(final(visited)@), old(ancestors)@.subset_of(final(ancestors)@), final(visited)@.contains(*path),
            anc_inv(self.graph@, final(ancestors)@, final(visited)@, stack, root), final(ancestors)@.subset_of(final(visited)@),
        decreases unvisited(self.graph@, old(visited)@).len(),"""

ANC__LOOP = """invariant verif_i <= verif_elems.len(), wf(*self), 0 <= verif_k < self.graph@.len(), self.graph@[verif_k].id == *path,
                    %(ps)s@ == self.graph@[verif_k].depends_on@,
                    forall|x: u64| #![trigger %(ps)s@.contains(x)] #![trigger verif_elems@.contains(x)] %(ps)s@.contains(x) <==> verif_elems@.contains(x),
                    old(visited)@.insert(*path).subset_of(visited@), !old(visited)@.contains(*path), old(ancestors)@.subset_of(ancestors@),
                    stack.subset_of(old(visited)@), from_root(self.graph@, root, *path),
                    anc_inv(self.graph@, ancestors@, visited@, stack.insert(*path), root), ancestors@.subset_of(visited@),
                    forall|j: int| 0 <= j < verif_i ==> ancestors@.contains(verif_elems@[j]),
                decreases verif_elems.len() - verif_i,"""

RENAME_SPEC = """requires wf(*old(self)), !has_path(*old(self), new), new != *old_path,   // the new path is not registered yet
        ensures wf(*final(self)), final(self).graph@.len() == old(self).graph@.len(),
            // every node keeps its place; the old path is replaced by the new one as a node id and in every dependency set
            forall|k: int| 0 <= k < final(self).graph@.len() ==> (#[trigger] final(self).graph@[k]).id == ren(old(self).graph@[k].id, *old_path, new)
                && final(self).graph@[k].depends_on@ == ren_set(old(self).graph@[k].depends_on@, *old_path, new),"""

RENAME_LOOP = """invariant verif_n <= self.graph@.len(), self.graph@.len() == old(self).graph@.len(), wf(*old(self)), !has_path(*old(self), new), new != *old_path,
                self.index@ == (if old(self).index@.contains_key(*old_path) { old(self).index@.remove(*old_path).insert(new, old(self).index@[*old_path]) } else { old(self).index@ }),
                forall|k: int| 0 <= k < self.graph@.len() ==> (#[trigger] self.graph@[k]).id == (if k < verif_n { ren(old(self).graph@[k].id, *old_path, new) } else { old(self).graph@[k].id })
                    && self.graph@[k].depends_on@ == (if k < verif_n { ren_set(old(self).graph@[k].depends_on@, *old_path, new) } else { old(self).graph@[k].depends_on@ }),
            decreases self.graph@.len() - verif_n,"""

SHIFT_LOOP = """invariant verif_j <= verif_keys@.len(), verif_keys@.no_duplicates(),
                    forall|k: u64| #![trigger self.index@.contains_key(k)] #![trigger verif_keys@.contains(k)] self.index@.contains_key(k) <==> verif_keys@.contains(k),
                    self.graph@ == old(self).graph@.remove(%(i)s as int), %(i)s < old(self).graph@.len(), wf(*old(self)), old(self).graph@[%(i)s as int].id == *path,
                    old(self).index@.contains_key(*path), old(self).index@[*path] == %(i)s,
                    self.index@.dom() == old(self).index@.dom().remove(*path),
                    // the entries visited so far are shifted, the others still hold the old position
                    forall|a: int| 0 <= a < verif_keys@.len() ==> #[trigger] self.index@[verif_keys@[a]] == (if a < verif_j && old(self).index@[verif_keys@[a]] > %(i)s { (old(self).index@[verif_keys@[a]] - 1) as usize } else { old(self).index@[verif_keys@[a]] }),
                decreases verif_keys@.len() - verif_j,"""

RETAIN_LOOP = """invariant verif_n <= self.graph@.len(), self.graph@.len() == verif_mid.len(), wf(*self),
                forall|k: int| 0 <= k < verif_mid.len() ==> (#[trigger] self.graph@[k]).id == verif_mid[k].id
                    && self.graph@[k].depends_on@ == (if k < verif_n { verif_mid[k].depends_on@.remove(*path) } else { verif_mid[k].depends_on@ }),
            decreases self.graph@.len() - verif_n,"""


def mono(sn):
    """R5: NormalizedPathBuf := u64 (used only through Eq + Hash + Clone), Graph<_, ()> := Vec<Node>, Dict<_, usize> := ErgDict."""
    sn.rw('R5', r'\bGraph<NormalizedPathBuf, \(\)>', 'Vec<Node>', expect='*')
    sn.rw('R5', r'\bNode<NormalizedPathBuf, \(\)>', 'Node', expect='*')
    sn.rw('R5', r'\bDict<NormalizedPathBuf, usize>', 'ErgDict', expect='*')
    sn.rw('R5', r'\bNormalizedPathBuf\b', 'u64', expect='*')


def build(run):
    g = Source(run.repo, GRAPH)
    ts = Source(run.repo, TSORT)
    unit = VerusUnit('C21g', run.scratch)
    unit.raw_file(os.path.join(HERE, 'prelude_graph.rs'))
    unit.raw("verus! {\n")
    # ---- the types: Node and Node::new from tsort.rs, ModuleGraph from graph.rs
    node = Snippet(ts.item('struct', 'Node'), 'struct Node')
    node.rw('R5', r'<T: Eq \+ Hash \+ Immutable, U>', '', expect=1)
    node.rw('R5', r'\bSet<T>', 'ErgSet', expect=1)
    node.rw('R5', r':\s*T\b', ': u64', expect='*')
    node.rw('R5', r':\s*U\b', ': ()', expect='*')
    unit.add(node)
    unit.raw("impl Node {\n")
    nn = Snippet(ts.fn('new', impl=r'<T: [^>]*> Node<T, U>'), 'Node::new')
    nn.rw('R5', r'\bSet<T>', 'ErgSet', expect=1)
    nn.rw('R5', r':\s*T\b', ': u64', expect='*')
    nn.rw('R5', r':\s*U\b', ': ()', expect='*')
    nn.contract("ensures res.id == id, res.depends_on@ == depends_on@,")
    unit.add(nn)
    pd = Snippet(ts.fn('push_dep', impl=r'<T: [^>]*> Node<T, U>'), 'Node::push_dep')
    pd.rw('R5', r':\s*T\b', ': u64', expect='*')
    pd.contract("ensures final(self).id == old(self).id, final(self).depends_on@ == old(self).depends_on@.insert(dep),")
    unit.add(pd)
    unit.raw("}\n")
    unit.add(Snippet(g.item('enum', 'IncRefError'), 'enum IncRefError'))
    mg = Snippet(g.item('struct', 'ModuleGraph'), 'struct ModuleGraph')
    mono(mg)
    unit.add(mg)
    unit.raw("impl ModuleGraph {\n")
    # ---- get_node (+ vacuity probe)
    for probe in (False, True):
        f = Snippet(g.fn('get_node', impl=r'ModuleGraph'), 'vacuity-probe ModuleGraph::get_node' if probe else 'ModuleGraph::get_node')
        mono(f)
        rules.strip_vis_attrs(f)
        # R4: Option::map with a closure that dereferences the index -> the match it stands for
        f.rw('R4', r'self\.index\.get\(path\)\.map\(\|&(\w+)\| &self\.graph\[\1\]\)', r'match self.index.get(path) { Some(verif_r) => { let \1 = *verif_r; Some(&self.graph[\1]) }, None => None }', expect=1)
        if probe:
            f.rename_fn('get_node__vacuity_probe')
            run.extra.setdefault('vacuity_probe_labels', []).append(f.label)
        f.contract(GET_SPEC.split('ensures')[0] + 'ensures false,' if probe else GET_SPEC)
        unit.add(f)
    # ---- parents (the dependency set of a path) (+ vacuity probe)
    for probe in (False, True):
        f = Snippet(g.fn('parents', impl=r'ModuleGraph'), 'vacuity-probe ModuleGraph::parents' if probe else 'ModuleGraph::parents')
        mono(f)
        rules.strip_vis_attrs(f)
        f.rw('R5', r'\bSet<u64>', 'ErgSet', expect=1)
        f.rw('R4', r'self\s*\.get_node\(path\)\s*\.map\(\|(\w+)\| &\1\.depends_on\)', r'match self.get_node(path) { Some(\1) => Some(&\1.depends_on), None => None }', expect=1)
        if probe:
            f.rename_fn('parents__vacuity_probe')
            run.extra.setdefault('vacuity_probe_labels', []).append(f.label)
        f.contract(PARENTS_SPEC.split('ensures')[0] + 'ensures false,' if probe else PARENTS_SPEC)
        unit.add(f)
    # ---- depends_on (direct dependency query) (+ vacuity probe)
    for probe in (False, True):
        f = Snippet(g.fn('depends_on', impl=r'ModuleGraph'), 'vacuity-probe ModuleGraph::depends_on' if probe else 'ModuleGraph::depends_on')
        mono(f)
        rules.strip_vis_attrs(f)
        f.rw('R5', r'\bu64::new\((\w+)\.to_path_buf\(\)\)', r'w_renormalize(\1)', expect=2)
        f.rw('R4', r'self\s*\.get_node\(&(\w+)\)\s*\.map\(\|(\w+)\| \2\.depends_on\.contains\(&(\w+)\)\)\s*\.unwrap_or\(false\)',
             r'(match self.get_node(&\1) { Some(\2) => \2.depends_on.contains(&\3), None => false })', expect=1)
        if probe:
            f.rename_fn('depends_on__vacuity_probe')
            run.extra.setdefault('vacuity_probe_labels', []).append(f.label)
        f.contract(DEP_SPEC.split('ensures')[0] + 'ensures false,' if probe else DEP_SPEC)
        unit.add(f)
    # ---- add_node_if_none (+ vacuity probe)
    for probe in (False, True):
        f = Snippet(g.fn('add_node_if_none', impl=r'ModuleGraph'), 'vacuity-probe ModuleGraph::add_node_if_none' if probe else 'ModuleGraph::add_node_if_none')
        mono(f)
        rules.strip_vis_attrs(f)
        f.rw('R4', r'\bpath\.is_dir\(\)', 'w_is_dir(path)', expect=1)
        f.rw('R4', r'\bDEBUG_MODE\b', 'w_debug_mode()', expect='*')
        rules.aborts(f)
        f.rw('R5', r'\bset! \{\}', 'ErgSet::new()', expect='*')
        if probe:
            f.rename_fn('add_node_if_none__vacuity_probe')
            run.extra.setdefault('vacuity_probe_labels', []).append(f.label)
        f.contract(ADD_SPEC.split('ensures')[0] + 'ensures false,' if probe else ADD_SPEC)
        f.insert_at_end("        proof { if !has_path(*old(self), *path) { assert(self.graph@.drop_last() =~= old(self).graph@); } }")
        unit.add(f)
    # ---- remove (+ vacuity probe)
    for probe in (False, True):
        f = Snippet(g.fn('remove', impl=r'ModuleGraph'), 'vacuity-probe ModuleGraph::remove' if probe else 'ModuleGraph::remove')
        mono(f)
        rules.strip_vis_attrs(f)
        mi = re.search(r'if let Some\(&(\w+)\) = self\.index\.get\(path\) \{', make_mask(f.text))
        if not mi:
            raise Undecided("ModuleGraph::remove: `if let Some(&i) = self.index.get(path) {` not found")
        I = mi.group(1)
        f.rw('R4', r'if let Some\(&%s\) = self\.index\.get\(path\) \{' % I, 'if let Some(verif_r) = self.index.get(path) { let %s = *verif_r;' % I, expect=1)
        # R11m: `for v in self.index.values_mut() { BODY(*v) }` -> loop over the keys; the value is loaded before and stored after BODY
        mask = make_mask(f.text)
        ml = re.search(r'for (\w+) in self\.index\.values_mut\(\) \{', mask)
        if not ml:
            raise Undecided("ModuleGraph::remove: the loop over self.index.values_mut() was not found")
        V = ml.group(1)
        ob = ml.end() - 1
        cb = match_close(mask, ob)
        body = f.text[ob + 1:cb]
        bmask = mask[ob + 1:cb]
        if len(re.findall(r'\b%s\b' % V, bmask)) != len(re.findall(r'\*%s\b' % V, bmask)):
            raise Undecided("ModuleGraph::remove: the cursor of the values_mut() loop is used other than as `*%s`" % V)
        body2 = re.sub(r'\*%s\b' % V, 'verif_val', body)
        new = ("let verif_keys = self.index.w_keys();\n            let mut verif_j: usize = 0;\n            while verif_j < verif_keys.len() {\n"
               "                let mut verif_val = self.index.w_value(&verif_keys[verif_j]);" + body2 +
               "    self.index.w_set_value(&verif_keys[verif_j], verif_val);\n                verif_j = verif_j + 1;\n            }")
        f.replace_range('R11m', ml.start(), cb + 1, new, "for %s in self.index.values_mut() { .. *%s .. } -> loop over the keys, value loaded into verif_val before and stored after the body" % (V, V))
        # R11m + R4: the loop that drops the path from every dependency set
        f.rw('R11m', r'for (\w+) in self\.graph\.iter_mut\(\) \{\s*\1\.depends_on\.retain\(\|(\w+)\| \2 != path\);\s*\}',
             'let mut verif_n: usize = 0;\n        while verif_n < self.graph.len() {\n            w_retain_ne(&mut self.graph, verif_n, path);\n            verif_n = verif_n + 1;\n        }', expect=1)
        if probe:
            f.rename_fn('remove__vacuity_probe')
            run.extra.setdefault('vacuity_probe_labels', []).append(f.label)
        f.contract(REMOVE_SPEC.split('ensures')[0] + 'ensures false,' if probe else REMOVE_SPEC)
        f.insert_at(r'let mut verif_j: usize = 0;', """            proof {
                assert forall|a: int| 0 <= a < verif_keys@.len() implies #[trigger] self.index@[verif_keys@[a]] == old(self).index@[verif_keys@[a]] by { assert(verif_keys@.contains(verif_keys@[a])); }
            }""", where='after')
        f.loop_spec(0, SHIFT_LOOP % {"i": I})
        f.insert_at(r'let mut verif_val = ', """                proof { assert(verif_keys@.contains(verif_keys@[verif_j as int])); }
                let ghost verif_idx0 = self.index@;""", where='before')
        f.insert_at(r'verif_j = verif_j \+ 1;', """                proof {
                    assert(self.index@.dom() =~= verif_idx0.dom());
                    assert forall|a: int| 0 <= a < verif_keys@.len() implies #[trigger] self.index@[verif_keys@[a]] == (if a < verif_j + 1 && old(self).index@[verif_keys@[a]] > %(i)s { (old(self).index@[verif_keys@[a]] - 1) as usize } else { old(self).index@[verif_keys@[a]] }) by {
                        if a != verif_j as int { assert(verif_keys@[a] != verif_keys@[verif_j as int]); assert(self.index@[verif_keys@[a]] == verif_idx0[verif_keys@[a]]); }
                    }
                }""" % {"i": I}, where='before')
        f.after_loop(0, "            proof { lemma_shifted(*old(self), *self, *path, verif_keys@); }")
        f.insert_at(r'let mut verif_n: usize = 0;', "        let ghost verif_mid = self.graph@;", where='before')
        f.loop_spec(1, RETAIN_LOOP)
        unit.add(f)
    # ---- deep_depends_on and its recursive worker (+ vacuity probes)
    for probe in (False, True):
        f = Snippet(g.fn('deep_depends_on', impl=r'ModuleGraph'), 'vacuity-probe ModuleGraph::deep_depends_on' if probe else 'ModuleGraph::deep_depends_on')
        mono(f)
        rules.strip_vis_attrs(f)
        f.rw('R5', r'\bu64::new\((\w+)\.to_path_buf\(\)\)', r'w_renormalize(\1)', expect=2)
        f.rw('R5', r'\bset! \{\}', 'ErgSet::new()', expect=1)
        if probe:
            f.rename_fn('deep_depends_on__vacuity_probe')
            run.extra.setdefault('vacuity_probe_labels', []).append(f.label)
        f.contract(DEEP_SPEC.split('ensures')[0] + 'ensures false,' if probe else DEEP_SPEC)
        f.insert_inline(r'self\.deep_depends_on_\(&path, &target, &mut visited', ', Ghost(Set::<u64>::empty())')
        unit.add(f)
    for probe in (False, True):
        f = Snippet(g.fn('deep_depends_on_', impl=r'ModuleGraph'), 'vacuity-probe ModuleGraph::deep_depends_on_' if probe else 'ModuleGraph::deep_depends_on_')
        mono(f)
        rules.strip_vis_attrs(f)
        # R5: the visited set holds path ids instead of references to paths (lifetimes go with the references)
        f.rw('R5', r"<'p>", '', expect=1)
        f.rw('R5', r"&'p ", '&', expect='+')
        f.rw('R5', r'\bSet<&u64>', 'ErgSet', expect=1)
        f.rw('R5', r'\bvisited\.insert\(path\)', 'visited.insert(*path)', expect=1)
        # R11a: `RECV.map(|n| { A(n) || n.depends_on.iter().any(|p| CALL(p)) }).unwrap_or(false)` is, by the definitions of Option::map /
        # unwrap_or, short-circuit `||` and Iterator::any:  match RECV { Some(n) => { if A(n) { return true; } for p in elems { if CALL(p) { return true; } } false }, None => false }
        pat = (r'self\s*\.get_node\(path\)\s*\.map\(\|(\w+)\| \{\s*(?P<A>[^|{};]+?)\s*\|\|\s*\1\s*\.depends_on\s*\.iter\(\)\s*'
               r'\.any\(\|(\w+)\| self\.deep_depends_on_\(\3, target, visited\)\)\s*\}\)\s*\.unwrap_or\(false\)')
        mm = re.search(pat, make_mask(f.text))
        if not mm:
            raise Undecided("ModuleGraph::deep_depends_on_: the shape `get_node(path).map(|n| { n.depends_on.contains(target) || n.depends_on.iter().any(|p| self.deep_depends_on_(p, target, visited)) }).unwrap_or(false)` was not found")
        N, P, A = mm.group(1), mm.group(3), ' '.join(mm.group('A').split())
        f.rw('R11a', pat, ("match self.get_node(path) { Some(%(n)s) => {\n            if %(a)s {\n                return true;\n            }\n"
                            "            let verif_elems = w_set_elems(&%(n)s.depends_on);\n            let mut verif_i: usize = 0;\n            while verif_i < verif_elems.len() {\n"
                            "                let %(p)s = &verif_elems[verif_i]; verif_i = verif_i + 1;\n                if self.deep_depends_on_(%(p)s, target, visited) {\n                    return true;\n                }\n            }\n"
                            "            false\n        }, None => {\n            false\n        } }") % {"n": N, "p": P, "a": A}, expect=1)
        if probe:
            f.rename_fn('deep_depends_on___vacuity_probe')
            run.extra.setdefault('vacuity_probe_labels', []).append(f.label)
        f.insert_ghost_params('Ghost(stack): Ghost<Set<u64>>')
        f.contract(DEEP__SPEC.split('ensures')[0] + 'ensures false,\n        decreases unvisited(self.graph@, old(visited)@).len(),' if probe else DEEP__SPEC)
        f.insert_at(r'return false;', "            " + NOREACH, where='before', occurrence=0)
        f.insert_at(r'Some\(%s\) => \{' % N, "            let ghost verif_k = self.index@[*path] as int;", where='after')
        f.insert_at(r'return true;', "                proof { lemma_walk1(self.graph@, verif_k, *target); }", where='before', occurrence=0)
        f.loop_spec(0, DEEP__LOOP % {"n": N})
        f.insert_at(r'verif_i = verif_i \+ 1;', "                proof { lemma_unvisited_dec(self.graph@, old(visited)@, visited@, verif_k); assert(verif_elems@.contains(*%s)); }" % P, where='after')
        f.insert_inline(r'self\.deep_depends_on_\(%s, target, visited' % P, ', Ghost(stack.insert(*path))')
        f.insert_at(r'return true;', "                    proof { lemma_walk_prepend(self.graph@, verif_k, *%s, *target); }" % P, where='before', occurrence=1)
        f.after_loop(0, """            proof {
                // path is finished now: all its dependencies are visited and none is the target
                assert forall|i: int, d: u64| 0 <= i < self.graph@.len() && visited@.contains(#[trigger] self.graph@[i].id) && !stack.contains(self.graph@[i].id) && #[trigger] self.graph@[i].depends_on@.contains(d) implies d != *target && visited@.contains(d) by {
                    if self.graph@[i].id == *path {
                        assert(self.index@[self.graph@[i].id] == i);
                        assert(i == verif_k);
                        assert(verif_elems@.contains(d));
                        let j = choose|j: int| 0 <= j < verif_elems@.len() && verif_elems@[j] == d;
                    }
                }
            }
            %s""" % NOREACH)
        f.insert_at(r'None => \{', "            " + NOREACH, where='after')
        unit.add(f)
    # ---- ancestors and its recursive worker (+ vacuity probes)
    for probe in (False, True):
        f = Snippet(g.fn('ancestors', impl=r'ModuleGraph'), 'vacuity-probe ModuleGraph::ancestors' if probe else 'ModuleGraph::ancestors')
        mono(f)
        rules.strip_vis_attrs(f)
        f.rw('R5', r"<'p>", '', expect=1)
        f.rw('R5', r"&'p ", '&', expect='+')
        f.rw('R5', r'\bSet<&u64>', 'ErgSet', expect=1)
        f.rw('R5', r'\bset! \{\}', 'ErgSet::new()', expect=2)
        if probe:
            f.rename_fn('ancestors__vacuity_probe')
            run.extra.setdefault('vacuity_probe_labels', []).append(f.label)
        f.contract(ANC_SPEC.split('ensures')[0] + 'ensures false,' if probe else ANC_SPEC)
        f.insert_inline(r'self\.ancestors_\(path, &mut ancestors, &mut visited', ', Ghost(Set::<u64>::empty()), Ghost(*path)')
        f.insert_before_tail("""        proof {
            assert forall|x: u64| reach_g(self.graph@, *path, x) implies ancestors@.contains(x) by { lemma_anc_complete(self.graph@, ancestors@, visited@, *path, x); }
        }""")
        unit.add(f)
    for probe in (False, True):
        f = Snippet(g.fn('ancestors_', impl=r'ModuleGraph'), 'vacuity-probe ModuleGraph::ancestors_' if probe else 'ModuleGraph::ancestors_')
        mono(f)
        rules.strip_vis_attrs(f)
        f.rw('R5', r"<'p>", '', expect=1)
        f.rw('R5', r"&'p ", '&', expect='+')
        f.rw('R5', r'\bSet<&u64>', 'ErgSet', expect=2)
        f.rw('R5', r'\bvisited\.insert\(path\)', 'visited.insert(*path)', expect=1)
        ml = re.search(r'if let Some\((\w+)\) = self\.parents\(path\) \{\s*for (\w+) in \1\.iter\(\) \{', make_mask(f.text))
        if not ml:
            raise Undecided("ModuleGraph::ancestors_: `if let Some(parents) = self.parents(path) { for parent in parents.iter() {` not found")
        PS, PA = ml.group(1), ml.group(2)
        f.rw('R11', r'for %s in %s\.iter\(\) \{' % (PA, PS), 'let verif_elems = w_set_elems(%s);\n            let mut verif_i: usize = 0;\n            while verif_i < verif_elems.len() {\n                let %s = &verif_elems[verif_i]; verif_i = verif_i + 1;' % (PS, PA), expect=1)
        f.rw('R5', r'\bancestors\.insert\(%s\)' % PA, 'ancestors.insert(*%s)' % PA, expect=1)
        if probe:
            f.rename_fn('ancestors___vacuity_probe')
            run.extra.setdefault('vacuity_probe_labels', []).append(f.label)
        f.insert_ghost_params('Ghost(stack): Ghost<Set<u64>>, Ghost(root): Ghost<u64>')
        f.contract(ANC__SPEC.split('ensures')[0] + 'ensures false,\n        decreases unvisited(self.graph@, old(visited)@).len(),' if probe else ANC__SPEC)
        f.insert_at(r'let verif_elems = ', "            let ghost verif_k = self.index@[*path] as int;", where='before')
        f.loop_spec(0, ANC__LOOP % {"ps": PS})
        f.insert_at(r'verif_i = verif_i \+ 1;', "                proof { lemma_unvisited_dec(self.graph@, old(visited)@, visited@, verif_k); assert(verif_elems@.contains(*%(pa)s)); lemma_walk_append(self.graph@, root, verif_k, *%(pa)s); }" % {"pa": PA}, where='after')
        f.insert_inline(r'self\.ancestors_\(%s, ancestors, visited' % PA, ', Ghost(stack.insert(*path)), Ghost(root)')
        f.after_loop(0, """            proof {
                // path is finished now: all its dependencies are collected
                assert forall|i: int, d: u64| 0 <= i < self.graph@.len() && visited@.contains(#[trigger] self.graph@[i].id) && !stack.contains(self.graph@[i].id) && #[trigger] self.graph@[i].depends_on@.contains(d) implies ancestors@.contains(d) by {
                    if self.graph@[i].id == *path {
                        assert(self.index@[self.graph@[i].id] == i);
                        assert(i == verif_k);
                        assert(verif_elems@.contains(d));
                        let j = choose|j: int| 0 <= j < verif_elems@.len() && verif_elems@[j] == d;
                    }
                }
            }""")
        unit.add(f)
    # ---- get_mut_node (+ vacuity probe)
    for probe in (False, True):
        f = Snippet(g.fn('get_mut_node', impl=r'ModuleGraph'), 'vacuity-probe ModuleGraph::get_mut_node' if probe else 'ModuleGraph::get_mut_node')
        mono(f)
        rules.strip_vis_attrs(f)
        f.rw('R4', r'self\.index\.get\(path\)\.map\(\|&(\w+)\| &mut self\.graph\[\1\]\)', r'match self.index.get(path) { Some(verif_r) => { let \1 = *verif_r; Some(&mut self.graph[\1]) }, None => None }', expect=1)
        if probe:
            f.rename_fn('get_mut_node__vacuity_probe')
            run.extra.setdefault('vacuity_probe_labels', []).append(f.label)
        f.contract(GETMUT_SPEC.split('ensures')[0] + 'ensures false,' if probe else GETMUT_SPEC)
        unit.add(f)
    # ---- inc_ref (+ vacuity probe); deep_depends_on carries an ASSUMED contract (reachability), stub in the prelude
    for probe in (False, True):
        f = Snippet(g.fn('inc_ref', impl=r'ModuleGraph'), 'vacuity-probe ModuleGraph::inc_ref' if probe else 'ModuleGraph::inc_ref')
        mono(f)
        rules.strip_vis_attrs(f)
        ms = re.search(r'fn inc_ref\(\s*&mut self,\s*(\w+): &u64,\s*(\w+): u64,?\s*\)', make_mask(f.text))
        if not ms:
            raise Undecided("ModuleGraph::inc_ref: signature (&mut self, referrer: &path, depends_on: path) not found")
        R, D = ms.group(1), ms.group(2)
        f.rw('R4', r'\b%s\.is_dir\(\)' % D, 'w_is_dir(&%s)' % D, expect=1)
        f.rw('R4', r'\bDEBUG_MODE\b', 'w_debug_mode()', expect='*')
        rules.aborts(f)
        if probe:
            f.rename_fn('inc_ref__vacuity_probe')
            run.extra.setdefault('vacuity_probe_labels', []).append(f.label)
        spec = INC_SPEC % {"r": R, "d": D}
        f.contract(spec.split('ensures')[0] + 'ensures false,' if probe else spec)
        f.insert_at(r'self\.add_node_if_none\(%s\);' % R, "        proof { reveal_mid(*old(self), *self, *%s); }" % R, where='after')
        f.insert_at(r'self\.get_mut_node\(%s\)' % R, "        let ghost verif_m = *self;", where='before')
        f.insert_before_tail("        proof { lemma_edge_added(verif_m, *self, *%s, %s); }" % (R, D))
        unit.add(f)
    # ---- rename_path (+ vacuity probe)
    for probe in (False, True):
        f = Snippet(g.fn('rename_path', impl=r'ModuleGraph'), 'vacuity-probe ModuleGraph::rename_path' if probe else 'ModuleGraph::rename_path')
        mono(f)
        rules.strip_vis_attrs(f)
        msig = re.search(r'fn rename_path\(\s*&mut self,\s*(\w+): &u64,\s*(\w+): u64,?\s*\)', make_mask(f.text))
        if not msig:
            raise Undecided("ModuleGraph::rename_path: signature (&mut self, old: &path, new: path) not found")
        # the parameters are called old_path / new in the contract, whatever the code calls them (`old` is a keyword of the specification language)
        f.rw('R7', r'\b%s\b' % msig.group(1), 'old_path', expect='+')
        if msig.group(2) != 'new':
            f.rw('R7', r'\b%s\b' % msig.group(2), 'new', expect='+')
        # R11m: `for node in self.graph.iter_mut() { BODY(node) }` -> indexed loop; the node is taken out before and put back after BODY
        mask = make_mask(f.text)
        ml = re.search(r'for (\w+) in self\.graph\.iter_mut\(\) \{', mask)
        if not ml:
            raise Undecided("ModuleGraph::rename_path: the loop over self.graph.iter_mut() was not found")
        N = ml.group(1)
        ob = ml.end() - 1
        cb = match_close(mask, ob)
        body = re.sub(r'\b%s\b' % N, 'verif_node', f.text[ob + 1:cb])
        new = ("let mut verif_n: usize = 0;\n        while verif_n < self.graph.len() {\n            let mut verif_node = w_take_node(&mut self.graph, verif_n);" + body +
               "    w_put_node(&mut self.graph, verif_n, verif_node);\n            verif_n = verif_n + 1;\n        }")
        f.replace_range('R11m', ml.start(), cb + 1, new, "for %s in self.graph.iter_mut() { BODY } -> indexed loop, the node taken out before and put back after the unchanged BODY" % N)
        f.rw('R4', r'\bverif_node\.depends_on\.retain\(\|(\w+)\| \1 != old_path\);', 'w_set_retain_ne(&mut verif_node.depends_on, old_path);', expect='*')
        if probe:
            f.rename_fn('rename_path__vacuity_probe')
            run.extra.setdefault('vacuity_probe_labels', []).append(f.label)
        f.contract(RENAME_SPEC.split('ensures')[0] + 'ensures false,' if probe else RENAME_SPEC)
        f.loop_spec(0, RENAME_LOOP)
        f.insert_at(r'\bw_put_node\(', """            proof {
                let s0 = old(self).graph@[verif_n as int].depends_on@;
                if s0.contains(*old_path) { assert(s0.insert(new).remove(*old_path) =~= s0.remove(*old_path).insert(new)); } else { assert(s0.remove(*old_path) =~= s0); }
            }""", where='before')
        f.after_loop(0, "        proof { lemma_renamed(*old(self), *self, *old_path, new); }")
        unit.add(f)
    unit.raw("}\n} // verus!\n")
    run.sample({"function": "ModuleGraph::rename_path", "ensures": "for a new path that is not registered: the index and the vector agree again (the index entry moves to the new path - the defect fixed in 214d3101), every node keeps its place, the old path is replaced by the new one as node id and in every dependency set; terminates"})
    run.sample({"function": "ModuleGraph::remove", "ensures": "for every graph whose path index agrees with its node vector: afterwards they agree again (the positions behind the removed node are shifted by exactly one), the path is not registered, the other nodes stay in order and each lost exactly that path from its dependencies; no index out of bounds, no underflow; terminates"})
    run.sample({"function": "ModuleGraph::add_node_if_none / get_node", "ensures": "add: a registered path changes nothing, an unregistered one appends exactly one node without dependencies and indexes it at its position; get_node: the node the index points at has that path, None iff the path is not registered; the vector index cannot be out of bounds"})
    return unit


def run_graph(run, cex_finder):
    unit = build(run)
    res = unit.run(rlimit=60)
    run.add_verus(unit, res, cex_finder=cex_finder, expect_fail=tuple(l for l in run.extra.get('vacuity_probe_labels', ()) if 'ModuleGraph' in l))
