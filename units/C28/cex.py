"""Counterexample search + replay for C28 on the REAL pos_to_byte_index (guarded hook), oracle: LSP position semantics
computed independently in Python over UTF-16 code units."""
from vlib import replay

DOCS = ["", "a", "ab\ncd", "é", "aé", "日本", "a\n", "ab\r\ncd", "𝒳y", "x𝒳", "a\n\nb", "é\né"]


def lsp_index(src, line, ch):
    lines = src.split('\n')
    if line >= len(lines):
        return len(src.encode())
    start = sum(len(l.encode()) + 1 for l in lines[:line])
    text = lines[line]
    if text.endswith('\r') and line < len(lines) - 1:
        text = text[:-1]
    units = 0
    off = 0
    for c in text:
        if units >= ch:
            break
        units += 2 if ord(c) > 0xFFFF else 1
        off += len(c.encode())
    return start + off


def find(run, failure):
    binary = replay.build(run, 'c28', deps=('els',), cfg_hook=True)
    cases = [(d, l, c) for d in DOCS for l in range(0, 4) for c in range(0, 5)]
    lines = ["%s %d %d" % (d.encode().hex() or '-', l, c) for (d, l, c) in cases]
    outs = replay.run_lines(binary, lines)
    for (d, l, c), out in zip(cases, outs):
        want = lsp_index(d, l, c)
        bad = None
        if 'PANIC' in out:
            bad = "the edit panics (index not on a char boundary or out of range): " + out
        elif not out.startswith("index=%d " % want):
            bad = "real code: %s; the LSP position denotes byte %d" % (out, want)
        if bad:
            return {"found": True, "how": "grid search on the real pos_to_byte_index through the guarded hook (documents with multi-byte/astral characters, CRLF, positions past the end of a line)",
                    "input": {"document": d, "line": l, "character": c}, "real_result": out, "oracle": "byte index %d" % want, "verdict": bad,
                    "replay_cmd": "echo '%s %d %d' | %s" % (d.encode().hex() or '-', l, c, binary)}
    return {"found": False, "note": "no disagreement on %d (document, position) pairs" % len(cases)}
