"""C28: (1) Verus unit on the real text of els::util::pos_to_byte_index: for every document below 1 Gi characters and every position the
result is the byte offset of the first character at which the LSP position stops (or the end), no panic, no overflow, terminates.
(2) BOUNDED cross-check of the same function against an independent byte-level LSP reference (Kani) and (3) BOUNDED run-time contract
on FileCache::incremental_update.
Kani on the extracted real function; documents of up to 4 bytes (all valid UTF-8 texts of that size, incl. multi-byte and
astral characters, LF and CRLF), positions with line <= 3 and character <= 4; unwinding bound stated, unwinding assertions on."""
import os
import re

from vlib.extract import Source
from vlib.snippet import Snippet, Undecided
from vlib.kani_unit import KaniUnit
from vlib.verus_unit import VerusUnit

HERE = os.path.dirname(os.path.abspath(__file__))

V_SPEC = """requires src@.len() <= 0x3FFF_FFFF,   // the u32 line/column counters cannot overflow below 1 Gi characters
    ensures
        // the byte offset of the first character at which the position stops (line reached and column reached or end of line), else the end
        exists|k: int| 0 <= k <= src@.len() && res == byte_off(src@, k)
            && (k < src@.len() ==> stops(src@, k, pos.line as int, pos.character as int))
            && forall|j: int| 0 <= j < k ==> !stops(src@, j, pos.line as int, pos.character as int),
        res <= byte_off(src@, src@.len() as int),"""

V_LOOP = """invariant
            verif_k <= verif_ci@.len(), verif_ci@.len() == src@.len(), src@.len() <= 0x3FFF_FFFF,
            forall|k: int| 0 <= k < verif_ci@.len() ==> (#[trigger] verif_ci@[k]).0 == byte_off(src@, k) && verif_ci@[k].1 == src@[k],
            line == line_of(src@, verif_k as int), col == col_of(src@, verif_k as int),
            forall|j: int| 0 <= j < verif_k ==> !stops(src@, j, pos.line as int, pos.character as int),
        decreases verif_ci@.len() - verif_k,"""


def build_verus(run):
    src = Source(run.repo, UTIL)
    unit = VerusUnit('C28', run.scratch)
    unit.raw_file(os.path.join(HERE, 'prelude.rs'))
    unit.raw("verus! {\n")
    for probe in (False, True):
        f = Snippet(src.fn('pos_to_byte_index'), 'vacuity-probe pos_to_byte_index' if probe else 'els::util::pos_to_byte_index')
        f.rw('R7', r'pub\(crate\)\s+', '', expect='*')
        f.rw('R11', r'for \((\w+), (\w+)\) in src\.char_indices\(\) \{',
             r'let verif_ci = w_char_indices(src);\n    let mut verif_k: usize = 0;\n    while verif_k < verif_ci.len() {\n        let (\1, \2) = verif_ci[verif_k]; verif_k = verif_k + 1;', expect=1)
        f.rw('R4', r'src\[([^\]]+?)\.\.\]\.starts_with\(\'\\n\'\)', r'w_rest_starts_with_nl(src, \1)', expect='*')
        f.rw('R4', r'\b(\w+)\.len_utf16\(\)', r'w_len_utf16(\1)', expect='*')
        f.rw('R4', r'\bsrc\.len\(\)', 'w_str_len(src)', expect='*')
        if probe:
            f.rename_fn('pos_to_byte_index__vacuity_probe')
            run.extra.setdefault('vacuity_probe_labels', []).append(f.label)
        f.contract(V_SPEC.split('ensures')[0] + 'ensures false,' if probe else V_SPEC)
        f.loop_spec(0, V_LOOP)
        f.insert_at(r'verif_k = verif_k \+ 1;', "        proof { lemma_bounds(src@, verif_k as int - 1); lemma_bounds(src@, verif_k as int); lemma_bounds(src@, src@.len() as int); lemma_off_mono(src@, verif_k as int, src@.len() as int); }", where='after')
        f.body_prologue("proof { lemma_bounds(src@, src@.len() as int); }")
        unit.add(f)
    unit.raw("} // verus!\n")
    # the change loop of incremental_update: a lost anchor there must not take the proof of pos_to_byte_index and the bounded contract
    # with it (the check is then undecided for that part only, and a violation found by another part is still reported)
    from vlib.extract import LostAnchor
    saved = (list(unit.parts) if hasattr(unit, 'parts') else None, list(unit.snippets))
    try:
        build_update(run, unit)
    except (Undecided, LostAnchor, EarlyExit) as e:
        restore_unit(unit, saved)
        run.extra['vacuity_probe_labels'] = [l for l in run.extra.get('vacuity_probe_labels', []) if 'incremental_update' not in l]
        run.undecided.append("change loop of incremental_update not under contract in this run: %s" % e)
    run.sample({"function": "els::util::pos_to_byte_index", "ensures": "for every document (< 1 Gi chars) and position: the byte offset of the first character k with line_of(k) == line and (col_of(k) >= character in UTF-16 units, or k is the end of its line - LF or the CR of a CRLF), else the end of the document; always a character boundary <= len; the slice src[index+1..] cannot panic; counters do not overflow; terminates"})
    return unit

class EarlyExit(Exception):
    pass


U_SPEC = """requires
        // a notification that follows the LSP specification: every change is incremental (has a range) and no range ends before it starts
        forall|i: int| 0 <= i < content_changes@.len() ==> ev_ok(#[trigger] content_changes@[i]),
        // every intermediate document stays below 1 Gi characters (precondition of pos_to_byte_index)
        forall|n: int| 0 <= n <= content_changes@.len() ==> (#[trigger] apply_all(code0@, content_changes@, n)).len() <= 0x3FFF_FFFF,
    ensures
        // the server's copy is the client's copy: the changes applied in order, each to the document as left by the previous ones
        res@ == apply_all(code0@, content_changes@, content_changes@.len() as int),"""

U_LOOP = """invariant
            verif_i <= verif_cs@.len(), verif_cs@ == content_changes@,
            %(code)s@ == apply_all(code0@, content_changes@, verif_i as int),
            forall|i: int| 0 <= i < content_changes@.len() ==> ev_ok(#[trigger] content_changes@[i]),
            forall|n: int| 0 <= n <= content_changes@.len() ==> (#[trigger] apply_all(code0@, content_changes@, n)).len() <= 0x3FFF_FFFF,
        decreases verif_cs@.len() - verif_i,"""


def restore_unit(unit, saved):
    if saved[0] is not None:
        unit.parts = saved[0]
    unit.snippets = saved[1]


def build_update(run, unit):
    """Second verified function: the change loop of FileCache::incremental_update (real text; the lookup of the entry, the version guard,
    the VFS update and the re-lexing around it are sliced away, R2s), checked against the CONTRACT of pos_to_byte_index."""
    from vlib.extract import make_mask, match_close
    fc = Source(run.repo, 'crates/els/file_cache.rs')
    unit.raw_file(os.path.join(HERE, 'prelude_update.rs'))
    unit.raw("verus! {\n")
    for probe in (False, True):
        f = Snippet(fc.fn('incremental_update', impl=r'FileCache'), 'vacuity-probe incremental_update[change loop]' if probe else 'FileCache::incremental_update[change loop]')
        f.rw('R5', r'(pub(\(crate\))?\s+)?fn incremental_update\(&self, params: DidChangeTextDocumentParams\)', 'fn incremental_update(code0: &String, content_changes: Vec<TextDocumentContentChangeEvent>) -> String', expect=1)
        # R2s: slice - everything before the working copy is taken and everything after the loop is dropped; the value stored is returned
        mask = make_mask(f.text)
        m0 = re.search(r'let mut (\w+) = (\w+)\.code\.clone\(\);', mask)
        if not m0:
            raise Undecided("incremental_update: no `let mut <code> = <entry>.code.clone();`")
        code, entry = m0.group(1), m0.group(2)
        ob = mask.index('{')
        pre = f.text[ob + 1:m0.start()]
        if not re.search(r'\b%s\.ver >= ' % entry, pre) or 'get_mut(&uri)' not in pre:
            raise Undecided("incremental_update: the sliced-away prefix is no longer the entry lookup and the version guard")
        lm = re.search(r'\bfor (\w+) in params\.content_changes \{', mask)
        if not lm or lm.start() < m0.end() or mask[m0.end():lm.start()].strip():
            raise Undecided("incremental_update: the loop over params.content_changes does not directly follow the working copy")
        change = lm.group(1)
        lc = match_close(mask, lm.end() - 1)
        fe = match_close(mask, ob)
        suf = f.text[lc + 1:fe]
        smask = make_mask(suf)
        uses = [m for m in re.finditer(r'(?<![.\w])%s\b' % code, smask)]
        stores = [m for m in uses if re.search(r'\b%s\.code = $' % entry, smask[:m.start()]) and smask[m.end():].lstrip().startswith(';')]
        clones = [m for m in uses if smask[m.end():].startswith('.clone()')]
        if len(stores) != 1 or len(stores) + len(clones) != len(uses) or not re.search(r'VFS\.update\([^;]*\b%s\.clone\(\)\)' % code, smask):
            raise Undecided("incremental_update: after the loop the working copy is no longer stored unchanged (expected: entry.code = code; once, every other use a code.clone(), VFS.update(.., code.clone()))")
        # the store must be reached: no way out of the function between the loop and `entry.code = code;`
        before_store = smask[:stores[0].start()]
        if re.search(r'\breturn\b|\?\s*[;.)]|\bbreak\b|\bcontinue\b|\bpanic!|\bunreachable!|\bexit\(', before_store):
            raise EarlyExit("incremental_update: a way out of the function (return / ? / panic) stands between the change loop and the store of the working copy")
        f.replace_range('R2s', lc + 1, fe, '\n        %s\n    ' % code, 'slice: after the change loop (VFS.update(path, code.clone()), re-lexing of code.clone(), entry.code = code, entry.ver, entry.token_stream) dropped; the working copy is returned')
        f.replace_range('R2s', ob + 1, m0.start(), '\n        ', 'slice: entry lookup (files.borrow_mut().get_mut(&uri), early return) and version guard (entry.ver >= version: log and return) dropped')
        f.rw('R5', r'\b%s\.code\.clone\(\)' % entry, 'w_clone(code0)', expect=1)
        f.rw('R11', r'\bfor %s in params\.content_changes \{' % change, 'let verif_cs = content_changes;\n        let mut verif_i: usize = 0;\n        while verif_i < verif_cs.len() {\n            let %s = &verif_cs[verif_i]; verif_i = verif_i + 1;' % change, expect=1)
        f.rw('R5', r'\b%s\.code\b(?!\s*=[^=])' % entry, 'code0', expect='*')   # the entry's text at entry of the function is the parameter
        f.rw('R4', r'\butil::pos_to_byte_index\(&(\w+), ', r'pos_to_byte_index(\1.as_str(), ', expect='*')
        mr = re.search(r'Some\((\w+)\) = %s\.range\b' % change, make_mask(f.text))
        mp = re.search(r'\b%s\.replace_range\((\w+)\.\.(\w+), &%s\.text\);' % (code, change), make_mask(f.text))
        if not mr or not mp:
            raise Undecided("incremental_update: the change loop no longer has the shape `Some(range) = change.range ... code.replace_range(a..b, &change.text);` (a, b identifiers)")
        rng, a, b = mr.group(1), mp.group(1), mp.group(2)
        f.rw('R4', r'\b%s\.replace_range\((\w+)\.\.(\w+), &%s\.text\);' % (code, change),
             r'w_replace_range(&mut %s, \1, \2, &%s.text, Ghost(char_idx(verif_doc, %s.start)), Ghost(char_idx(verif_doc, %s.end)));' % (code, change, rng, rng), expect=1)
        if probe:
            f.rename_fn('incremental_update__changes__vacuity_probe')
            run.extra.setdefault('vacuity_probe_labels', []).append(f.label)
        else:
            f.rename_fn('incremental_update__changes')
        f.contract(U_SPEC.split('ensures')[0] + 'ensures false,' if probe else U_SPEC)
        f.loop_spec(0, U_LOOP % {"code": code})
        f.insert_at(r'\bpos_to_byte_index\(', "            proof { assert(apply_all(code0@, content_changes@, verif_i as int - 1).len() <= 0x3FFF_FFFF); }", where='before')
        f.insert_at(r'\bw_replace_range\(', """            let ghost verif_doc = %(code)s@;
            proof {
                // what pos_to_byte_index returned (its contract) is the byte offset of the character the LSP position denotes
                lemma_index_is(verif_doc, %(rng)s.start, %(a)s); lemma_index_is(verif_doc, %(rng)s.end, %(b)s);
                assert(content_changes@[verif_i as int - 1].range == Some(%(rng)s));
                lemma_idx_mono(verif_doc, %(rng)s.start, %(rng)s.end);   // start <= end: String::replace_range cannot panic
            }""" % {"code": code, "rng": rng, "a": a, "b": b}, where='before')
        unit.add(f)
    unit.raw("} // verus!\n")
    run.sample({"function": "FileCache::incremental_update (change loop)", "ensures": "for every document and every notification whose changes all carry a range with start <= end: the stored text == the changes applied in order, each to the document as left by the previous ones, a change replacing the characters between the two LSP positions (UTF-16 columns, past end of line = end of line); String::replace_range is always handed start <= end on character boundaries (no panic); terminates"})


def c28b(run):
    """The run-time-checked contract on the real FileCache::incremental_update (guarded hook); run once per check."""
    import json, subprocess, time
    from vlib import replay as rp
    if getattr(run, "_c28b", None) is not None:
        return run._c28b
    binary = rp.build(run, 'c28b', deps=('els',), cfg_hook=True)
    n = 2 if run.tier != 'thorough' else 3
    t0 = time.time()
    p = subprocess.run([binary, str(n)], capture_output=True, text=True, timeout=7200)
    try:
        js = json.loads(p.stdout.strip().split('\n')[-1])
    except Exception:
        raise Undecided("c28b exploration produced no result: " + p.stderr[-300:])
    run.solver_time_s += time.time() - t0
    js["_binary"] = binary
    js["_n"] = n
    run._c28b = js
    return js


def update_cex(js):
    return {"found": True, "how": "exhaustive enumeration of didChange notifications delivered to the real FileCache::incremental_update through the guarded hook; the client side is an independent LSP reference editor",
            "input": js["violation"].split(': server copy')[0].split(': the server panics')[0], "real_result": js["violation"], "oracle": "LSP: each change of a notification applies to the document as modified by the previous ones; UTF-16 columns; past end of line clamps",
            "verdict": "the server's copy of the document differs from the client's (or the server panics)", "replay_cmd": "%s %d" % (js["_binary"], js["_n"])}


UTIL = 'crates/els/util.rs'
MAXLEN = 4

PRELUDE = """
#[derive(Clone, Copy, Debug)]
pub struct Position { pub line: u32, pub character: u32 }
"""

HARNESS = """
    /// LSP 3.17 "Position": line is 0-based; character is a 0-based offset in UTF-16 code units; a character offset past
    /// the end of the line means the end of that line; (a line past the last one clamps to the end of the document).
    /// Written over bytes, independently of char_indices: walks UTF-8 lead bytes.
    fn lsp_index(b: &[u8], n: usize, line: u32, character: u32) -> usize {
        let mut i = 0usize;
        let mut cur_line = 0u32;
        // find the start of the requested line
        while i < n && cur_line < line {
            if b[i] == b'\\n' { cur_line += 1; }
            i += 1;
        }
        if cur_line < line { return n; }
        // advance `character` UTF-16 units, stopping at the end of the line
        let mut units = 0u32;
        while i < n {
            let c = b[i];
            if c == b'\\n' || (c == b'\\r' && i + 1 < n && b[i + 1] == b'\\n') { return i; }
            if units >= character { return i; }
            let (w, u) = if c < 0x80 { (1, 1) } else if c < 0xE0 { (2, 1) } else if c < 0xF0 { (3, 1) } else { (4, 2) };
            i += w;
            units += u;
        }
        n
    }
    #[kani::proof]
    #[kani::unwind(%d)]
    fn h_pos_to_byte_index() {
        let bytes: [u8; %d] = kani::any();
        let n: usize = kani::any();
        kani::assume(n <= %d);
        let Ok(src) = std::str::from_utf8(&bytes[..n]) else { return; };
        let line: u32 = kani::any();
        let character: u32 = kani::any();
        kani::assume(line <= 3 && character <= 4);
        let got = pos_to_byte_index(src, Position { line, character });
        kani::cover!(n == %d && got > 0 && got < n, "interior positions of full-length documents reachable");
        assert!(got <= src.len(), "the index is inside the document");
        assert!(src.is_char_boundary(got), "the index is a character boundary (String::replace_range cannot panic)");
        assert!(got == lsp_index(&bytes, n, line, character), "the index is the one the LSP position denotes (UTF-16 units, past-end-of-line clamps to the line end)");
    }
"""


def build(run):
    src = Source(run.repo, UTIL)
    unit = KaniUnit('C28', run.scratch)
    unit.raw(PRELUDE)
    f = Snippet(src.fn('pos_to_byte_index'), 'els::util::pos_to_byte_index')
    f.rw('R7', r'pub\(crate\)\s+', '')
    unit.add(f)
    unit.harness(HARNESS % (MAXLEN + 3, MAXLEN, MAXLEN, MAXLEN))
    return unit


def run(run, replay=None):
    from units.C28 import cex as _cex
    run.fallbacks.append(("pos_to_byte_index", lambda: _cex.find(run, {})))
    vunit = build_verus(run)
    vres = vunit.run(rlimit=60)
    def finder(f):
        if 'incremental_update' in f.get("key", ''):
            js = c28b(run)
            if js.get("violation"):
                return update_cex(js)
            return {"found": False, "note": "no notification within the bound of the run-time-checked contract (%d delivered) makes the server's copy differ" % js["notifications"]}
        return _cex.find(run, f)
    run.add_verus(vunit, vres, cex_finder=finder, expect_fail=tuple(run.extra.get('vacuity_probe_labels', ())))
    unit = build(run)
    h = 'h_pos_to_byte_index'
    res = unit.run([h], jobs=1, timeout_s=1500 if run.tier != 'thorough' else 6000)
    run.note_functions(unit.snippets)
    r = res[h]
    run.level = 'proof'
    bound = "documents of at most %d bytes (every valid UTF-8 text of that size), line <= 3, character <= 4, unwind %d with unwinding assertions" % (MAXLEN, MAXLEN + 3)
    run.bounded_note = bound
    label = "pos_to_byte_index == LSP position semantics [BOUNDED: %s]" % bound
    if r.status == 'SUCCESS':
        bad_cover = [c for c in r.covers if c[1] != 'SATISFIED']
        if bad_cover or not r.covers:
            run.undecided.append("kani %s: vacuity guard: cover %r" % (h, bad_cover))
        else:
            run.solver_time_s += r.time_s
            run.cmds.append(r.cmd)
            run.extra.setdefault("bounded_stand_ins(not counted as proved)", []).append({"harness": h, "what": label, "bound": bound, "status": "passed"})
            run.sample({"obligation": "pos_to_byte_index(src, pos)", "ensures": "<= src.len(), on a char boundary, == the index denoted by the LSP position (UTF-16 units; past end of line -> end of line)", "bound": bound})
    elif r.status == 'FAILURE':
        descs = sorted(set(d for (d, _) in r.failed))
        if any('unwinding assertion' in d for d in descs):
            run.undecided.append("kani %s: unwinding bound too small: %s" % (h, descs[:2]))
        else:
            from units.C28 import cex
            key = "pos_to_byte_index|kani|%s" % (descs[0][:100] if descs else 'failed')
            run.add_obligation(key, 'kani-bounded', False, detail={"msg": "Kani harness %s FAILED: %s" % (h, '; '.join("%s @ %s" % f for f in r.failed[:6])), "rendered": r.log_tail[-2500:]},
                               time_s=r.time_s, cmd=r.cmd)
            run.failed[-1]["cex_finder"] = lambda f: cex.find(run, f)
    else:
        run.undecided.append("kani %s: %s %s" % (h, r.status, r.log_tail[-400:].replace('\n', ' ') if r.status == 'ERROR' else ''))
    # ---- second bounded stand-in: the document copy after didChange notifications (run-time-checked contract) -------
    from vlib.extract import Source as _S
    run.functions.append(_S(run.repo, 'crates/els/file_cache.rs').fn('incremental_update', impl=r'FileCache').describe())
    n = 2 if run.tier != 'thorough' else 3
    js = c28b(run)
    binary = js["_binary"]
    b2 = "every document of up to %d characters over {a, e-acute, an astral character, LF}; one didChange notification with one change (all) or two changes (all pairs for documents up to 1 character, every 7th pair otherwise); ranges with line <= 2, character <= 3; new text one of '', 'x', LF" % n
    if js["violation"]:
        run.add_obligation("incremental_update|contract|server copy == client copy", 'runtime-contract', False, detail={"msg": js["violation"]},
                           cex=update_cex(js))
    else:
        run.cmds.append("%s %d" % (binary, n))
        run.extra.setdefault("bounded_stand_ins(not counted as proved)", []).append({"what": "FileCache::incremental_update: server copy == client copy (run-time-checked contract through the guarded hook)", "bound": b2, "status": "passed"})
    run.extra.update({"evaluations": js["notifications"], "distinct_nontrivial": js["distinct_results"],
                      "rule": "run-time-checked contract on FileCache::incremental_update: " + b2 + "; distinct_nontrivial = distinct resulting documents",
                      "samples_notifications": js["samples"]})
    run.bounded_note = bound + " || " + b2
    run.assumptions.append("pos_to_byte_index (proved): str::char_indices, str::len, str slicing + starts_with and char::len_utf16 carry assumed std contracts over the characters of the document (Verus has no byte-level str reasoning); documents below 2^30 characters. The same function is cross-checked, BOUNDED, by Kani against an independent byte-level LSP reference (which exercises the real UTF-8 decoding).")
    run.assumptions.append("FileCache::incremental_update (change loop proved): the loop is sliced out of the function (R2s: the entry lookup, the version guard, VFS.update, the re-lexing and the stores into the entry are dropped; textual anchors check that the working copy is what is stored); the lsp_types shapes (Position, Range, TextDocumentContentChangeEvent {range, range_length, text}) are restated in the prelude; String::clone, String::as_str and String::replace_range carry assumed std contracts over the characters; notifications whose changes all carry a range with start <= end (a range-less, i.e. full-document, change is skipped by the code and is outside the claim); every intermediate document below 2^30 characters. The whole function (with lock, VFS and lexer) is exercised only by the BOUNDED run-time-checked contract; histories of several notifications and the rest of the server loop are not carried by any proof.")
