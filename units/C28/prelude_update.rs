// C28 prelude, second part (hand-written): what the LSP specification says a didChange notification does to a document, as spec
// functions over the characters; the lsp_types shapes used by FileCache::incremental_update; String operations as wrappers with
// assumed std contracts (rule R4). Placed after the verified pos_to_byte_index, whose CONTRACT (not body) the change loop is checked against.
verus! {
#[derive(Clone, Copy)]
pub struct Range { pub start: Position, pub end: Position }
pub struct TextDocumentContentChangeEvent { pub range: Option<Range>, pub range_length: Option<u32>, pub text: String }

pub open spec fn idx_from(s: Seq<char>, k: int, line: int, ch: int) -> int decreases s.len() - k
{ if k >= s.len() { s.len() as int } else if stops(s, k, line, ch) { k } else { idx_from(s, k + 1, line, ch) } }
/// the character a position denotes (LSP): the first one at which it stops, else the end of the document
pub open spec fn char_idx(s: Seq<char>, p: Position) -> int { idx_from(s, 0, p.line as int, p.character as int) }
pub open spec fn pos_le(a: Position, b: Position) -> bool { a.line < b.line || (a.line == b.line && a.character <= b.character) }
/// an incremental change that follows the LSP specification: it has a range and the range does not end before it starts
pub open spec fn ev_ok(ev: TextDocumentContentChangeEvent) -> bool { match ev.range { Some(r) => pos_le(r.start, r.end), None => false } }
/// LSP: a change with a range replaces the characters between the two positions by the new text
pub open spec fn apply_one(s: Seq<char>, ev: TextDocumentContentChangeEvent) -> Seq<char> {
    match ev.range {
        Some(r) => s.take(char_idx(s, r.start)) + ev.text@ + s.skip(char_idx(s, r.end)),
        None => s,
    }
}
/// LSP: the changes of one notification apply in order, each to the document as left by the previous ones
pub open spec fn apply_all(s: Seq<char>, evs: Seq<TextDocumentContentChangeEvent>, n: int) -> Seq<char> decreases n
{ if n <= 0 { s } else { apply_one(apply_all(s, evs, n - 1), evs[n - 1]) } }

proof fn lemma_idx(s: Seq<char>, k: int, line: int, ch: int)
    requires 0 <= k <= s.len()
    ensures ({ let r = idx_from(s, k, line, ch); k <= r <= s.len() && (r < s.len() ==> stops(s, r, line, ch)) && forall|j: int| k <= j < r ==> !stops(s, j, line, ch) })
    decreases s.len() - k
{ if k < s.len() && !stops(s, k, line, ch) { lemma_idx(s, k + 1, line, ch); } }
proof fn lemma_idx_unique(s: Seq<char>, line: int, ch: int, k: int)
    requires 0 <= k <= s.len(), k < s.len() ==> stops(s, k, line, ch), forall|j: int| 0 <= j < k ==> !stops(s, j, line, ch)
    ensures k == idx_from(s, 0, line, ch)
{ lemma_idx(s, 0, line, ch); }
proof fn lemma_line_ivt(s: Seq<char>, k: int, l: int)
    requires 0 <= k <= s.len(), 0 <= l < line_of(s, k)
    ensures exists|j: int| 0 <= j < k && line_of(s, j) == l && s[j] == '\n'
    decreases k
{
    if k > 0 {
        if line_of(s, k - 1) > l { lemma_line_ivt(s, k - 1, l); }
        else { lemma_bounds(s, k - 1); assert(line_of(s, k - 1) == l && s[k - 1] == '\n'); }
    }
}
proof fn lemma_idx_mono(s: Seq<char>, a: Position, b: Position)
    requires pos_le(a, b)
    ensures 0 <= char_idx(s, a) <= char_idx(s, b) <= s.len()
{
    lemma_idx(s, 0, a.line as int, a.character as int);
    lemma_idx(s, 0, b.line as int, b.character as int);
    let r2 = char_idx(s, b);
    if r2 < s.len() {
        if a.line == b.line { assert(stops(s, r2, a.line as int, a.character as int)); }
        else {
            lemma_line_ivt(s, r2, a.line as int);
            let j = choose|j: int| 0 <= j < r2 && line_of(s, j) == a.line as int && s[j] == '\n';
            assert(stops(s, j, a.line as int, a.character as int));
        }
    }
}
proof fn lemma_index_is(s: Seq<char>, p: Position, res: usize)
    requires exists|k: int| 0 <= k <= s.len() && res == byte_off(s, k) && (k < s.len() ==> stops(s, k, p.line as int, p.character as int)) && forall|j: int| 0 <= j < k ==> !stops(s, j, p.line as int, p.character as int),
    ensures res == byte_off(s, char_idx(s, p))
{
    let k = choose|k: int| 0 <= k <= s.len() && res == byte_off(s, k) && (k < s.len() ==> stops(s, k, p.line as int, p.character as int)) && forall|j: int| 0 <= j < k ==> !stops(s, j, p.line as int, p.character as int);
    lemma_idx_unique(s, p.line as int, p.character as int, k);
}
// @trusted: std contract of String::replace_range over the characters (the range ends must be character boundaries, start <= end <= len)
#[verifier::external_body]
pub fn w_replace_range(code: &mut String, start: usize, end: usize, text: &String, Ghost(ks): Ghost<int>, Ghost(ke): Ghost<int>)
    requires 0 <= ks <= ke <= old(code)@.len(), start == byte_off(old(code)@, ks), end == byte_off(old(code)@, ke),
    ensures final(code)@ == old(code)@.take(ks) + text@ + old(code)@.skip(ke),
{ code.replace_range(start..end, text) }
// @trusted: std contract of String::clone / String::as_str
#[verifier::external_body]
pub fn w_clone(s: &String) -> (r: String) ensures r@ == s@ { s.clone() }

} // verus!
