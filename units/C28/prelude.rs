// C28 prelude (hand-written): LSP position semantics over the characters of the document, and the str operations used by
// els::util::pos_to_byte_index as wrappers with assumed std contracts (rule R4) - Verus has no byte-level reasoning about `str`.
use vstd::prelude::*;
verus! {
#[derive(Clone, Copy)]
pub struct Position { pub line: u32, pub character: u32 }

/// LSP 3.17 Position over the characters: `line_of(s, k)` = number of line feeds before char k, `col_of(s, k)` = UTF-16 code units
/// between the start of k's line and k; a position (line, character) denotes the first char of that line whose column reaches
/// `character`, or the end of the line (the line feed, or the carriage return of a CRLF) if the line is shorter.
pub open spec fn utf8_len(c: char) -> int { if (c as u32) < 0x80 { 1 } else if (c as u32) < 0x800 { 2 } else if (c as u32) < 0x10000 { 3 } else { 4 } }
pub open spec fn utf16_len(c: char) -> int { if (c as u32) < 0x10000 { 1 } else { 2 } }
pub open spec fn byte_off(s: Seq<char>, k: int) -> int decreases k { if k <= 0 { 0 } else { byte_off(s, k - 1) + utf8_len(s[k - 1]) } }
pub open spec fn line_of(s: Seq<char>, k: int) -> int decreases k { if k <= 0 { 0 } else { line_of(s, k - 1) + (if s[k - 1] == '\n' { 1int } else { 0int }) } }
pub open spec fn col_of(s: Seq<char>, k: int) -> int decreases k { if k <= 0 { 0 } else if s[k - 1] == '\n' { 0 } else { col_of(s, k - 1) + utf16_len(s[k - 1]) } }
pub open spec fn at_eol(s: Seq<char>, k: int) -> bool { s[k] == '\n' || (s[k] == '\r' && k + 1 < s.len() && s[k + 1] == '\n') }
pub open spec fn stops(s: Seq<char>, k: int, line: int, character: int) -> bool { line_of(s, k) == line && (col_of(s, k) >= character || at_eol(s, k)) }

/// R11: `for (index, c) in src.char_indices()` -> indexed loop over the collected pairs
// @trusted: std contract of str::char_indices (k-th pair = (sum of the UTF-8 lengths of the first k chars, k-th char))
#[verifier::external_body]
pub fn w_char_indices(src: &str) -> (r: Vec<(usize, char)>)
    ensures r@.len() == src@.len(), forall|k: int| 0 <= k < r@.len() ==> (#[trigger] r@[k]).0 == byte_off(src@, k) && r@[k].1 == src@[k],
{ src.char_indices().collect() }
// @trusted: std contract of str::len (sum of the UTF-8 lengths of the chars)
#[verifier::external_body]
pub fn w_str_len(src: &str) -> (r: usize) ensures r == byte_off(src@, src@.len() as int) { src.len() }
/// R4: `src[i..].starts_with('\n')`; the precondition is what keeps the slice from panicking (i is a char boundary)
// @trusted: std contract of str slicing at a char boundary + str::starts_with(char)
#[verifier::external_body]
pub fn w_rest_starts_with_nl(src: &str, i: usize) -> (b: bool)
    requires exists|k: int| 0 <= k <= src@.len() && i == byte_off(src@, k),
    ensures forall|k: int| 0 <= k <= src@.len() && i == byte_off(src@, k) ==> b == (k < src@.len() && src@[k] == '\n'),
{ src[i..].starts_with('\n') }
// @trusted: std contract of char::len_utf16
#[verifier::external_body]
pub fn w_len_utf16(c: char) -> (r: usize) ensures r == utf16_len(c) { c.len_utf16() }

proof fn lemma_bounds(s: Seq<char>, k: int)
    requires 0 <= k <= s.len()
    ensures k <= byte_off(s, k) <= 4 * k, 0 <= line_of(s, k) <= k, 0 <= col_of(s, k) <= 2 * k
    decreases k
{ if k > 0 { lemma_bounds(s, k - 1); } }
proof fn lemma_off_mono(s: Seq<char>, a: int, b: int)
    requires 0 <= a <= b <= s.len()
    ensures byte_off(s, a) <= byte_off(s, b), a < b ==> byte_off(s, a) < byte_off(s, b)
    decreases b - a
{ if a < b { lemma_off_mono(s, a, b - 1); } }

} // verus!
