"""C06 (partial): the fast subtyping table on built-in value classes: Context::cheap_supertype_of, Type::is_mono_value_class,
Context::supertype_of. Kani, loop-free over all triples of fieldless built-in types (complete: finite domain)."""
import re

from vlib.extract import Source
from vlib.snippet import Snippet
from vlib.kani_unit import KaniUnit
from vlib import rules

COMPARE = 'crates/erg_compiler/context/compare.rs'
TYMOD = 'crates/erg_compiler/ty/mod.rs'

PRELUDE = """
#[derive(Clone, Debug, PartialEq)]
pub struct Opaque;
fn ext_opaque_arm<T>() -> T { panic!("R2-erased arm reached") }
use tymod::Type;   // explicit import: takes precedence over the glob import of the variant `Type::Type` (as in compare.rs)
pub struct Context;
impl Context {
    // the slow judgements are outside this unit: reaching one from the table classes fails the harness
    fn structural_supertype_of(&self, _lhs: &Type, _rhs: &Type) -> bool { panic!("structural judgement reached") }
    fn nominal_supertype_of(&self, _lhs: &Type, _rhs: &Type) -> bool { panic!("nominal judgement reached") }
}
use Type::*;
use Credibility::*;
"""

ERASED_PAT = re.compile(r'\b(Mono|Subr|Poly|FreeVar|Quantified|Refinement|Ref|RefMut|Callable|Record|And|Or|Not|NamedTuple|Proj|ProjCall|Structural|Guard|Bounded)\s*[\({]')


def wildcard_payloads(pat):
    """R2 (patterns): inside an erased arm, the sub-pattern of a variant whose payload type was erased (R1) becomes a
    wildcard, so the arm matches at least what it matched before (over-approximation; its body is unspecified anyway)."""
    from vlib.extract import make_mask, match_close
    out = pat
    while True:
        mask = make_mask(out)
        m = None
        for mm in ERASED_PAT.finditer(mask):
            ob = mm.end() - 1
            cb = match_close(mask, ob)
            inner = out[ob + 1:cb].strip()
            if inner not in ('_', '..'):
                m = (ob, cb)
                break
        if m is None:
            return out
        ob, cb = m
        out = out[:ob + 1] + ('_' if out[ob] == '(' else ' .. ') + out[cb:]


def build(run):
    csrc = Source(run.repo, COMPARE)
    tsrc = Source(run.repo, TYMOD)
    unit = KaniUnit('C06', run.scratch)
    unit.raw(PRELUDE)
    ty = Snippet(tsrc.item('enum', 'Type'), 'enum Type')
    variants = rules.erase_enum_payloads(ty, set(), derives='#[derive(Clone, Debug, PartialEq)]\n')
    # `Uninited` is an internal marker ("TyParam is not initialized"), not a type of the language
    fieldless = [v for (v, kind, tys) in variants if kind == 'unit' and v != 'Uninited']
    unit.raw("pub mod tymod {\nuse super::Opaque;\nuse super::ext_opaque_arm;\n")
    unit.add(ty)
    mv = Snippet(tsrc.fn('is_mono_value_class', impl=r'Type'), 'Type::is_mono_value_class')
    mv.erase_arms('R2', lambda pat: ERASED_PAT.search(pat) is not None, pat_map=wildcard_payloads)
    unit.raw("impl Type {\n")
    unit.add(mv)
    unit.raw("}\n}\n")
    cr = Snippet(csrc.item('enum', 'Credibility'), 'enum Credibility')
    rules.erase_enum_payloads(cr, set(), derives='#[derive(Clone, Copy, Debug, PartialEq, Eq)]\n')
    unit.add(cr)
    unit.raw("impl Context {\n")
    cs = Snippet(csrc.fn('cheap_supertype_of', impl=r'Context'), 'Context::cheap_supertype_of')
    rules.strip_vis_attrs(cs)
    cs.erase_arms('R2', lambda pat: ERASED_PAT.search(pat) is not None, pat_map=wildcard_payloads)
    unit.add(cs)
    st = Snippet(csrc.fn('supertype_of', impl=r'Context'), 'Context::supertype_of')
    rules.strip_vis_attrs(st)
    rules.diagnostics(st)
    unit.add(st)
    unit.raw("}\n")
    arms = '\n'.join("            %d => %s," % (i, v) for i, v in enumerate(fieldless))
    H = """
    const N: u8 = %d;
    fn ty(i: u8) -> Type {
        match i {
%s
            _ => unreachable!(),
        }
    }
    fn sup(a: &Type, b: &Type) -> bool { Context.supertype_of(a, b) }
    fn any_ty() -> Type { let i: u8 = kani::any(); kani::assume(i < N); ty(i) }

    #[kani::proof]
    fn h_table_is_decisive() {
        let (a, b) = (any_ty(), any_ty());
        kani::cover!(a != b, "distinct pairs reachable");
        // on fieldless built-in types the fast table answers with certainty, so supertype_of == the table
        let (cred, judge) = Context::cheap_supertype_of(&a, &b);
        assert!(cred == Absolutely, "the table is decisive on built-in value classes");
        assert!(sup(&a, &b) == judge, "supertype_of follows the table");
    }
    #[kani::proof]
    fn h_reflexive() {
        let a = any_ty();
        kani::cover!(true, "reachable");
        assert!(sup(&a, &a), "T :> T");
    }
    #[kani::proof]
    fn h_transitive() {
        let (a, b, c) = (any_ty(), any_ty(), any_ty());
        // Failure is the placeholder for an already reported error and is deliberately compatible with everything
        kani::assume(a != Failure && b != Failure && c != Failure);
        kani::cover!(sup(&a, &b) && sup(&b, &c) && a != b && b != c, "non-trivial chains reachable");
        if sup(&a, &b) && sup(&b, &c) { assert!(sup(&a, &c), "A :> B and B :> C imply A :> C"); }
    }
    #[kani::proof]
    fn h_bottom_top() {
        let a = any_ty();
        kani::cover!(a != Obj && a != Never, "reachable");
        assert!(sup(&a, &Never), "Never is below every type");
        assert!(sup(&Obj, &a), "Obj is above every type");
        if a != Obj && a != Failure { assert!(!sup(&a, &Obj), "nothing but Obj is above Obj"); }
        if a != Never && a != Failure { assert!(!sup(&Never, &a), "nothing but Never is below Never"); }
    }
    #[kani::proof]
    fn h_numeric_tower() {
        kani::cover!(true, "reachable");
        let tower = [Bool, Nat, Int, Ratio, Float, Complex];
        let (i, j): (usize, usize) = (kani::any(), kani::any());
        kani::assume(i < 6 && j < 6);
        // Bool <: Nat <: Int <: Ratio <: Float <: Complex, and the order is strict
        assert!(sup(&tower[j], &tower[i]) == (i <= j), "tower[i] <: tower[j] exactly when i <= j");
        let other = any_ty();
        if other != Obj && other != Failure && other != Never && !(other == Bool || other == Nat || other == Int || other == Ratio || other == Float || other == Complex) {
            assert!(!sup(&other, &tower[i]) && !sup(&tower[i], &other), "numeric classes are unrelated to the other built-in value classes");
        }
    }
""" % (len(fieldless), arms)
    unit.harness(H)
    hs = [("h_table_is_decisive", "cheap_supertype_of / supertype_of on built-in types", "for all pairs: the table answers Absolutely and supertype_of equals it"),
          ("h_reflexive", "reflexivity", "T :> T for every built-in type"),
          ("h_transitive", "transitivity", "for all triples (Failure excluded): A :> B and B :> C ==> A :> C"),
          ("h_bottom_top", "bottom / top", "Never below and Obj above every built-in type; nothing else above Obj / below Never"),
          ("h_numeric_tower", "numeric tower", "Bool <: Nat <: Int <: Ratio <: Float <: Complex, strict, unrelated to the other value classes")]
    return unit, hs, fieldless


def explore(run):
    """Bounded run-time-checked contract on the REAL Context::subtype_of (builtin context) over unions, intersections and value enums
    of the built-in classes: the structural half of the judgement, which no deductive back end reaches (hash sets, closures over
    iterators, unification). One finding per offending pair of types."""
    import json
    import subprocess
    from vlib import replay as rp
    binary = rp.build(run, 'c06')
    args = ['deep'] if run.tier == 'thorough' else []
    p = subprocess.run([binary] + args, capture_output=True, text=True, timeout=1200)
    lines = [ln for ln in p.stdout.split('\n') if ln.strip().startswith('{')]
    if not lines:
        return {"found": False, "note": "replay produced no result: %s" % p.stderr[-300:]}
    j = json.loads(lines[-1])
    run.extra["bounded_contract_on_subtype_of"] = {"types": j.get("types"), "checks": j.get("checks"),
        "universe": "Never, Obj, 8 built-in classes, unions of 2%s and intersections of 2 of {Bool, Nat, Int, Float, Str, NoneType}, 7 value enums" % (" and 3" if args else ""),
        "laws": "reflexive; Never below / Obj above; tower strict; T <: (T or U); (T and U) <: T; enum below its class; a union is below S if every alternative is; a type below an alternative is below the union; transitive over all triples"}
    fds = []
    for v in j.get("violations", []):
        fds.append({"key": v["pair"], "verdict": "%s although: %s%s" % (v["pair"], v["laws"], (" (" + v["why"] + ")") if v.get("why") else ""),
                    "how": "the real Context::subtype_of on the builtin context, enumerated over the bounded universe", "input": {"pair": v["pair"]},
                    "oracle": v["laws"], "replay_cmd": "%s %s" % (binary, ' '.join(args))})
    return {"found": bool(fds), "findings": fds, "note": "%d types, %d checks, %d offending pairs" % (j.get("types", 0), j.get("checks", 0), len(fds))}


def run(run, replay=None):
    run.explorations.append(("Context::subtype_of", lambda: explore(run)))
    unit, hs, fieldless = build(run)
    res = unit.run([h[0] for h in hs], jobs=5, timeout_s=900)
    run.note_functions(unit.snippets)
    run.extra["types_covered"] = fieldless
    run.trusted.append("derived PartialEq on Type is structural equality on fieldless variants")
    for (h, label, spec) in hs:
        r = res[h]
        if r.status == 'SUCCESS':
            bad_cover = [c for c in r.covers if c[1] != 'SATISFIED']
            if bad_cover or not r.covers:
                run.undecided.append("kani %s: vacuity guard: cover %r" % (h, bad_cover))
                continue
            run.add_obligation(label, 'kani', True, time_s=r.time_s, cmd=r.cmd.replace(h, '<harness>'))
            run.sample({"obligation": label, "backend": "kani loop-free over all fieldless built-in types", "ensures": spec})
        elif r.status == 'FAILURE':
            descs = sorted(set(d for (d, _) in r.failed))
            if any('R2-erased arm reached' in d or 'judgement reached' in d for d in descs):
                run.undecided.append("kani %s: %s" % (h, descs[:2]))
                continue
            key = "%s|kani|%s" % (label, descs[0][:100] if descs else 'failed')
            pb = unit.run_one(h, timeout_s=600, playback=True)
            vals = (pb.cex or {}).get("playback_values_in_order_of_kani_any_calls") or []
            cex = None
            if vals:
                names = []
                for v in vals[:3]:
                    try:
                        names.append(fieldless[int(v["bytes"].split(',')[0])])
                    except Exception:
                        names.append(v["value"])
                cex = {"found": True, "how": "Kani concrete playback on the extracted real table (a pure function of the two types: the printed types are the failing input)",
                       "input": {"types": names}, "failed_checks": descs,
                       "replay_cmd": "echo 'x: %s = (y: %s)'  # the checker's judgement %s :> %s" % (names[0], names[-1], names[0], names[-1])}
            run.add_obligation(key, 'kani', False, detail={"msg": "Kani harness %s FAILED: %s" % (h, '; '.join("%s @ %s" % f for f in r.failed[:6])), "rendered": r.log_tail[-2500:]},
                               time_s=r.time_s, cmd=r.cmd.replace(h, '<harness>'), cex=cex)
        else:
            run.undecided.append("kani %s: %s %s" % (h, r.status, r.log_tail[-400:].replace('\n', ' ') if r.status == 'ERROR' else ''))
