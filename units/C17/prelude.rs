// C17 prelude (hand-written): the body of a double-quoted, non-raw Python string literal (Python reference, 2.4.1 String and Bytes
// literals) as a spec-level DECODER over characters, and the String operations used by PyScriptGenerator::escape_str as wrappers
// with assumed std contracts (rule R4).
use vstd::prelude::*;
verus! {

/// R11: `for c in s.chars()` -> indexed loop over the characters
// @trusted: std contract of str::chars (the characters of the string, in order)
#[verifier::external_body]
pub fn w_chars(s: &str) -> (r: Vec<char>) ensures r@ == s@ { s.chars().collect() }
/// R4: `String::with_capacity(n)` (the capacity is not observable)
// @trusted: std contract of String::with_capacity (an empty string)
#[verifier::external_body]
pub fn w_string_new() -> (r: String) ensures r@ == Seq::<char>::empty() { String::new() }
/// R4: `out.push(c)`
// @trusted: std contract of String::push
#[verifier::external_body]
pub fn w_string_push(out: &mut String, c: char) ensures final(out)@ == old(out)@.push(c) { out.push(c) }

pub open spec fn hex_val(c: char) -> int {
    if '0' <= c <= '9' { c as int - '0' as int } else if 'a' <= c <= 'f' { c as int - 'a' as int + 10 } else if 'A' <= c <= 'F' { c as int - 'A' as int + 10 } else { -1 }
}
pub open spec fn cons(x: int, r: Option<Seq<int>>) -> Option<Seq<int>> { match r { Some(t) => Some(seq![x] + t), None => None } }

/// The characters between the quotation marks of a double-quoted, non-raw Python `str` literal and what they denote (code points),
/// None if the text cannot stand there or uses a form this decoder does not model. Deliberately conservative - the generator must not
/// rely on anything doubtful: a raw quotation mark ends the literal, raw CR/LF/NUL and the other control characters are rejected
/// (Python accepts some of them raw; requiring the escape is stricter), unknown escapes (deprecated: they keep the backslash),
/// octal escapes, \N{..}, \U and line continuations are rejected.
pub open spec fn py_chars(s: Seq<char>) -> Option<Seq<int>>
    decreases s.len()
{
    if s.len() == 0 { Some(Seq::<int>::empty()) }
    else if s[0] == '"' { None }
    else if s[0] == '\\' {
        if s.len() < 2 { None }
        else if s[1] == '\\' { cons(0x5C, py_chars(s.skip(2))) }
        else if s[1] == '\'' { cons(0x27, py_chars(s.skip(2))) }
        else if s[1] == '"' { cons(0x22, py_chars(s.skip(2))) }
        else if s[1] == 'a' { cons(0x07, py_chars(s.skip(2))) }
        else if s[1] == 'b' { cons(0x08, py_chars(s.skip(2))) }
        else if s[1] == 'f' { cons(0x0C, py_chars(s.skip(2))) }
        else if s[1] == 'n' { cons(0x0A, py_chars(s.skip(2))) }
        else if s[1] == 'r' { cons(0x0D, py_chars(s.skip(2))) }
        else if s[1] == 't' { cons(0x09, py_chars(s.skip(2))) }
        else if s[1] == 'v' { cons(0x0B, py_chars(s.skip(2))) }
        else if s[1] == 'x' {
            if s.len() < 4 || hex_val(s[2]) < 0 || hex_val(s[3]) < 0 { None }
            else { cons(hex_val(s[2]) * 16 + hex_val(s[3]), py_chars(s.skip(4))) }
        }
        else if s[1] == 'u' {
            if s.len() < 6 || hex_val(s[2]) < 0 || hex_val(s[3]) < 0 || hex_val(s[4]) < 0 || hex_val(s[5]) < 0 { None }
            else {
                let code = hex_val(s[2]) * 4096 + hex_val(s[3]) * 256 + hex_val(s[4]) * 16 + hex_val(s[5]);
                if 0xD800 <= code <= 0xDFFF { None } else { cons(code, py_chars(s.skip(6))) }
            }
        }
        else { None }
    }
    else if (s[0] as u32) < 0x20 { None }
    else { cons(s[0] as int, py_chars(s.skip(1))) }
}
pub open spec fn codes(s: Seq<char>) -> Seq<int> { s.map_values(|c: char| c as int) }

/// two well-formed runs concatenate
proof fn lemma_chars_append(a: Seq<char>, b: Seq<char>)
    requires py_chars(a).is_some(), py_chars(b).is_some()
    ensures py_chars(a + b) == Some(py_chars(a).unwrap() + py_chars(b).unwrap())
    decreases a.len()
{
    let ab = a + b;
    if a.len() == 0 {
        assert(ab =~= b);
        assert(Seq::<int>::empty() + py_chars(b).unwrap() =~= py_chars(b).unwrap());
    } else if a[0] == '\\' {
        let k: int = if a[1] == 'u' { 6 } else if a[1] == 'x' { 4 } else { 2 };
        assert(ab.skip(k) =~= a.skip(k) + b);
        lemma_chars_append(a.skip(k), b);
        assert(ab[0] == a[0] && ab[1] == a[1]);
        if k >= 4 { assert(ab[2] == a[2] && ab[3] == a[3]); }
        if k == 6 { assert(ab[4] == a[4] && ab[5] == a[5]); }
        let x = py_chars(a).unwrap()[0];
        assert(py_chars(a).unwrap() =~= seq![x] + py_chars(a.skip(k)).unwrap());
        assert(seq![x] + (py_chars(a.skip(k)).unwrap() + py_chars(b).unwrap()) =~= (seq![x] + py_chars(a.skip(k)).unwrap()) + py_chars(b).unwrap());
    } else {
        assert(ab.skip(1) =~= a.skip(1) + b);
        lemma_chars_append(a.skip(1), b);
        assert(ab[0] == a[0]);
        assert(seq![a[0] as int] + (py_chars(a.skip(1)).unwrap() + py_chars(b).unwrap()) =~= (seq![a[0] as int] + py_chars(a.skip(1)).unwrap()) + py_chars(b).unwrap());
    }
}

// ---- what one step of the writer may append, by shape (each decodes to exactly one code point)
pub open spec fn esc2_code(x: char) -> int { if x == '\\' { 0x5C } else if x == '\'' { 0x27 } else if x == '"' { 0x22 } else if x == 'a' { 7 } else if x == 'b' { 8 } else if x == 'f' { 0xC } else if x == 'n' { 0xA } else if x == 'r' { 0xD } else if x == 't' { 9 } else if x == 'v' { 0xB } else { -1 } }
proof fn lemma_shape_plain(c: char)
    requires c != '"', c != '\\', (c as u32) >= 0x20
    ensures py_chars(seq![c]) == Some(seq![c as int])
{
    reveal_with_fuel(py_chars, 2);
    assert(seq![c].skip(1) =~= Seq::<char>::empty());
    assert(seq![c as int] + Seq::<int>::empty() =~= seq![c as int]);
}
proof fn lemma_shape_esc2(x: char)
    requires esc2_code(x) >= 0
    ensures py_chars(seq!['\\', x]) == Some(seq![esc2_code(x)])
{
    let code = esc2_code(x);
    reveal_with_fuel(py_chars, 2);
    assert(seq!['\\', x].skip(2) =~= Seq::<char>::empty());
    assert(seq![code] + Seq::<int>::empty() =~= seq![code]);
}
proof fn lemma_shape_u4(h3: char, h2: char, h1: char, h0: char)
    requires hex_val(h3) >= 0, hex_val(h2) >= 0, hex_val(h1) >= 0, hex_val(h0) >= 0,
        !(0xD800 <= hex_val(h3) * 4096 + hex_val(h2) * 256 + hex_val(h1) * 16 + hex_val(h0) <= 0xDFFF),
    ensures py_chars(seq!['\\', 'u', h3, h2, h1, h0]) == Some(seq![hex_val(h3) * 4096 + hex_val(h2) * 256 + hex_val(h1) * 16 + hex_val(h0)])
{
    reveal_with_fuel(py_chars, 2);
    let code = hex_val(h3) * 4096 + hex_val(h2) * 256 + hex_val(h1) * 16 + hex_val(h0);
    assert(seq!['\\', 'u', h3, h2, h1, h0].skip(6) =~= Seq::<char>::empty());
    assert(seq![code] + Seq::<int>::empty() =~= seq![code]);
}
proof fn lemma_shape_x2(h1: char, h0: char)
    requires hex_val(h1) >= 0, hex_val(h0) >= 0
    ensures py_chars(seq!['\\', 'x', h1, h0]) == Some(seq![hex_val(h1) * 16 + hex_val(h0)])
{
    reveal_with_fuel(py_chars, 2);
    let code = hex_val(h1) * 16 + hex_val(h0);
    assert(seq!['\\', 'x', h1, h0].skip(4) =~= Seq::<char>::empty());
    assert(seq![code] + Seq::<int>::empty() =~= seq![code]);
}
/// a piece of one of the known shapes: its denotation (None if the piece is of no known shape)
pub open spec fn piece_code(p: Seq<char>) -> Option<int> {
    if p.len() == 1 { if p[0] != '"' && p[0] != '\\' && (p[0] as u32) >= 0x20 { Some(p[0] as int) } else { None } }
    else if p.len() == 2 && p[0] == '\\' { if esc2_code(p[1]) >= 0 { Some(esc2_code(p[1])) } else { None } }
    else if p.len() == 4 && p[0] == '\\' && p[1] == 'x' && hex_val(p[2]) >= 0 && hex_val(p[3]) >= 0 { Some(hex_val(p[2]) * 16 + hex_val(p[3])) }
    else if p.len() == 6 && p[0] == '\\' && p[1] == 'u' && hex_val(p[2]) >= 0 && hex_val(p[3]) >= 0 && hex_val(p[4]) >= 0 && hex_val(p[5]) >= 0
        && !(0xD800 <= hex_val(p[2]) * 4096 + hex_val(p[3]) * 256 + hex_val(p[4]) * 16 + hex_val(p[5]) <= 0xDFFF) {
        Some(hex_val(p[2]) * 4096 + hex_val(p[3]) * 256 + hex_val(p[4]) * 16 + hex_val(p[5])) }
    else { None }
}
proof fn lemma_piece(p: Seq<char>)
    requires piece_code(p).is_some()
    ensures py_chars(p) == Some(seq![piece_code(p).unwrap()])
{
    if p.len() == 1 { assert(p =~= seq![p[0]]); lemma_shape_plain(p[0]); }
    else if p.len() == 2 { assert(p =~= seq![p[0], p[1]]); lemma_shape_esc2(p[1]); }
    else if p.len() == 4 { assert(p =~= seq![p[0], p[1], p[2], p[3]]); lemma_shape_x2(p[2], p[3]); }
    else { assert(p =~= seq![p[0], p[1], p[2], p[3], p[4], p[5]]); lemma_shape_u4(p[2], p[3], p[4], p[5]); }
}
} // verus!
