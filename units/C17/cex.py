"""C17 bounded differential run (not counted as proved): generated programs with arbitrary string contents through the REAL
`erg transpile` of $ERG_REPO, executed by python3, against `erg run` of the same program: same printed output, same exit status."""
import os
import random
import subprocess

from units.C14.cex import build_erg
from units.C18.cex import erg_str, ambiguous_quotes

CHARS = ['a', 'Z', ' ', '"', '\\', '\n', '\r', '\0', "'", '/', 'é', '😀', '{', '}', ':', '%', '\x01', '\x1f', '\x7f', 'n', 'x', '0', '7',
         '\x80', '\xa0', '\u2028', '\u2029', '\ufeff', '\uffff', '\U0010ffff']


def gen_str(rng):
    while True:
        s = ''.join(rng.choice(CHARS) for _ in range(rng.randint(0, 7)))
        if not ambiguous_quotes(s):
            return s


def gen_program(rng):
    lines = []
    n = 0
    for i in range(rng.randint(2, 6)):
        k = rng.random()
        if k < 0.1:
            while True:
                ms = gen_str(rng)
                if '"' not in ms:
                    break
            lines.append('print! ""%s""' % erg_str(ms))   # a multi-line literal
        elif k < 0.35:
            lines.append('print! %s' % erg_str(gen_str(rng)))
        elif k < 0.6:
            lines.append('s%d = %s' % (n, erg_str(gen_str(rng))))
            lines.append('print! s%d' % n)
            lines.append('print! len(s%d)' % n)
            n += 1
        elif k < 0.8:
            lines.append('print! %s + %s' % (erg_str(gen_str(rng)), erg_str(gen_str(rng))))
        elif k < 0.9:
            lines.append('print! [%s, %s]' % (erg_str(gen_str(rng)), erg_str(gen_str(rng))))
        else:
            lines.append('if! %s == %s, do!:' % (erg_str(gen_str(rng)), erg_str(gen_str(rng))))
            lines.append('    print! "same"')
    return lines


SPECIALS = ['\0', '\\', '"', '\n', '\r', '\x01', '\x1f', "'", '{', '}', '%', '\x7f', '\u2028']
FOLLOWERS = list('0123456789') + ['n', 'x', 'u', 'U', 'N', 'a', 'b', 'f', '"', '\\', '\n', '{', "'", '']


def probe_programs():
    """deterministic probes: every special character followed by every follower (an escape must not change meaning because of what
    comes next: `\\0` + digit is an octal escape, `\\x` + one hex digit is an error, ...), in one-line and in multi-line literals"""
    progs = []
    for sp in SPECIALS:
        lines = []
        for fo in FOLLOWERS:
            s = 'a' + sp + fo + 'z'
            if ambiguous_quotes(s):
                continue
            lines.append('print! %s' % erg_str(s))
            lines.append('print! len(%s)' % erg_str(s))
        progs.append(lines)
    # multi-line literals (escapes are resolved by the lexer there too); no quotation mark inside
    ml = []
    for sp in SPECIALS:
        if sp == '"':
            continue
        for fo in ('0', 'n', 'x', '\\', 't', ''):
            s = 'a' + sp + fo + 'z'
            ml.append('print! ""%s""' % erg_str(s))
            ml.append('print! len(""%s"")' % erg_str(s))
    for k in range(0, len(ml), 24):
        progs.append(ml[k:k + 24])
    return progs


def first_finding(r):
    fs = (r or {}).get("findings", [])
    if fs:
        return dict(fs[0], found=True)
    return {"found": False, "note": (r or {}).get("note") or "the generated programs behave alike"}


def explore(run, n_programs=None):
    erg = build_erg(run)
    rng = random.Random((run.seed or 0) + 17)
    n_programs = n_programs or (30 if run.tier != 'thorough' else 300)
    work = os.path.join(run.scratch, 'py')
    os.makedirs(work, exist_ok=True)
    findings = []
    declined = compared = 0
    env = dict(os.environ, PYTHONIOENCODING='utf-8')
    probes = probe_programs()
    for m in range(n_programs + len(probes)):
        lines = probes[m - n_programs] if m >= n_programs else gen_program(rng)
        path = os.path.join(work, 'p%d.er' % m)
        with open(path, 'w', encoding='utf-8') as f:
            f.write('\n'.join(lines) + '\n')
        out = path[:-3] + '.py'
        if os.path.exists(out):
            os.remove(out)
        t = subprocess.run([erg, 'transpile', path], capture_output=True, timeout=300, env=env)
        if not os.path.exists(out):
            declined += 1
            continue
        r1 = subprocess.run([erg, 'run', path], capture_output=True, timeout=300, env=env)
        r2 = subprocess.run(['python3', out], capture_output=True, timeout=300, env=env, cwd=work)
        compared += 1
        what = None
        if r2.returncode != r1.returncode:
            what = ("exit status", "the script exits with %d, the compiled program with %d: %s" % (r2.returncode, r1.returncode, r2.stderr.decode('utf-8', 'replace')[-160:].replace('\n', ' ')))
        elif r2.stdout != r1.stdout:
            what = ("printed output", "the script prints %r, the compiled program prints %r" % (r2.stdout[:120], r1.stdout[:120]))
        if what and not any(f["key"] == what[0] for f in findings):
            findings.append({"key": what[0], "how": "generated program through the real `erg transpile`, run by python3, against `erg run`",
                             "input": '\n'.join(lines)[:1200], "real_result": what[1][:600], "oracle": "`erg run` of the same program (compiled bytecode)",
                             "verdict": what[1][:300], "replay_cmd": "%s transpile %s && python3 %s ; %s run %s" % (erg, path, out, erg, path)})
    run.extra["bounded_differential_run_on_python_target"] = {"programs": n_programs, "deterministic_probe_programs": len(probes), "declined_by_the_transpiler_or_checker": declined, "compared": compared,
                                                             "rule": "programs of 2-6 statements: print! of a string literal / a bound string and its length / a concatenation / a list of strings, an if! on string equality; print! of a multi-line literal; string contents over %d characters (quote, apostrophe, backslash, LF, CR, NUL, other control characters, DEL, braces, %%, digits after escapes, U+0080..U+10FFFF); plus deterministic probes: each of %d special characters followed by each of %d followers, in one-line and multi-line literals" % (len(CHARS), len(SPECIALS), len(FOLLOWERS))}
    return {"findings": findings, "found": bool(findings), "note": None if findings else "%d programs compared (%d declined): same output and exit status" % (compared, declined)}
