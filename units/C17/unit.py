"""C17 (partial): string literals of the Python transpile target. Verus on the real text of PyScriptGenerator::escape_str (and hex_digit):
what is written between the quotation marks is the body of a double-quoted Python string literal (spec-level decoder) that denotes exactly
the characters of the value. Everything else the statement says (the whole script generator, names, blocks, calls, the behaviour of the
script) is outside any contract: a BOUNDED differential run (generated programs, `erg transpile` + python3 vs `erg run`) stands next to
it and is not counted."""
import os
import re

from vlib.extract import Source
from vlib.snippet import Snippet, Undecided
from vlib.verus_unit import VerusUnit

HERE = os.path.dirname(os.path.abspath(__file__))
TRANSPILE = 'crates/erg_compiler/transpile.rs'

ESC_SPEC = """ensures
        // the result can stand between the quotation marks of a (non-raw) Python string literal and denotes exactly the characters of s
        py_chars(res@) == Some(codes(s@)),"""

ESC_LOOP = """invariant
            verif_i <= verif_cs@.len(), verif_cs@ == s@,
            py_chars(out@) == Some(codes(s@.take(verif_i as int))),
        decreases verif_cs@.len() - verif_i,"""


def build_verus(run):
    src = Source(run.repo, TRANSPILE)
    unit = VerusUnit('C17', run.scratch)
    unit.raw_file(os.path.join(HERE, 'prelude.rs'))
    unit.raw("verus! {\n")
    hd = Snippet(src.fn('hex_digit'), 'hex_digit')
    hd.contract("requires nibble < 16,\n    ensures hex_val(res) == nibble,   // some hexadecimal digit of that value (either case)")
    unit.add(hd)
    for probe in (False, True):
        es = Snippet(src.fn('escape_str', impl=r'PyScriptGenerator'), 'vacuity-probe PyScriptGenerator::escape_str' if probe else 'PyScriptGenerator::escape_str')
        es.rw('R4', r'String::with_capacity\(s\.len\(\)\)', 'w_string_new()', expect=1)
        es.rw('R11', r'for (\w+) in s\.chars\(\) \{', r'let verif_cs = w_chars(s);\n        let mut verif_i: usize = 0;\n        while verif_i < verif_cs.len() {\n            let \1 = verif_cs[verif_i]; verif_i = verif_i + 1;', expect=1)
        es.rw('R4', r'\bout\.push\(', 'w_string_push(&mut out, ', expect='+')
        if probe:
            es.rename_fn('escape_str__vacuity_probe')
            run.extra.setdefault('vacuity_probe_labels', []).append(es.label)
        es.contract('ensures false,' if probe else ESC_SPEC)
        es.loop_spec(0, ESC_LOOP)
        es.insert_at(r'let mut verif_i: usize = 0;', "        proof { assert(codes(s@.take(0)) =~= Seq::<int>::empty()); }", where='after')
        es.insert_at(r'verif_i = verif_i \+ 1;', """            let ghost verif_out1 = out@;
            proof {
                let cu = c as u32;
                assert(cu < 0x20 ==> (cu >> 4) < 16 && (cu & 0xF) < 16 && ((cu >> 4) * 16 + (cu & 0xF)) == cu) by(bit_vector);
                // general facts about nibbles (so that a changed guard or mask is decided instead of exhausting the solver)
                assert(((cu >> 4) & 0xF) < 16 && (cu & 0xF) < 16 && ((cu >> 8) & 0xF) < 16 && ((cu >> 12) & 0xF) < 16) by(bit_vector);
                assert(cu < 0x100 ==> ((cu >> 4) & 0xF) == (cu >> 4)) by(bit_vector);
                assert(cu < 0x10000 ==> ((cu >> 12) & 0xF) * 4096 + ((cu >> 8) & 0xF) * 256 + ((cu >> 4) & 0xF) * 16 + (cu & 0xF) == cu) by(bit_vector);
            }""", where='after')
        # end of the loop body: whatever this iteration appended denotes exactly c
        es.loop_body_end(0, """            proof {
                let piece = out@.skip(verif_out1.len() as int);
                // the piece is of one of the known shapes and that shape denotes c (decided by shape, without unfolding the decoder)
                assert(piece.len() == out@.len() - verif_out1.len());
                assert(piece_code(piece) == Some(c as int));
                lemma_piece(piece);
                assert(out@ =~= verif_out1 + piece);
                lemma_chars_append(verif_out1, piece);
                assert(codes(s@.take(verif_i as int)) =~= codes(s@.take(verif_i as int - 1)) + seq![c as int]);
            }""")
        es.after_loop(0, "        proof { assert(s@.take(verif_i as int) =~= s@); }")
        unit.raw("pub struct PyScriptGenerator { }   // R1: fields erased (escape_str is an associated function without self)\nimpl PyScriptGenerator {\n" if not probe else "")
        unit.add(es)
    unit.raw("}\n} // verus!\n")
    run.sample({"function": "PyScriptGenerator::escape_str", "ensures": "the result is the body of a double-quoted Python string literal (spec-level decoder of the escapes \\\\ \\' \\\" \\a \\b \\f \\n \\r \\t \\v \\xHH \\uXXXX; raw quotation mark and control characters rejected) that denotes exactly the characters of the value, for every string; terminates"})
    return unit


def anchors(run):
    src = Source(run.repo, TRANSPILE)
    tl = src.fn('transpile_lit', impl=r'PyScriptGenerator')
    if not re.search(r'ValueObj::Str\((\w+)\)\s*=>\s*format!\("\\"\{\}\\"",\s*Self::escape_str\(\1\)\)', tl.text):
        raise Undecided("PyScriptGenerator::transpile_lit no longer writes a Str literal as a quotation mark + escape_str(value) + a quotation mark")
    # ... and no other arm decides how a Str literal is written
    m = re.search(r'let text = match &lit\.value \{(.*?)\n        \};', tl.text, re.S)
    if not m or len(re.findall(r'ValueObj::Str\b', m.group(1))) != 1:
        raise Undecided("PyScriptGenerator::transpile_lit: the match that chooses the text of a literal has more than one arm for Str (or changed shape)")
    d = tl.describe()
    d["unit_label"] = "PyScriptGenerator::transpile_lit (textual anchor + BOUNDED differential run only)"
    run.functions.append(d)


def run(run, replay=None):
    from units.C17 import cex
    run.level = 'proof'
    run.explorations.append(("Python target", lambda: cex.explore(run)))
    anchors(run)
    unit = build_verus(run)
    res = unit.run(rlimit=60)
    run.add_verus(unit, res, cex_finder=lambda f: cex.first_finding(cex.explore(run, 12)), expect_fail=tuple(run.extra.get('vacuity_probe_labels', ())))
    run.bounded_note = "only the string literals are under contract; the script generator as a whole (names, blocks, calls, classes, control flow, the prelude) and the behaviour of the script are covered only by the bounded differential run (coverage.bounded_differential_run_on_python_target), not counted in the obligations"
    run.assumptions.append("str::chars, String::with_capacity and String::push carry assumed std contracts. The Python literal grammar is the conservative decoder of the prelude (octal, \\\\N{}, \\\\U, line continuation and unknown escapes rejected; raw control characters rejected although CPython accepts some).")
    run.assumptions.append("PyScriptGenerator::transpile and everything it calls except escape_str/hex_digit: no contract; BOUNDED differential run only (generated programs through `erg transpile` + the default python3 against `erg run`).")
