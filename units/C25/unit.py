"""C25 (partial): REPL client framing (src/dummy.rs): Inst::from, Message::new/len, MessageStream::send_msg/recv_msg. Verus."""
import os
import re

from vlib.extract import Source
from vlib.snippet import Snippet, Undecided
from vlib.verus_unit import VerusUnit
from vlib import rules

HERE = os.path.dirname(os.path.abspath(__file__))
DUMMY = 'src/dummy.rs'


def build(run):
    src = Source(run.repo, DUMMY)
    unit = VerusUnit('C25', run.scratch)
    unit.raw_file(os.path.join(HERE, 'prelude.rs'))
    unit.raw("verus! {\n")
    inst = Snippet(src.item('enum', 'Inst'), 'enum Inst')
    _, variants = rules.parse_enum(inst.text)
    rules.erase_enum_payloads(inst, set(), derives='#[derive(Clone, Copy, PartialEq, Eq)]\n#[repr(u8)]\n')
    unit.add(inst)
    # discriminant spec generated from the extracted enum text
    arms = '\n'.join("        Inst::%s => %s," % (v, disc) for (v, k, disc) in variants)
    unit.raw("pub open spec fn inst_code(i: Inst) -> u8 {\n    match i {\n%s\n    }\n}\n" % arms)
    # inverse of the discriminant table (generated from the enum text, not from the match in From<u8>)
    inv = ''.join("if v == %s { Inst::%s } else " % (disc, v) for (v, k, disc) in variants if v != 'Unknown')
    unit.raw("pub open spec fn inst_of(v: u8) -> Inst {\n    %s{ Inst::Unknown }\n}\n" % inv)
    unit.raw("proof fn lemma_inst_roundtrip(i: Inst) ensures inst_of(inst_code(i)) == i { }\n")
    unit.raw("""impl vstd::std_specs::convert::FromSpecImpl<u8> for Inst {
    open spec fn obeys_from_spec() -> bool { false }
    uninterp spec fn from_spec(v: u8) -> Inst;
}
""")
    fr = Snippet(src.fn('from', impl=r'From<u8> for Inst'), 'From<u8> for Inst')
    fr.contract("ensures res == inst_of(v),  // decoding inverts the discriminant table; everything else is Unknown")
    unit.raw("impl From<u8> for Inst {\n")
    unit.add(fr)
    unit.raw("}\n")
    msg = Snippet(src.item('struct', 'Message'), 'struct Message')
    msg.rw('R7', r'^struct Message', 'pub struct Message', expect=1)
    msg.rw('R7', r'(?m)^(\s+)(inst|size|data):', r'\1pub \2:', expect=3)
    unit.add(msg)
    unit.raw("impl Message {\n")
    new = Snippet(src.fn('new', impl=r'Message'), 'Message::new')
    rules.strip_vis_attrs(new)
    rules.diagnostics(new)
    big = new.copy('Message::new[data.len()>65535]')
    big.rename_fn('new__large')
    big.contract("requires data_bytes(data).len() > 65535,\n    ensures msg_wf(res),")
    new.contract("ensures res.inst == inst, res.data == data, data_bytes(data).len() <= 65535 ==> msg_wf(res),")
    unit.add(new)
    unit.add(big)
    ln = Snippet(src.fn('len', impl=r'Message'), 'Message::len')
    rules.strip_vis_attrs(ln)
    ln.contract("ensures res == self.size,")
    unit.add(ln)
    unit.raw("}\n")
    ms = Snippet(src.item('struct', 'MessageStream'), 'struct MessageStream')
    ms.rw('R5', r'struct MessageStream<T: Read \+ Write>', 'pub struct MessageStream', expect=1)
    ms.rw('R5', r'\bstream: T\b', 'pub stream: Pipe', expect=1)
    unit.add(ms)
    unit.raw("impl MessageStream {\n")
    send = Snippet(src.fn('send_msg', impl=r'<T: Read \+ Write> MessageStream<T>'), 'MessageStream::send_msg')
    send.rw('R4', r'write_buf\.extend\(\(msg\.inst as u8\)\.to_be_bytes\(\)\);', 'w_extend_arr1(&mut write_buf, w_u8_to_be(msg.inst as u8));', expect=1)
    send.rw('R4', r'write_buf\.extend\(\(msg\.size\)\.to_be_bytes\(\)\);', 'w_extend_arr2(&mut write_buf, w_u16_to_be(msg.size));', expect=1)
    send.rw('R4', r'&msg\.data\.clone\(\)\.unwrap_or_default\(\)', 'w_data_or_empty(&msg.data).as_slice()', expect=1)
    send.contract("""ensures
        res is Ok ==> final(self).stream.written() == old(self).stream.written() + frame(*msg),
        final(self).stream.incoming() == old(self).stream.incoming(),""")
    send.body_prologue("broadcast use vstd::seq_lib::group_seq_properties;")
    unit.add(send)
    recv = Snippet(src.fn('recv_msg', impl=r'<T: Read \+ Write> MessageStream<T>'), 'MessageStream::recv_msg')
    recv.rw('R5', r'self\.stream\.read_exact\(&mut inst_buf\)', 'self.stream.read_exact_arr1(&mut inst_buf)', expect=1)
    recv.rw('R5', r'self\.stream\.read_exact\(&mut size_buf\)', 'self.stream.read_exact_arr2(&mut size_buf)', expect=1)
    recv.rw('R5', r'self\.stream\.read_exact\(&mut data_buf\)', 'self.stream.read_exact_vec(&mut data_buf)', expect=1)
    recv.rw('R4', r'u8::from_be_bytes\(inst_buf\)\.into\(\)', 'Inst::from(w_u8_from_be(inst_buf))', expect=1)
    recv.rw('R8', r'u16::from_be_bytes\(size_buf\)', 'w_u16_from_be(size_buf)', expect=1)
    recv.contract("""ensures
        res matches Ok(got) ==> (decode_ok(old(self).stream.incoming(), got, final(self).stream.incoming()) && msg_wf(got)),
        whole_message_pending(old(self).stream.incoming()) ==> res is Ok,
        final(self).stream.written() == old(self).stream.written(),""")
    recv.body_prologue("broadcast use vstd::seq_lib::group_seq_properties;")
    recv.insert_at(r'if data_size == 0', """        proof {
            let inc = old(self).stream.incoming();
            assert(inst_buf@[0] == inc[0]);
            assert(size_buf@[0] == inc[1] && size_buf@[1] == inc[2]);
            assert(self.stream.incoming() =~= inc.subrange(3, inc.len() as int));
            assert(inc.subrange(3, 3) =~= Seq::<u8>::empty());
        }""", where='before')
    recv.insert_at(r'Ok\(Message::new\(inst, Some\(data_buf\)\)\)', """        proof {
            let inc = old(self).stream.incoming();
            assert(data_buf@ =~= inc.subrange(3, 3 + data_size as int));
            assert(self.stream.incoming() =~= inc.subrange(3 + data_size as int, inc.len() as int));
        }""", where='before')
    unit.add(recv)
    unit.raw("}\n")
    unit.raw("""
// "results stay in step": sending m1 then m2 and receiving twice yields m1 then m2 (lemma over the two contracts)
proof fn lemma_frames_concat(m1: Message, m2: Message, rest: Seq<u8>)
    ensures (frame(m1) + frame(m2)) + rest == frame(m1) + (frame(m2) + rest)
{
    assert(((frame(m1) + frame(m2)) + rest) =~= (frame(m1) + (frame(m2) + rest)));
}
} // verus!
""")
    run.sample({"function": "MessageStream::recv_msg", "ensures": "incoming == frame(m) ++ rest with size == len(data) ==> returns m, leaves rest"})
    run.sample({"function": "MessageStream::send_msg", "ensures": "written' == written ++ frame(msg)"})
    run.sample({"function": "Message::new", "ensures": "size == data.len() (msg_wf)"})
    return unit


def run(run, replay=None):
    run.fallbacks.append(("MessageStream framing", lambda: cex_mod().find(run, {}, skip_known=True)))
    from units.C25 import pyserver
    run.explorations.append(("Python MessageStream", lambda: pyserver.explore(run)))
    from vlib.extract import Source as _S
    import hashlib
    _cls, _text = pyserver.load_class(run.repo)
    run.functions.append({"item": "class MessageStream (recv_msg, send_msg)", "file": "src/scripts/repl_server.py", "lines": "-", "sha256": hashlib.sha256((_text or '').encode()).hexdigest()[:16],
                          "unit_label": "Python MessageStream: BOUNDED run-time-checked contract only (no deductive verifier for Python here)"})
    unit = build(run)
    res = unit.run(rlimit=60)
    run.add_verus(unit, res, cex_finder=lambda f: find_cex(run, f))
    run.assumptions.append("Read::read_exact / Write::write_all obey their std contracts on the transport (this is what makes decoding independent of how the byte stream is split into reads); DummyVM::eval's history is not carried. The Python server's MessageStream (src/scripts/repl_server.py) is covered only by a BOUNDED run-time-checked contract (coverage.bounded_contract_on_python_message_stream): its class text is extracted from the real file and run over a fake socket that delivers and accepts partial buffers.")


def cex_mod():
    from units.C25 import cex
    return cex


def find_cex(run, failure):
    from units.C25 import cex
    return cex.find(run, failure)
