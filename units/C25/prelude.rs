// C25 prelude (hand-written): ghost byte pipe standing for `T: Read + Write`, std wrappers, framing spec.
use vstd::prelude::*;

verus! {

// @trusted: std::io::Error is an opaque external type
#[verifier::external_type_specification]
#[verifier::external_body]
pub struct ExIoError(std::io::Error);

/// R5: `T := Pipe`. A full-duplex byte stream: `written` is everything written so far, `incoming` the bytes
/// still to be read. read_exact/write_all carry std's contracts (Read::read_exact fills the whole buffer or
/// fails; Write::write_all writes the whole buffer or fails) - which is exactly what makes the decoded
/// message independent of how the transport splits the byte stream into reads.
// @trusted: R5 ghost model of the transport `T: Read + Write`
#[verifier::external_body]
pub struct Pipe { _p: core::marker::PhantomData<()> }

impl Pipe {
    pub uninterp spec fn written(&self) -> Seq<u8>;
    pub uninterp spec fn incoming(&self) -> Seq<u8>;
    // (transport errors are out of scope: a read succeeds whenever enough bytes are pending)

    // @trusted: std contract of Write::write_all (Ok => the whole buffer was appended)
    #[verifier::external_body]
    pub fn write_all(&mut self, buf: &Vec<u8>) -> (r: Result<(), std::io::Error>)
        ensures
            r is Ok ==> final(self).written() == old(self).written() + buf@,
            final(self).incoming() == old(self).incoming(),
    { unimplemented!() }

    // @trusted: std contract of Read::read_exact on a 1-byte array (Ok => exactly the next byte was consumed)
    #[verifier::external_body]
    pub fn read_exact_arr1(&mut self, buf: &mut [u8; 1]) -> (r: Result<(), std::io::Error>)
        ensures
            old(self).incoming().len() >= 1 ==> r is Ok,
            r is Ok ==> old(self).incoming().len() >= 1 && final(buf)@ == old(self).incoming().subrange(0, 1)
                && final(self).incoming() == old(self).incoming().subrange(1, old(self).incoming().len() as int),
            final(self).written() == old(self).written(),
    { unimplemented!() }

    // @trusted: std contract of Read::read_exact on a 2-byte array
    #[verifier::external_body]
    pub fn read_exact_arr2(&mut self, buf: &mut [u8; 2]) -> (r: Result<(), std::io::Error>)
        ensures
            old(self).incoming().len() >= 2 ==> r is Ok,
            r is Ok ==> old(self).incoming().len() >= 2 && final(buf)@ == old(self).incoming().subrange(0, 2)
                && final(self).incoming() == old(self).incoming().subrange(2, old(self).incoming().len() as int),
            final(self).written() == old(self).written(),
    { unimplemented!() }

    // @trusted: std contract of Read::read_exact on a Vec buffer (fills all old(buf).len() bytes)
    #[verifier::external_body]
    pub fn read_exact_vec(&mut self, buf: &mut Vec<u8>) -> (r: Result<(), std::io::Error>)
        ensures
            final(buf)@.len() == old(buf)@.len(),
            old(self).incoming().len() >= old(buf)@.len() ==> r is Ok,
            r is Ok ==> old(self).incoming().len() >= old(buf)@.len() && final(buf)@ == old(self).incoming().subrange(0, old(buf)@.len() as int)
                && final(self).incoming() == old(self).incoming().subrange(old(buf)@.len() as int, old(self).incoming().len() as int),
            final(self).written() == old(self).written(),
    { unimplemented!() }
}

// ---- R8/R4/R9 std wrappers --------------------------------------------------------------------
// @trusted: u8::to_be_bytes
#[verifier::external_body]
fn w_u8_to_be(x: u8) -> (r: [u8; 1]) ensures r@ == seq![x] { x.to_be_bytes() }
// @trusted: u16::to_be_bytes (big endian: high byte first)
#[verifier::external_body]
fn w_u16_to_be(x: u16) -> (r: [u8; 2]) ensures r@ == seq![(x / 256) as u8, (x % 256) as u8] { x.to_be_bytes() }
// @trusted: u8::from_be_bytes
#[verifier::external_body]
fn w_u8_from_be(b: [u8; 1]) -> (r: u8) ensures r == b[0] { u8::from_be_bytes(b) }
// @trusted: u16::from_be_bytes
#[verifier::external_body]
fn w_u16_from_be(b: [u8; 2]) -> (r: u16) ensures r == b[0] as int * 256 + b[1] as int { u16::from_be_bytes(b) }
// @trusted: Vec::extend with a 1-byte array appends its bytes
#[verifier::external_body]
fn w_extend_arr1(v: &mut Vec<u8>, a: [u8; 1]) ensures final(v)@ == old(v)@ + a@ { v.extend(a) }
// @trusted: Vec::extend with a 2-byte array appends its bytes
#[verifier::external_body]
fn w_extend_arr2(v: &mut Vec<u8>, a: [u8; 2]) ensures final(v)@ == old(v)@ + a@ { v.extend(a) }
// @trusted: Option<Vec<u8>>::clone().unwrap_or_default(): the payload bytes, or nothing
#[verifier::external_body]
fn w_data_or_empty(d: &Option<Vec<u8>>) -> (r: Vec<u8>) ensures r@ == data_bytes(*d) { d.clone().unwrap_or_default() }

// ---- specification -------------------------------------------------------------------------------
pub open spec fn data_bytes(d: Option<Vec<u8>>) -> Seq<u8> {
    match d { Some(v) => v@, None => Seq::<u8>::empty() }
}
/// a message whose size field equals the length of its payload
pub open spec fn msg_wf(m: Message) -> bool { m.size as int == data_bytes(m.data).len() }
/// the wire format: | inst: 1 byte | size: 2 bytes big endian | data: size bytes |
pub open spec fn frame(m: Message) -> Seq<u8> {
    seq![inst_code(m.inst)] + seq![(m.size / 256) as u8, (m.size % 256) as u8] + data_bytes(m.data)
}
/// two messages carry the same content (None and Some(empty) are the same payload on the wire)
pub open spec fn same_msg(a: Message, b: Message) -> bool {
    a.inst == b.inst && a.size == b.size && data_bytes(a.data) == data_bytes(b.data)
}


/// what the reader must make of the pending bytes `inc`: message `got`, leaving `rest`
pub open spec fn decode_ok(inc: Seq<u8>, got: Message, rest: Seq<u8>) -> bool {
    &&& inc.len() >= 3
    &&& got.inst == inst_of(inc[0])
    &&& got.size as int == inc[1] as int * 256 + inc[2] as int
    &&& inc.len() >= 3 + got.size as int
    &&& data_bytes(got.data) == inc.subrange(3, 3 + got.size as int)
    &&& rest == inc.subrange(3 + got.size as int, inc.len() as int)
}
/// enough bytes are pending for one whole message
pub open spec fn whole_message_pending(inc: Seq<u8>) -> bool {
    inc.len() >= 3 && inc.len() >= 3 + inc[1] as int * 256 + inc[2] as int
}

/// decoding inverts framing: every well-formed message is decoded exactly as sent, whatever follows it
pub proof fn lemma_decode_frame(m: Message, rest: Seq<u8>, got: Message, rest2: Seq<u8>)
    requires msg_wf(m), inst_of(inst_code(m.inst)) == m.inst, decode_ok(frame(m) + rest, got, rest2)
    ensures same_msg(got, m), rest2 == rest, whole_message_pending(frame(m) + rest)
{
    let inc = frame(m) + rest;
    let hd = seq![inst_code(m.inst)] + seq![(m.size / 256) as u8, (m.size % 256) as u8];
    assert(hd.len() == 3);
    assert(frame(m) == hd + data_bytes(m.data));
    assert(inc[0] == inst_code(m.inst));
    assert(inc[1] == (m.size / 256) as u8);
    assert(inc[2] == (m.size % 256) as u8);
    assert(got.size == m.size);
    assert(inc.subrange(3, 3 + m.size as int) =~= data_bytes(m.data));
    assert(inc.subrange(3 + m.size as int, inc.len() as int) =~= rest);
}

} // verus!
