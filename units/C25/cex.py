"""Counterexample search + replay for C25: payload sizes around the u16 boundary are framed and decoded by the
REAL code (hook erg::verif_hooks::frame_and_decode, --cfg erg_verif) followed by a second well-formed frame."""
import re

from vlib import replay

# the u16 boundary, the u8 boundary and the buffer sizes a chunked reader would plausibly use (powers of two and their neighbours, multiples)
SIZES = ['none', 0, 1, 2, 3, 5, 63, 64, 65, 127, 128, 129, 255, 256, 257, 511, 512, 513, 1023, 1024, 1025, 1460, 2047, 2048, 2049, 4095, 4096, 4097, 8191, 8192, 8193,
         12288, 16383, 16384, 16385, 32767, 32768, 32769, 61440, 65534, 65535, 65536, 65537, 70000, 131072]


def expect(inst, n, fill, tail):
    ln = 0 if n == 'none' else n
    first = "Ok(inst=%d,size=%d,len=%d,sum=%d)" % (inst, ln, ln, ln * fill)
    second = "Ok(inst=1,size=%d,len=%d,sum=%d)" % (tail, tail, tail * 0x5a)
    return first, second


def find(run, failure, skip_known=False):
    binary = replay.build(run, 'c25', deps=('erg',), cfg_hook=True)
    sizes = [n for n in SIZES if not (skip_known and isinstance(n, int) and n > 65535)]   # payloads above 65535: listed known finding
    cases = [(inst, n, 7, 4) for n in sizes for inst in (1, 6)]
    lines = ["%d %s %d %d" % c for c in cases]
    outs = replay.run_lines(binary, lines)
    for c, out in zip(cases, outs):
        inst, n, fill, tail = c
        f, s = expect(inst, n, fill, tail)
        m = re.search(r'first=(.*?) second=(.*)$', out)
        if not m:
            continue
        if m.group(1) != f or m.group(2) != s:
            return {"found": True, "how": "size-boundary search on the real Message::new/send_msg/recv_msg through the guarded hook (Verus gives no model)",
                    "input": {"inst": inst, "payload_len": n, "fill": fill, "followed_by_frame_of_len": tail},
                    "real_result": out, "oracle": "first=%s second=%s" % (f, s),
                    "verdict": "the message is not decoded as sent and/or the following message is decoded out of step",
                    "replay_cmd": "echo '%d %s %d %d' | %s" % (inst, n, fill, tail, binary)}
    return {"found": False, "note": "no disagreement on %d payload sizes" % len(cases)}
