"""C25, Python side (BOUNDED run-time-checked contract, not counted as proved: no deductive verifier for Python here): the MessageStream
class of the REAL src/scripts/repl_server.py, extracted textually and run over a fake socket that splits the byte stream into chunks.
Contract: recv_msg returns exactly the messages that were framed, in order, however the stream is split into reads; send_msg puts
exactly frame(inst, data) on the wire even if the socket accepts only part of a buffer per send call."""
import itertools
import os
import re


class FakeSocket:
    def __init__(self, data=b'', chunks=None, send_limit=None):
        self.data = bytes(data)
        self.pos = 0
        self.chunks = list(chunks or [])
        self.sent = bytearray()
        self.send_limit = send_limit

    def recv(self, n):
        if n <= 0 or self.pos >= len(self.data):
            return b''
        k = n
        if self.chunks:
            k = min(n, self.chunks.pop(0))
        k = max(1, k)
        out = self.data[self.pos:self.pos + k]
        self.pos += len(out)
        return out

    def send(self, b):
        k = len(b) if self.send_limit is None else min(len(b), self.send_limit)
        self.sent.extend(b[:k])
        return k

    def sendall(self, b):
        self.sent.extend(b)

    def close(self):
        pass


def frame(inst, data):
    b = data.encode('utf-8')
    return bytes([inst]) + len(b).to_bytes(2, 'big') + b


def load_class(repo):
    path = os.path.join(repo, 'src', 'scripts', 'repl_server.py')
    text = open(path, encoding='utf-8').read()
    m = re.search(r'(?ms)^class MessageStream:\n.*?(?=^\S)', text)
    if not m:
        return None, None
    ns = {}
    exec(m.group(0), ns)
    return ns['MessageStream'], m.group(0)


def compositions(n, limit):
    """all ways to cut n bytes into consecutive chunks (2**(n-1)), or a sample of them when there are too many"""
    if n <= 1:
        yield [n] if n else []
        return
    count = 0
    for cuts in itertools.product((0, 1), repeat=n - 1):
        sizes, cur = [], 1
        for c in cuts:
            if c:
                sizes.append(cur)
                cur = 1
            else:
                cur += 1
        sizes.append(cur)
        yield sizes
        count += 1
        if count >= limit:
            return


def explore(run):
    cls, text = load_class(run.repo)
    if cls is None:
        return {"found": False, "note": "class MessageStream not found in repl_server.py"}
    findings = []
    checks = 0
    msgs_sets = [
        [(2, ''), (6, 'a'), (5, '')],
        [(6, 'x = 1'), (6, 'é😀'), (2, '')],
        [(6, 'p' * 9)],
    ]

    def add(key, verdict, inp, got):
        if not any(f["key"] == key for f in findings):
            findings.append({"key": key, "how": "the MessageStream class of the real repl_server.py over a fake socket", "input": inp, "real_result": got,
                             "oracle": "frame(inst, data) = inst byte, 16-bit big-endian length, UTF-8 payload; socket.recv(n) may return 1..n bytes, socket.send may accept a prefix",
                             "verdict": verdict, "replay_cmd": "python3 -c 'from units.C25 import pyserver; ...'  # see units/C25/pyserver.py explore()"})
    # ---- receiving: every split of the framed stream into reads
    for msgs in msgs_sets:
        stream = b''.join(frame(i, d) for (i, d) in msgs)
        limit = 4096 if run.tier != 'thorough' else 65536
        for sizes in compositions(len(stream), limit):
            checks += 1
            ms = cls(FakeSocket(stream, chunks=list(sizes)))
            got = []
            try:
                for _ in msgs:
                    got.append(ms.recv_msg())
            except Exception as e:   # noqa
                got.append(('exception', repr(e)))
            if got != msgs:
                add("recv_msg under split reads", "recv_msg decodes %r when the stream is delivered in chunks of %r; sent were %r" % (got[:3], sizes[:12], msgs),
                    {"messages": msgs, "chunk_sizes": sizes}, repr(got)[:300])
                break
    # a long message in 1-, 2-, 3-, 1000-byte reads
    big = [(6, 'y' * 5000), (6, 'z')]
    stream = b''.join(frame(i, d) for (i, d) in big)
    for step in (1, 2, 3, 7, 1000, 4096):
        checks += 1
        ms = cls(FakeSocket(stream, chunks=[step] * (len(stream) // step + 2)))
        try:
            got = [ms.recv_msg() for _ in big]
        except Exception as e:   # noqa
            got = [('exception', repr(e))]
        if got != big:
            add("recv_msg under split reads", "a 5000-byte message delivered in %d-byte reads is decoded as %d chars (then %r)" % (step, len(got[0][1]) if got and isinstance(got[0][1], str) else -1, got[1:2]),
                {"message_sizes": [5000, 1], "read_size": step}, repr(got)[:200])
            break
    # ---- sending: a socket that accepts only part of the buffer per send call
    for (inst, data) in [(1, ''), (1, 'ok'), (3, 'é😀' * 40), (1, 'q' * 60000)]:
        for lim in (None, 1, 3, 1000):
            checks += 1
            sock = FakeSocket(send_limit=lim)
            ms = cls(sock)
            try:
                ms.send_msg(inst, data)
                ok = bytes(sock.sent) == frame(inst, data)
                got = "%d bytes on the wire, frame is %d bytes" % (len(sock.sent), len(frame(inst, data)))
            except Exception as e:   # noqa
                ok, got = False, 'exception ' + repr(e)
            if not ok:
                add("send_msg with a socket that accepts a prefix", "send_msg(%d, %d chars) with a socket accepting %r bytes per call: %s" % (inst, len(data), lim, got),
                    {"inst": inst, "data_len": len(data), "send_accepts": lim}, got)
    # ---- a payload the 16-bit length field cannot describe
    checks += 1
    sock = FakeSocket()
    try:
        cls(sock).send_msg(1, 'w' * 70000)
        if bytes(sock.sent) != b'' and len(sock.sent) != 3 + 70000:
            add("send_msg above 65535 bytes", "a 70000-byte output is framed as %d bytes" % len(sock.sent), {"data_len": 70000}, str(len(sock.sent)))
        elif len(sock.sent) == 3 + 70000:
            add("send_msg above 65535 bytes", "a 70000-byte output is written whole behind a 16-bit length field", {"data_len": 70000}, "3 + 70000 bytes")
    except Exception as e:   # noqa
        add("send_msg above 65535 bytes", "an output above 65535 bytes raises %r inside send_msg: the server loop dies and every later input gets no result" % (e,), {"data_len": 70000}, repr(e))
    run.extra["bounded_contract_on_python_message_stream"] = {"checks": checks, "rule": "recv_msg under every split of three short framed streams into reads (up to 4096 / 65536 compositions each) and a 5000-byte message in 1/2/3/7/1000/4096-byte reads; send_msg over sockets accepting 1/3/1000/all bytes per send call, payloads up to 60000 bytes; one payload above the 16-bit length field"}
    return {"findings": findings, "found": bool(findings), "note": None if findings else "%d checks, no disagreement" % checks}
