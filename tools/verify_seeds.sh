#!/bin/bash
# Confirms seeded changes produced by sub-agents in their scratch worktrees /tmp/seed/<id>:
#   (1) the existing test suite passes with the change, (2) the demo fails with the change, (3) passes without it.
LOG=/var/tmp/t/seedverify.log
: > $LOG
suite() { (cd $1 && cargo nextest run --workspace --no-fail-fast --test-threads 8 --offline 2>&1 | grep -E "Summary|FAIL" | head -5); }
check() {  # id, worktree, demo command
  id=$1; wt=$2; shift 2
  echo "=== $id" >> $LOG
  (cd $wt && git diff --stat | tail -1) >> $LOG
  echo "suite with change: $(suite $wt)" >> $LOG
  (cd $wt && eval "$@") > /var/tmp/t/seed_$id.with.log 2>&1; echo "demo with change: exit=$?" >> $LOG
  (cd $wt && git apply -R /tmp/seed/$id.out/patch.diff && (cargo build --offline >/dev/null 2>&1; eval "$@") > /var/tmp/t/seed_$id.without.log 2>&1; echo "demo without change: exit=$?" >> $LOG; git apply /tmp/seed/$id.out/patch.diff)
}
check C04 /tmp/seed/C04 "cargo test -p erg_compiler --test seed_demo --offline"
check C15 /tmp/seed/C15 "cargo test -p erg_compiler --test seed_demo --offline"
check C25 /tmp/seed/C25 "RUSTFLAGS='--cfg erg_verif' cargo test --test seed_demo --offline"
mkdir -p /tmp/seed/C16/crates/erg_common/tests && cp /tmp/seed/C16.out/demo/opcode309_vs_cpython.rs /tmp/seed/C16/crates/erg_common/tests/
check C16 /tmp/seed/C16 "cargo test -p erg_common --test opcode309_vs_cpython --offline"
check C03 /tmp/seed/C03 "cargo build --offline >/dev/null 2>&1; /tmp/seed/C03.out/demo.sh /tmp/seed/C03/target/debug/erg"
check C14 /tmp/seed/C14 "cargo build --offline >/dev/null 2>&1; /tmp/seed/C14.out/run_demo.sh /tmp/seed/C14/target/debug/erg"
echo ALLDONE >> $LOG
