#!/bin/bash
# Runs each seeded change (seeded/<id>/patch.diff) against the check of the property it breaks, in a scratch worktree of /repo
# (never in /repo itself), and prints one line per seed: the verdict line of the check. A seed that no longer applies to the
# current HEAD (the repository moved on) is reported as SKIP.
#   usage: tools/seed_matrix.sh [seed-id ...]      (default: all)
cd /verif
WT=/var/tmp/mut
EV=/var/tmp/t/ev
mkdir -p /var/tmp/t $EV
if [ ! -d $WT ]; then git -C /repo worktree add --detach $WT HEAD >/dev/null 2>&1; fi
git -C $WT checkout -q --detach "$(git -C /repo rev-parse HEAD)" 2>/dev/null
git -C $WT checkout -q -- . ; git -C $WT clean -fdq -e target
seeds=("$@"); [ ${#seeds[@]} -eq 0 ] && seeds=($(ls seeded))
for s in "${seeds[@]}"; do
  prop=${s%%-*}
  patch=/verif/seeded/$s/patch.diff
  [ -f $patch ] || { echo "$s: no patch.diff"; continue; }
  if ! git -C $WT apply --check $patch 2>/dev/null; then
    if ! git -C $WT apply -3 $patch >/dev/null 2>&1; then echo "$s: SKIP (patch does not apply to HEAD)"; git -C $WT reset -q --hard; git -C $WT clean -fdq -e target; continue; fi
  else
    git -C $WT apply $patch
  fi
  out=$(ERG_REPO=$WT VERIF_EVIDENCE_DIR=$EV ./check $prop --tier ${TIER:-quick} 2>&1)
  echo "$s: $(echo "$out" | grep -E '^(PASS|FAIL|UNDECIDED)' | cut -c1-120)"
  echo "$out" | grep -E '^(VIOLATION|UNDECIDED)' | sed 's/^/      /' | cut -c1-260 | head -4
  git -C $WT reset -q --hard; git -C $WT clean -fdq -e target
done
