#!/bin/bash
# Offline setup: pre-builds the replay binaries that the bounded checks (C21, C31) run on their pass path,
# so that the first quick run does not pay for compiling erg_compiler. Everything else is built on demand.
cd "$(dirname "$0")/.."
python3 - <<'PY'
import sys
sys.path.insert(0, '.')
from vlib.driver import Run
from vlib import replay
import shutil
r = Run('setup')
try:
    replay.build(r, 'c21')
    replay.build(r, 'c31', deps=('erg_common',))
    replay.build(r, 'c21t', deps=('erg_common',))
    replay.build(r, 'c06')
    replay.build(r, 'c03')
    replay.build(r, 'c24')
    print("setup: replay binaries built")
    from units.C14.cex import build_erg
    build_erg(r)     # the compiler binary used by the C14 .pyc structure check (and the line-table replay)
    print("setup: erg binary built")
except Exception as e:   # not fatal: the checks build what they need themselves
    print("setup: pre-build skipped:", str(e)[-300:])
shutil.rmtree(r.scratch, ignore_errors=True)
PY
exit 0
