#!/bin/bash
# runs every registered quick check sequentially; prints the verdict lines
cd /verif
for id in $(python3 -c "import json;print(' '.join(c['property_id'] for c in json.load(open('MANIFEST.json'))['checks']))"); do
  ./check $id --tier ${1:-quick} 2>&1 | grep -E "^(PASS|FAIL|UNDECIDED|VIOLATION|KNOWN)" | cut -c1-200
done
