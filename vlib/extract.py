"""E-X: span extractor for Rust sources (engine "extract").

Locates items (fn / enum / struct / impl / macro_rules / macro invocation / const)
in a Rust file and returns their verbatim text with file:line range and sha256.
Works on a *mask* of the file in which comments, string/char literals are blanked,
so brace matching is not confused by braces in literals.

A lost anchor raises LostAnchor (mapped to exit 2 by the runner, never a VIOLATION).
"""
import hashlib
import os
import re


class LostAnchor(Exception):
    pass


def make_mask(text):
    """Return a string of the same length where comment and literal contents are
    replaced by spaces (newlines kept). Delimiters of strings are kept as '"'."""
    out = list(text)
    n = len(text)
    i = 0

    def blank(a, b):
        for k in range(a, b):
            if out[k] != '\n':
                out[k] = ' '

    while i < n:
        c = text[i]
        if c == '/' and i + 1 < n and text[i + 1] == '/':
            j = text.find('\n', i)
            if j < 0:
                j = n
            blank(i, j)
            i = j
        elif c == '/' and i + 1 < n and text[i + 1] == '*':
            depth = 1
            j = i + 2
            while j < n and depth > 0:
                if text.startswith('/*', j):
                    depth += 1
                    j += 2
                elif text.startswith('*/', j):
                    depth -= 1
                    j += 2
                else:
                    j += 1
            blank(i, j)
            i = j
        elif c == '"' or (c in 'br' and _is_str_start(text, i)):
            # string, byte string, raw string
            j = i
            if text[j] == 'b':
                j += 1
            raw = False
            hashes = 0
            if j < n and text[j] == 'r':
                raw = True
                j += 1
                while j < n and text[j] == '#':
                    hashes += 1
                    j += 1
            # text[j] == '"'
            j += 1
            if raw:
                end = '"' + '#' * hashes
                k = text.find(end, j)
                if k < 0:
                    k = n
                blank(i + 1, k)
                i = k + len(end)
            else:
                k = j
                while k < n and text[k] != '"':
                    if text[k] == '\\':
                        k += 2
                    else:
                        k += 1
                blank(j, k)
                i = k + 1
        elif c == "'":
            # char literal or lifetime
            if i + 1 < n and text[i + 1] == '\\':
                k = i + 2
                while k < n and text[k] != "'":
                    k += 1
                # handle '\'' : the escape is \' so first quote found is the escaped one
                if text[i + 2] == "'" and k == i + 2:
                    k = i + 3
                blank(i + 1, k)
                i = k + 1
            elif i + 2 < n and text[i + 2] == "'":
                blank(i + 1, i + 2)
                i = i + 3
            else:
                i += 1  # lifetime
        elif c == 'b' and i + 1 < n and text[i + 1] == "'" and not (i > 0 and (text[i - 1].isalnum() or text[i - 1] == '_')):
            i += 1  # byte char: handled as char on next iteration
        else:
            i += 1
    return ''.join(out)


def _is_str_start(text, i):
    """text[i] in 'br'; is this the start of b"..", r"..", r#"..", br".."? """
    if i > 0 and (text[i - 1].isalnum() or text[i - 1] == '_'):
        return False
    j = i
    n = len(text)
    if text[j] == 'b':
        j += 1
        if j < n and text[j] == '"':
            return True
    if j < n and text[j] == 'r':
        j += 1
        while j < n and text[j] == '#':
            j += 1
        return j < n and text[j] == '"'
    return False


def match_close(mask, open_idx):
    """mask[open_idx] is one of ([{ ; return index of the matching close."""
    pairs = {'(': ')', '[': ']', '{': '}'}
    o = mask[open_idx]
    c = pairs[o]
    depth = 0
    i = open_idx
    n = len(mask)
    while i < n:
        ch = mask[i]
        if ch == o:
            depth += 1
        elif ch == c:
            depth -= 1
            if depth == 0:
                return i
        i += 1
    raise LostAnchor("unbalanced %r at offset %d" % (o, open_idx))


class Span:
    def __init__(self, src, start, end, what):
        self.src = src
        self.start = start
        self.end = end
        self.what = what

    @property
    def text(self):
        return self.src.text[self.start:self.end]

    @property
    def lines(self):
        a = self.src.text.count('\n', 0, self.start) + 1
        b = self.src.text.count('\n', 0, self.end) + 1
        return (a, b)

    @property
    def sha256(self):
        return hashlib.sha256(self.text.encode()).hexdigest()

    def describe(self):
        a, b = self.lines
        return {"item": self.what, "file": self.src.rel, "lines": "%d-%d" % (a, b),
                "sha256": self.sha256[:16]}


class Source:
    def __init__(self, repo, rel):
        self.repo = repo
        self.rel = rel
        self.path = os.path.join(repo, rel)
        try:
            with open(self.path, encoding='utf-8') as f:
                self.text = f.read()
        except OSError as e:
            raise LostAnchor("cannot read %s: %s" % (self.path, e))
        self.mask = make_mask(self.text)

    # ---- containers -------------------------------------------------------
    def impls(self, header_re):
        """All spans (body incl. braces) of `impl ... {` blocks whose normalised
        header matches header_re (fullmatch on text between 'impl' and '{')."""
        res = []
        for m in re.finditer(r'(?m)^impl\b([^{;]*)\{', self.mask):
            hdr = ' '.join(self.mask[m.start(1):m.end(1)].split())   # comments in the header are ignored
            if re.fullmatch(header_re, hdr):
                ob = m.end() - 1
                cb = match_close(self.mask, ob)
                res.append(Span(self, m.start(), cb + 1, "impl " + hdr))
        return res

    def _line_start(self, idx):
        k = self.text.rfind('\n', 0, idx)
        return k + 1

    # ---- items -------------------------------------------------------------
    def fn(self, name, impl=None, with_attrs=False):
        """Exactly one `fn name` (optionally inside impl blocks matching `impl`)."""
        regions = [(0, len(self.text))] if impl is None else [(s.start, s.end) for s in self.impls(impl)]
        if impl is not None and not regions:
            raise LostAnchor("%s: no impl block matching /%s/" % (self.rel, impl))
        hits = []
        for (a, b) in regions:
            for m in re.finditer(r'\bfn\s+%s\b' % re.escape(name), self.mask[a:b]):
                hits.append(a + m.start())
        if impl is None:
            # only free functions / any: keep all
            pass
        if len(hits) != 1:
            raise LostAnchor("%s: fn %s%s found %d times" % (self.rel, name, " in impl /%s/" % impl if impl else "", len(hits)))
        fn_kw = hits[0]
        start = self._line_start(fn_kw)
        # first '{' or ';' at paren depth 0 after fn name
        i = fn_kw
        n = len(self.mask)
        while i < n:
            ch = self.mask[i]
            if ch in '([':
                i = match_close(self.mask, i) + 1
                continue
            if ch == '{':
                break
            if ch == ';':
                raise LostAnchor("%s: fn %s has no body" % (self.rel, name))
            i += 1
        cb = match_close(self.mask, i)
        if with_attrs:
            start = self._attrs_start(start)
        return Span(self, start, cb + 1, ("%s::" % impl if impl else "") + "fn " + name)

    def _attrs_start(self, start):
        # include directly preceding #[...] lines
        while True:
            prev_end = start - 1
            if prev_end <= 0:
                return start
            prev_start = self._line_start(prev_end)
            line = self.text[prev_start:prev_end].strip()
            if line.startswith('#['):
                start = prev_start
            else:
                return start

    def item(self, kind, name, with_attrs=False):
        """enum/struct/trait/const/static/type item `name` at any nesting, exactly once."""
        hits = [m for m in re.finditer(r'\b%s\s+%s\b' % (kind, re.escape(name)), self.mask)]
        if len(hits) != 1:
            raise LostAnchor("%s: %s %s found %d times" % (self.rel, kind, name, len(hits)))
        kw = hits[0].start()
        start = self._line_start(kw)
        i = hits[0].end()
        n = len(self.mask)
        while i < n:
            ch = self.mask[i]
            if ch in '([':
                i = match_close(self.mask, i) + 1
                continue
            if ch == '{':
                end = match_close(self.mask, i) + 1
                break
            if ch == ';':
                end = i + 1
                break
            i += 1
        else:
            raise LostAnchor("%s: %s %s unterminated" % (self.rel, kind, name))
        # tuple struct: `struct X(..);`
        if self.mask[end - 1] == '}' or self.mask[end - 1] == ';':
            pass
        if with_attrs:
            start = self._attrs_start(start)
        return Span(self, start, end, "%s %s" % (kind, name))

    def macro_def(self, name):
        hits = [m for m in re.finditer(r'\bmacro_rules!\s*%s\s*\{' % re.escape(name), self.mask)]
        if len(hits) != 1:
            raise LostAnchor("%s: macro_rules! %s found %d times" % (self.rel, name, len(hits)))
        ob = hits[0].end() - 1
        cb = match_close(self.mask, ob)
        return Span(self, self._line_start(hits[0].start()), cb + 1, "macro_rules! " + name)

    def macro_call(self, name, first_tokens_re=None):
        """Invocation `name! { ... }` (optionally whose body starts with first_tokens_re)."""
        hits = []
        for m in re.finditer(r'\b%s!\s*\{' % re.escape(name), self.mask):
            ob = m.end() - 1
            if first_tokens_re is not None:
                if not re.match(r'\s*' + first_tokens_re, self.text[ob + 1:]):
                    continue
            hits.append(m)
        if len(hits) != 1:
            raise LostAnchor("%s: %s!{%s..} found %d times" % (self.rel, name, first_tokens_re or '', len(hits)))
        ob = hits[0].end() - 1
        cb = match_close(self.mask, ob)
        return Span(self, self._line_start(hits[0].start()), cb + 1, "%s!{%s}" % (name, first_tokens_re or ''))

    def impl_block(self, header_re):
        s = self.impls(header_re)
        if len(s) != 1:
            raise LostAnchor("%s: impl /%s/ found %d times" % (self.rel, header_re, len(s)))
        return s[0]


# ---------------------------------------------------------------------------
# helpers on extracted snippets (operate on text + its own mask)

def fn_parts(text):
    """Split fn text into (head, ret_type or None, where_clause, body) where
    head = everything up to and including the closing ')' of the parameter list,
    body = '{...}'. Raises LostAnchor on surprises."""
    mask = make_mask(text)
    m = re.search(r'\bfn\s+\w+', mask)
    if not m:
        raise LostAnchor("not a fn: %r" % text[:60])
    i = m.end()
    # generics
    while i < len(mask) and mask[i].isspace():
        i += 1
    if mask[i] == '<':
        depth = 0
        while True:
            if mask[i] == '<':
                depth += 1
            elif mask[i] == '>' and mask[i - 1] != '-':
                depth -= 1
                if depth == 0:
                    i += 1
                    break
            i += 1
    while mask[i] != '(':
        i += 1
    cp = match_close(mask, i)
    head = text[:cp + 1]
    j = cp + 1
    # find body '{' at depth 0
    k = j
    while k < len(mask):
        ch = mask[k]
        if ch in '([':
            k = match_close(mask, k) + 1
            continue
        if ch == '{':
            break
        k += 1
    between = text[j:k]
    bmask = mask[j:k]
    ret = None
    where = ''
    wm = re.search(r'\bwhere\b', bmask)
    if wm:
        where = between[wm.start():]
        between = between[:wm.start()]
    am = re.search(r'->', between)
    if am:
        ret = between[am.end():].strip()
    body = text[k:]
    return head, ret, where, body


def split_match_arms(body_text):
    """Given text of `{ arm, arm, ... }` (the braces of a match), return list of
    (pat_start, pat_end, body_start, body_end) offsets into body_text. body range
    excludes the trailing comma."""
    mask = make_mask(body_text)
    assert mask[0] == '{'
    end = match_close(mask, 0)
    arms = []
    i = 1
    while True:
        while i < end and mask[i].isspace():
            i += 1
        if i >= end:
            break
        ps = i
        # pattern until '=>' at depth 0
        while i < end:
            ch = mask[i]
            if ch in '([{':
                i = match_close(mask, i) + 1
                continue
            if ch == '=' and mask[i + 1] == '>':
                break
            i += 1
        pe = i
        i += 2
        while mask[i].isspace():
            i += 1
        bs = i
        if mask[i] == '{':
            be = match_close(mask, i) + 1
            i = be
            while i < end and mask[i].isspace():
                i += 1
            if i < end and mask[i] == ',':
                i += 1
        else:
            while i < end:
                ch = mask[i]
                if ch in '([{':
                    i = match_close(mask, i) + 1
                    continue
                if ch == ',':
                    break
                i += 1
            be = i
            i += 1
        arms.append((ps, pe, bs, be))
    return arms
