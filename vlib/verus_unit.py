"""E-V: assemble one Verus unit file from hand-written prelude text + extracted snippets,
run `verus`, and map every diagnostic back to the (function, class) it belongs to."""
import json
import os
import re
import subprocess
import time

from .snippet import Snippet, Undecided

VERUS = os.environ.get('VERUS_BIN', 'verus')

# messages Verus prints for a *failed proof obligation* (anything else at error level means
# the unit did not type-check / uses an unsupported construct => undecided, exit 2)
VERIF_KINDS = [
    (r'postcondition not satisfied', 'postcondition'),
    (r'precondition not satisfied', 'precondition'),
    (r'possible arithmetic underflow/overflow', 'overflow'),
    (r'possible division by zero', 'div-by-zero'),
    (r'assertion failed', 'assertion'),
    (r'invariant not satisfied before loop', 'invariant-entry'),
    (r'invariant not satisfied at end of loop body', 'invariant-preserve'),
    (r'loop invariant not satisfied', 'invariant'),
    (r'decreases not satisfied', 'decreases'),
    (r'could not prove termination', 'decreases'),
    (r'possible bit shift underflow/overflow', 'shift'),
    (r'index out of bounds|possible .*out of bounds', 'bounds'),
    (r'unreachable code reached|unreached', 'unreachable'),
    (r'possible truncation|cast .*overflow', 'cast'),
    (r'constructed value may fail to meet its declared type invariant', 'type-invariant'),
    (r'failed to prove|cannot prove|could not prove', 'other-proof'),
]
RLIMIT_RE = re.compile(r'[Rr]esource limit|rlimit|timed out|took too long')
TRUST_RE = re.compile(r'external_body|assume_specification|\badmit\s*\(|\bassume\s*\(|external_type_specification|external_fn_specification|verifier::external\b|verifier::external\]|#\[verifier::external|broadcast\s+axiom|\baxiom\s+fn')


class VerusResult:
    def __init__(self):
        self.cmd = ''
        self.verified = 0
        self.errors_reported = 0
        self.failed = []      # list of dict(label, kind, expr, line, msg, rendered)
        self.hard = []        # non-verification errors (undecided)
        self.rlimit = []
        self.canary_rejected = False
        self.time_s = 0.0
        self.smt_ms = None
        self.unit_path = ''
        self.trusted = []
        self.labels = []      # all snippet labels in the unit
        self.raw_stderr = ''


class VerusUnit:
    def __init__(self, name, workdir):
        self.name = name
        self.workdir = workdir
        self.parts = []   # (text, label or None)
        self.snippets = []

    def raw(self, text, label=None):
        if not text.endswith('\n'):
            text += '\n'
        self.parts.append((text, label))

    def raw_file(self, path):
        with open(path, encoding='utf-8') as f:
            self.raw(f.read(), None)

    def add(self, sn: Snippet):
        sn.self_check()
        self.snippets.append(sn)
        self.parts.append((sn.text if sn.text.endswith('\n') else sn.text + '\n', sn.label))

    def assemble(self):
        canary = "\nverus! {\nfn verif_canary_must_fail() ensures false { }\n}\nfn main() {}\n"
        lines = 1
        ranges = []
        out = []
        for (t, lab) in self.parts:
            n = t.count('\n')
            if lab is not None:
                ranges.append((lines, lines + n - 1, lab))
            out.append(t)
            lines += n
        out.append(canary)
        text = ''.join(out)
        self.ranges = ranges
        return text

    def scan_trusted(self, text):
        res = []
        lines = text.split('\n')
        for i, ln in enumerate(lines):
            code = ln.split('//')[0]
            if TRUST_RE.search(code):
                ctx = ' '.join(lines[max(0, i - 3):i + 1])
                m = re.search(r'@(trusted|verified-in):\s*([^\n]*?)(?=\s*(#\[|pub |fn |$))', ' '.join(lines[max(0, i - 3):i + 1]))
                tag = None
                for k in range(i, max(-1, i - 4), -1):
                    mm = re.search(r'//\s*@(trusted|verified-in):\s*(.*)$', lines[k])
                    if mm:
                        tag = "%s: %s" % (mm.group(1), mm.group(2).strip())
                        break
                if tag is None:
                    raise Undecided("untagged trusted item in unit %s line %d: %s" % (self.name, i + 1, ln.strip()))
                # name the item: the next fn / struct / assume_specification target
                name = ln.strip()
                for k in range(i, min(len(lines), i + 4)):
                    mm = re.search(r'(fn\s+\w+|struct\s+\w+|assume_specification\s*(<[^>]*>)?\s*\[[^\]]*\]|type\s+\w+)', lines[k])
                    if mm:
                        name = ' '.join(mm.group(1).split())
                        break
                entry = "%s  (%s)" % (name, tag)
                if entry not in res:
                    res.append(entry)
        return res

    def run(self, rlimit=30, extra=None, threads=None, multiple_errors=100):
        os.makedirs(self.workdir, exist_ok=True)
        text = self.assemble()
        path = os.path.join(self.workdir, 'unit_%s.rs' % self.name)
        with open(path, 'w', encoding='utf-8') as f:
            f.write(text)
        r = VerusResult()
        r.unit_path = path
        r.trusted = self.scan_trusted(text)
        r.labels = [lab for (_, _, lab) in self.ranges]
        cmd = [VERUS, path, '--output-json', '--time', '--multiple-errors', str(multiple_errors),
               '--error-format=json', '--rlimit', str(rlimit), '--no-report-long-running']
        if threads:
            cmd += ['--num-threads', str(threads)]
        if extra:
            cmd += extra
        r.cmd = ' '.join(cmd)
        t0 = time.time()
        p = subprocess.run(cmd, cwd=self.workdir, capture_output=True, text=True)
        r.time_s = time.time() - t0
        r.raw_stderr = p.stderr
        # stdout: JSON (possibly preceded by noise lines)
        js = None
        so = p.stdout
        k = so.find('{')
        if k >= 0:
            try:
                js = json.loads(so[k:])
            except Exception:
                js = None
        if js and 'verification-results' in js:
            vr = js['verification-results']
            r.verified = int(vr.get('verified', 0))
            r.errors_reported = int(vr.get('errors', 0))
            try:
                r.smt_ms = js['times-ms']['smt']['total']
            except Exception:
                pass
        diags = []
        for ln in p.stderr.split('\n'):
            ln = ln.strip()
            if not ln.startswith('{'):
                continue
            try:
                d = json.loads(ln)
            except Exception:
                continue
            if d.get('$message_type') != 'diagnostic':
                continue
            diags.append(d)
        for d in diags:
            lvl = d.get('level')
            msg = d.get('message', '')
            if lvl not in ('error',):
                if RLIMIT_RE.search(msg):
                    r.rlimit.append(msg)
                continue
            if msg.startswith('aborting due to'):
                continue
            spans = d.get('spans', [])
            prim = [s for s in spans if s.get('is_primary')] or spans
            line = prim[0]['line_start'] if prim else 0
            allspan_lines = [s['line_start'] for s in spans]
            expr = ''
            if prim:
                s = prim[0]
                try:
                    expr = text[s['byte_start']:s['byte_end']] if False else _span_text(s)
                except Exception:
                    expr = ''
            kind = None
            for (pat, k2) in VERIF_KINDS:
                if re.search(pat, msg):
                    kind = k2
                    break
            if RLIMIT_RE.search(msg):
                r.rlimit.append(msg)
                continue
            label = self._label_for(allspan_lines, line)
            entry = {"label": label, "kind": kind, "expr": ' '.join(expr.split()), "line": line, "msg": msg,
                     "rendered": d.get('rendered', '')}
            # secondary span text (e.g. the body location for a failed postcondition)
            sec = [s for s in spans if not s.get('is_primary')]
            if sec:
                entry["at"] = ' '.join(_span_text(sec[0]).split())
            if kind is None:
                r.hard.append(entry)
            elif label == '__canary__' or 'verif_canary_must_fail' in d.get('rendered', ''):
                r.canary_rejected = True
            else:
                r.failed.append(entry)
        if js is None and not r.hard:
            r.hard.append({"label": None, "kind": None, "msg": "verus produced no JSON result; stderr tail: " + p.stderr[-800:], "line": 0, "expr": '', "rendered": ''})
        return r

    def _label_for(self, lines, primary):
        for ln in [primary] + list(lines):
            for (a, b, lab) in self.ranges:
                if a <= ln <= b:
                    return lab
        return None


def _span_text(s):
    t = s.get('text') or []
    if not t:
        return ''
    if len(t) == 1:
        x = t[0]
        return x['text'][x['highlight_start'] - 1:x['highlight_end'] - 1]
    parts = []
    for x in t:
        parts.append(x['text'][x['highlight_start'] - 1:x['highlight_end'] - 1])
    return ' '.join(parts)
