"""Declared rewrite rules R1..R9 (DESIGN.md 3.2) as reusable functions on Snippets."""
import re

from .extract import make_mask, match_close, LostAnchor
from .snippet import Snippet, Undecided


def split_top(text, sep=','):
    """Split text at top-level separators (mask-aware)."""
    mask = make_mask(text)
    parts = []
    depth = 0
    last = 0
    i = 0
    n = len(mask)
    while i < n:
        ch = mask[i]
        if ch in '([{':
            i = match_close(mask, i) + 1
            continue
        if ch == '<':
            depth += 1
        elif ch == '>' and depth > 0 and mask[i - 1] != '-' and mask[i - 1] != '=':
            depth -= 1
        elif ch == sep and depth == 0:
            parts.append(text[last:i])
            last = i + 1
        i += 1
    parts.append(text[last:])
    return parts


def strip_comments(text):
    mask = make_mask(text)
    out = []
    i = 0
    n = len(text)
    while i < n:
        if text[i] == '/' and i + 1 < n and text[i + 1] in '/*' and mask[i] == ' ':
            # comment start: skip blanked region (comment content is blank in mask)
            if text[i + 1] == '/':
                j = text.find('\n', i)
                j = n if j < 0 else j
            else:
                depth = 1
                j = i + 2
                while j < n and depth:
                    if text.startswith('/*', j):
                        depth += 1
                        j += 2
                    elif text.startswith('*/', j):
                        depth -= 1
                        j += 2
                    else:
                        j += 1
            i = j
        else:
            out.append(text[i])
            i += 1
    return ''.join(out)


def parse_enum(text):
    """Return (name, [(variant, kind, payload_text)]) with kind in unit/tuple/struct."""
    t = strip_comments(text)
    m = re.search(r'\benum\s+(\w+)[^{]*\{', t)
    if not m:
        raise LostAnchor("not an enum")
    name = m.group(1)
    ob = m.end() - 1
    mask = make_mask(t)
    cb = match_close(mask, ob)
    body = t[ob + 1:cb]
    variants = []
    for part in split_top(body):
        p = part.strip()
        # drop attributes
        while p.startswith('#['):
            k = match_close(make_mask(p), 1)
            p = p[k + 1:].strip()
        if not p:
            continue
        mm = re.match(r'(\w+)\s*(.*)$', p, re.S)
        vname = mm.group(1)
        rest = mm.group(2).strip()
        disc = None
        if rest.startswith('('):
            k = match_close(make_mask(rest), 0)
            variants.append((vname, 'tuple', rest[1:k]))
        elif rest.startswith('{'):
            k = match_close(make_mask(rest), 0)
            variants.append((vname, 'struct', rest[1:k]))
        elif rest.startswith('='):
            variants.append((vname, 'unit', rest[1:].strip()))
        else:
            variants.append((vname, 'unit', ''))
    return name, variants


def erase_enum_payloads(sn: Snippet, keep, derives='', opaque='Opaque'):
    """R1: rebuild the enum with payload types not in `keep` replaced by Opaque.
    Variant list, order and arity are preserved. Returns the parsed variants."""
    name, variants = parse_enum(sn.text)
    lines = []
    erased = 0
    info = []
    for (v, kind, payload) in variants:
        if kind == 'unit':
            lines.append("    %s%s," % (v, (" = " + payload) if payload else ''))
            info.append((v, kind, []))
        elif kind == 'tuple':
            tys = [x.strip() for x in split_top(payload) if x.strip()]
            new = []
            for ty in tys:
                ty2 = re.sub(r'^pub(\([^)]*\))?\s+', '', ty)
                if ty2 in keep:
                    new.append(ty2)
                else:
                    new.append(opaque)
                    erased += 1
            lines.append("    %s(%s)," % (v, ', '.join(new)))
            info.append((v, kind, new))
        else:
            fields = [x.strip() for x in split_top(payload) if x.strip()]
            new = []
            for f in fields:
                fm = re.match(r'(?:pub(?:\([^)]*\))?\s+)?(\w+)\s*:\s*(.*)$', f, re.S)
                fname, ty = fm.group(1), fm.group(2).strip()
                if ty in keep:
                    new.append("%s: %s" % (fname, ty))
                else:
                    new.append("%s: %s" % (fname, opaque))
                    erased += 1
            lines.append("    %s { %s }," % (v, ', '.join(new)))
            info.append((v, kind, new))
    new_text = "%spub enum %s {\n%s\n}\n" % (derives, name, '\n'.join(lines))
    sn.replace_range('R1', 0, len(sn.text), new_text,
                     "enum %s: %d payload types -> %s; attributes, doc comments and derives dropped; variant list/order/arity kept" % (name, erased, opaque))
    return info


def strip_vis_attrs(sn: Snippet):
    """R7: visibility, #[inline]/#[allow], const fn."""
    sn.rw('R7', r'(?m)^\s*#\[(inline|allow|must_use|track_caller|cfg_attr)[^\]]*\]\s*\n', '', code_only=False)
    sn.rw('R7', r'\bpub\(crate\)\s+', '')
    sn.rw('R7', r'\bpub(\((super|self)\))?\s+(?=(const\s+)?fn\b)', '')
    sn.rw('R7', r'\bconst\s+(?=fn\b)', '')


RISKY_DROPPED = [(r'\.unwrap\(\)', '.unwrap()'), (r'\.expect\(', '.expect('), (r'\.ref_t\(\)', '.ref_t()'), (r'[\w\)\]]\[[^\]]+\]', 'indexing'),
                 (r'\bunreachable!|\bpanic!|\btodo!', 'diverging macro')]


def guard_dropped(sn: Snippet, text, what):
    """R3/R6 drop the ARGUMENTS of a message/error construction together with the message. An argument whose evaluation can panic
    (unwrap, expect, indexing, ValueObj::ref_t, ...) must not disappear from the verified text silently: undecided (exit 2)."""
    mask = make_mask(text)
    for (pat, name) in RISKY_DROPPED:
        if re.search(pat, mask):
            raise Undecided("%s: rule R3 would drop an argument that can panic (%s) inside %s: `%s`" % (sn.label, name, what, ' '.join(text.split())[:120]))


def diagnostics(sn: Snippet):
    """R3: message-building macros -> opaque string."""
    def repl_macro(name, replacement):
        # replace `name!( ... )` with balanced parens
        while True:
            mask = make_mask(sn.text)
            m = re.search(r'\b%s!\s*\(' % name, mask)
            if not m:
                break
            cp = match_close(mask, m.end() - 1)
            guard_dropped(sn, sn.text[m.end():cp], name + '!')
            sn.replace_range('R3', m.start(), cp + 1, replacement, "%s!(..) -> %s" % (name, replacement))
    repl_macro('switch_lang', 'ext_msg()')
    repl_macro('format', 'ext_msg()')
    repl_macro('fn_name_full', 'ext_msg_str()')
    repl_macro('fn_name', 'ext_msg_str()')
    repl_macro('line', '0u32')
    for mac in ('log', 'debug_power_assert', 'debug_call_info', 'debug_exit_info', 'println', 'eprintln'):
        while True:
            mask = make_mask(sn.text)
            m = re.search(r'\b%s!\s*\(' % mac, mask)
            if not m:
                break
            cp = match_close(mask, m.end() - 1)
            end = cp + 1
            # swallow trailing ';'
            k = end
            while k < len(sn.text) and sn.text[k] in ' \t':
                k += 1
            if k < len(sn.text) and sn.text[k] == ';':
                end = k + 1
            sn.replace_range('R3', m.start(), end, '', "%s!(..) removed" % mac)


def aborts(sn: Snippet, extra_names=()):
    """R6: diverging calls -> ext_abort() (requires false)."""
    for mac in ('panic', 'unreachable', 'todo', 'unimplemented') + tuple(extra_names):
        while True:
            mask = make_mask(sn.text)
            m = re.search(r'\b%s!\s*\(' % mac, mask)
            if not m:
                break
            cp = match_close(mask, m.end() - 1)
            sn.replace_range('R6', m.start(), cp + 1, 'ext_abort()', "%s!(..) -> ext_abort() [requires false]" % mac)


def or_pattern_with_guard(pat):
    """R2 trigger: Verus rejects an arm with both an or-pattern and a guard. Such an arm keeps its
    pattern, loses the guard and gets an unspecified body (over-approximation of every input the
    unguarded pattern matches; obligations are claimed only for classes that cannot match it)."""
    m = make_mask(pat)
    return '|' in m and re.search(r'\bif\b', m) is not None


def split_or_guard_arms(sn: Snippet):
    """R10: Verus rejects a match arm that has both a top-level or-pattern and a guard. `P1 | P2 if g => body` is split into
    `P1 if g => body, P2 if g => body` (the same arm twice, one alternative each; or-pattern alternatives bind the same names,
    a guard is evaluated per matching alternative, so the meaning is unchanged). Applied until no such arm is left."""
    from .extract import split_match_arms
    total = 0
    for _ in range(50):
        mask = make_mask(sn.text)
        done = True
        for m in re.finditer(r'\bmatch\b', mask):
            i = m.end()
            while i < len(mask) and mask[i] != '{':
                if mask[i] in '([':
                    i = match_close(mask, i)
                if mask[i] == ';':
                    break
                i += 1
            if i >= len(mask) or mask[i] != '{':
                continue
            ob = i
            cb = match_close(mask, ob)
            body = sn.text[ob:cb + 1]
            try:
                arms = split_match_arms(body)
            except Exception:
                continue
            for (ps, pe, bs, be) in arms:
                pat = body[ps:pe]
                pm = make_mask(pat)
                g = re.search(r'\bif\b', pm)
                if not g:
                    continue
                alts = [a.strip() for a in split_top(pat[:g.start()], sep='|') if a.strip()]
                if len(alts) < 2:
                    continue
                guard = pat[g.start():].strip()
                arm_body = body[bs:be]
                new = ''.join("%s %s => %s%s\n" % (a, guard, arm_body, '' if arm_body.rstrip().endswith('}') else ',') for a in alts)
                # replace the arm (including its trailing comma if any)
                end = be
                k = end
                while k < len(body) and body[k] in ' \t\n':
                    k += 1
                if k < len(body) and body[k] == ',':
                    end = k + 1
                sn.replace_range('R10', ob + ps, ob + end, new, "or-pattern + guard arm split into %d arms (same guard, same body)" % len(alts))
                total += 1
                done = False
                break
            if not done:
                break
        if done:
            break
    return total


def option_closures(sn: Snippet):
    """R4 (std combinators on Option with a closure, which Verus does not take): for a receiver that is a method call on self or a
    plain path,  `RECV.is_some_and(|x| E)`  and  `RECV.map(|x| E).unwrap_or(false)`  ->  `(match RECV { Some(x) => E, None => false })`.
    Both are the definition of the combinator; balanced parentheses."""
    n = 0
    while True:
        mask = make_mask(sn.text)
        # a function path as the predicate: `RECV.is_some_and(Self::f)` -> closure form first
        mp = re.search(r'\.is_some_and\(\s*((?:\w+::)*\w+)\s*\)', mask)
        if mp:
            sn.replace_range('R4', mp.start(), mp.end(), '.is_some_and(|verif_x| %s(verif_x))' % mp.group(1), "is_some_and(path) -> is_some_and(|x| path(x))")
            continue
        m = re.search(r'((?:self\s*\.\s*)?\w+(?:\(\))?)\s*\.is_some_and\(\|(\w+)\|', mask)
        kind = 'is_some_and'
        if not m:
            m = re.search(r'((?:self\s*\.\s*)?\w+(?:\(\))?)\s*\.map\(\|(\w+)\|', mask)
            kind = 'map'
            if not m:
                break
        op = mask.index('(', m.end(1))
        cp = match_close(mask, op)
        body = sn.text[m.end():cp].strip()
        end = cp + 1
        if kind == 'map':
            t = re.match(r'\s*\.unwrap_or\(false\)', mask[end:])
            if not t:
                # some other use of map: leave it (and stop: the same match would be found again)
                break
            end += t.end()
        recv = ' '.join(sn.text[m.start(1):m.end(1)].split()).replace(' .', '.').replace('. ', '.')
        sn.replace_range('R4', m.start(), end, '(match %s { Some(%s) => %s, None => false })' % (recv, m.group(2), body),
                         "Option::%s(|x| E)%s -> match { Some(x) => E, None => false }" % (kind, '.unwrap_or(false)' if kind == 'map' else ''))
        n += 1
    return n
