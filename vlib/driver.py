"""Run bookkeeping: obligations, known findings, verdict lines, evidence."""
import json
import os
import re
import shutil
import sys
import time

from .snippet import Undecided
from .extract import LostAnchor

VERIF = os.path.dirname(os.path.dirname(os.path.abspath(__file__)))

STANDING_ASSUMPTIONS = [
    "Verus/Z3 and Kani/CBMC are sound; rustc compiles the extracted text inside the unit as it does inside /repo (same edition, no cfg-dependent code in extracted spans).",
    "The verified text is re-extracted from $ERG_REPO on every run; what extraction drops (callers, trait plumbing, Display, hashing, allocation, I/O) is unverified; rewrite rules applied are listed per function in coverage.functions_under_contract.",
    "Termination is proved only where a decreases clause is spliced (Verus); Kani proves none. Concurrency is out of scope.",
]


def load_known(pid):
    path = os.path.join(VERIF, 'known_findings.txt')
    findings = []
    if os.path.exists(path):
        for ln in open(path, encoding='utf-8'):
            ln = ln.rstrip('\n')
            m = re.match(r'finding:\s+property=(\S+)\s+key=(.*?)\s+::\s+(.*)$', ln)
            if m and m.group(1) == pid:
                findings.append({"key": m.group(2).strip(), "what": m.group(3).strip()})
    return findings


class Run:
    def __init__(self, pid, tier='quick', seed=0, repo=None):
        self.pid = pid
        self.tier = tier
        self.seed = seed
        self.repo = repo or os.environ.get('ERG_REPO', '/repo')
        base = os.environ.get('VERIF_SCRATCH', '/var/tmp/erg-verif')
        self.scratch = os.path.join(base, '%s-%d' % (pid, os.getpid()))
        self.cache = os.path.join(base, 'cache')
        os.makedirs(self.scratch, exist_ok=True)
        os.makedirs(self.cache, exist_ok=True)
        self.t0 = time.time()
        self.obligations = []     # dict(key, backend, status, detail)
        self.n_obl = 0
        self.n_ok = 0
        self.functions = []
        self.trusted = []
        self.cmds = []
        self.assumptions = list(STANDING_ASSUMPTIONS)
        self.failed = []          # dict(key, backend, detail, cex)
        self.undecided = []
        self.samples = []
        self.solver_time_s = 0.0
        self.level = 'proof'
        self.bounded_note = None
        self.extra = {}
        self.known = load_known(pid)
        self.evidence_dir = os.environ.get('VERIF_EVIDENCE_DIR', os.path.join(VERIF, 'evidence'))
        self.quiet_evidence = False
        self.fallbacks = []       # [(name, callable() -> cex dict)]: bounded replay on the REAL code, used only when a unit is undecided
        self.explorations = []    # [(name, callable() -> cex dict)]: bounded search on the REAL code run in addition to the proof (never counted as an obligation)

    # ------------------------------------------------------------------
    def note_functions(self, snippets):
        seen = set((f["file"], f["item"], f.get("unit_label")) for f in self.functions)
        for s in snippets:
            d = s.describe()
            k = (d["file"], d["item"], d.get("unit_label"))
            if k not in seen:
                seen.add(k)
                self.functions.append(d)

    def add_verus(self, unit, res, cex_finder=None, expect_fail=()):
        """Fold a VerusResult into the run. `expect_fail`: labels of vacuity probes (a copy of a function under the same precondition
        with `ensures false` added): each MUST fail, otherwise the precondition is contradictory and the real obligations say nothing."""
        self.cmds.append(res.cmd)
        self.solver_time_s += res.time_s
        for t in res.trusted:
            if t not in self.trusted:
                self.trusted.append(t)
        self.note_functions(unit.snippets)
        if res.hard:
            for h in res.hard[:5]:
                self.undecided.append("verus unit %s: %s (label=%s line=%s)" % (unit.name, h["msg"][:300], h.get("label"), h.get("line")))
            return
        if res.rlimit:
            self.undecided.append("verus unit %s: resource limit: %s" % (unit.name, res.rlimit[0][:200]))
            return
        if not res.canary_rejected:
            self.undecided.append("verus unit %s: canary `ensures false` was NOT rejected (vacuous context or verifier did not run)" % unit.name)
            return
        failed_labels = set()
        probes_hit = set()
        for f in res.failed:
            if f["label"] in expect_fail:
                probes_hit.add(f["label"])
        for lab in expect_fail:
            if lab not in probes_hit:
                self.undecided.append("verus unit %s: vacuity probe %s was NOT rejected: its precondition is contradictory or unreachable" % (unit.name, lab))
        if expect_fail:
            self.extra.setdefault("vacuity_probes_rejected", []).extend(sorted(probes_hit))
        for f in res.failed:
            if f["label"] in expect_fail:
                continue
            lab = f["label"] or ("prelude@%d" % f["line"])
            failed_labels.add(lab)
            key = "%s|%s|%s" % (lab, f["kind"], f["expr"][:120])
            self.failed.append({"key": key, "backend": "verus", "detail": f, "unit": unit.name, "cex_finder": cex_finder})
        n_fail_fns = len(failed_labels)
        self.n_obl += res.verified + n_fail_fns
        self.n_ok += res.verified
        if res.verified == 0:
            self.undecided.append("verus unit %s: zero functions verified" % unit.name)

    def add_obligation(self, key, backend, ok, detail=None, time_s=0.0, cex=None, cmd=None):
        self.n_obl += 1
        self.solver_time_s += time_s
        if cmd and cmd not in self.cmds:
            self.cmds.append(cmd)
        if ok:
            self.n_ok += 1
        else:
            self.failed.append({"key": key, "backend": backend, "detail": detail or {}, "cex": cex})

    def sample(self, s):
        if len(self.samples) < 12:
            self.samples.append(s)

    # ------------------------------------------------------------------
    def finish(self):
        """Print verdict lines, write evidence, return exit code."""
        wall = time.time() - self.t0
        known_keys = {k["key"]: k for k in self.known}
        known_hit = []
        violations = []
        for f in self.failed:
            if f["key"] in known_keys:
                known_hit.append(f)
            else:
                violations.append(f)
        code = 0
        lines = []
        explored = set()
        if self.tier == 'thorough':
            # thorough tier: the bounded real-code searches that are fallbacks in the quick tier always run
            names = set(n for (n, _) in self.explorations)
            self.explorations += [(n, f) for (n, f) in self.fallbacks if n not in names]
        for (name, fn) in self.explorations:
            # bounded exploration of the real code next to the proof: it covers what the contracts assume (callers, lexing, arms
            # outside the verified fragment). A failing input is a violation; finding none proves nothing and is not counted.
            try:
                cex = fn()
            except Exception as e:
                # the bounded part of this check could not run at all (e.g. the real code does not build): the check has not looked where
                # it says it looks, so it does not answer PASS
                cex = {"found": False, "note": "exploration failed to run: %r" % (e,)}
                self.undecided.append("bounded exploration `%s` failed to run: %s" % (name, str(e)[-300:].replace('\n', ' ')))
            explored.add(name)
            self.extra.setdefault("bounded_exploration_not_counted", []).append({"name": name, "found": bool(cex and cex.get("found")), "note": (cex or {}).get("note") or (cex or {}).get("verdict")})
            if cex and cex.get("findings") is not None:
                # several independent findings, each with its own key: listed ones are printed as KNOWN-FINDING, any other is a violation
                for fd in cex["findings"]:
                    key = "%s|replay-on-real-code|%s" % (name, fd["key"])
                    rec = {"key": key, "backend": "replay (bounded run-time-checked contract on the real code)",
                           "detail": {"msg": fd.get("verdict", "")}, "cex": dict(fd, found=True)}
                    if key in known_keys:
                        known_hit.append(rec)
                    else:
                        violations.append(rec)
                        self.n_obl += 1
                continue
            if cex and cex.get("found"):
                violations.append({"key": "%s|replay-on-real-code|%s" % (name, str(cex.get("verdict", ""))[:80]), "backend": "replay (bounded search on the real code)",
                                   "detail": {"msg": "bounded exploration of the real code found a failing input"}, "cex": cex})
                self.n_obl += 1
        self.fallbacks = [(n, f) for (n, f) in self.fallbacks if n not in explored]
        if self.undecided and not violations and self.fallbacks:
            # The deductive unit could not be assembled/decided (e.g. the code under contract was restructured). Before
            # answering "undecided", run the bounded replay search on the real code: a concrete failing input found there
            # is a true violation whatever the state of the proof; finding none decides nothing.
            for (name, fb) in self.fallbacks:
                try:
                    cex = fb()
                except Exception as e:
                    cex = {"found": False, "note": "fallback replay failed: %r" % (e,)}
                self.extra.setdefault("fallback_replay", []).append({"name": name, "found": bool(cex and cex.get("found")), "note": (cex or {}).get("note") or (cex or {}).get("verdict")})
                if cex and cex.get("found"):
                    violations.append({"key": "%s|replay-on-real-code|%s" % (name, str(cex.get("verdict", ""))[:80]), "backend": "replay (bounded search on the real code; the deductive unit was undecided: %s)" % '; '.join(self.undecided)[:300],
                                       "detail": {"msg": "deductive unit undecided: " + '; '.join(self.undecided)[:1500]}, "cex": cex})
                    self.n_obl += 1
                    break
        if self.undecided:
            code = 2
            for u in self.undecided:
                lines.append("UNDECIDED property=%s %s" % (self.pid, u))
        seen_known = set()
        for f in known_hit:
            if f["key"] in seen_known:
                continue
            seen_known.add(f["key"])
            lines.append("KNOWN-FINDING: property=%s %s -- %s" % (self.pid, f["key"], known_keys[f["key"]]["what"]))
        replay_dir = os.path.join(self.evidence_dir, 'replay')
        if os.path.isdir(replay_dir):
            for fn in os.listdir(replay_dir):
                if fn.startswith(self.pid + '-'):
                    try:
                        os.remove(os.path.join(replay_dir, fn))
                    except OSError:
                        pass
        vio_records = []
        if violations:
            # a violation found by a completed check is reported even if another part of the unit is undecided
            os.makedirs(replay_dir, exist_ok=True)
            code = 1
            for i, f in enumerate(violations[:25]):
                cex = f.get("cex")
                finder = f.get("cex_finder")
                if cex is None and finder is not None:
                    try:
                        cex = finder(f)
                    except Exception as e:  # replay machinery must never turn into a crash
                        cex = {"found": False, "note": "counterexample search failed: %r" % (e,)}
                rec = {
                    "property": self.pid,
                    "obligation": f["key"],
                    "backend": f["backend"],
                    "verifier_output": (f["detail"].get("rendered") or f["detail"].get("msg") or json.dumps(f["detail"])[:4000]) if isinstance(f["detail"], dict) else str(f["detail"]),
                    "counterexample": cex,
                    "repo": self.repo,
                }
                safe = re.sub(r'[^A-Za-z0-9_.-]+', '_', f["key"])[:80]
                path = os.path.join(replay_dir, "%s-%02d-%s.json" % (self.pid, i, safe))
                with open(path, 'w', encoding='utf-8') as fh:
                    json.dump(rec, fh, indent=1)
                found = bool(cex and cex.get("found"))
                lines.append("VIOLATION property=%s replay=%s obligation=%s%s" % (
                    self.pid, path, f["key"].replace(' ', '_'), "" if found else " no-failing-input-found"))
                vio_records.append(rec)
        for ln in lines:
            print(ln)
        level = self.level
        discharged = self.n_ok
        if level == 'proof' and (self.n_obl == 0 or discharged != self.n_obl):
            level = 'other'
        cov = {
            "obligations": self.n_obl,
            "discharged": discharged,
            "checker_cmd": ' ; '.join(self.cmds) if self.cmds else 'none',
            "trusted_base": self.trusted,
            "functions_under_contract": self.functions,
            "samples": self.samples or ["(no obligations)"],
            "solver_time_s": round(self.solver_time_s, 2),
            "known_findings_printed": sorted(seen_known),
            "failed_obligations": [f["key"] for f in self.failed][:50],
            "undecided": self.undecided,
            "explanation": self._explanation(level, discharged),
        }
        cov.update(self.extra)
        ev = {
            "property_id": self.pid,
            "tier": self.tier,
            "seed": self.seed,
            "level": level,
            "coverage": cov,
            "assumptions": self.assumptions,
            "wall_s": round(time.time() - self.t0, 2),
            "violations": len(violations) if code == 1 else 0,
        }
        os.makedirs(self.evidence_dir, exist_ok=True)
        with open(os.path.join(self.evidence_dir, '%s.json' % self.pid), 'w', encoding='utf-8') as fh:
            json.dump(ev, fh, indent=1)
        status = {0: "PASS", 1: "FAIL", 2: "UNDECIDED"}[code]
        wall = time.time() - self.t0
        print("%s property=%s tier=%s obligations=%d discharged=%d known=%d violations=%d wall=%.1fs" % (
            status, self.pid, self.tier, self.n_obl, discharged, len(seen_known), len(violations) if code == 1 else 0, wall))
        if not os.environ.get('VERIF_KEEP'):
            shutil.rmtree(self.scratch, ignore_errors=True)
        else:
            print('scratch kept: ' + self.scratch)
        return code

    def _explanation(self, level, discharged):
        s = "%d of %d obligations discharged" % (discharged, self.n_obl)
        if self.bounded_note:
            s += "; BOUNDED: " + self.bounded_note
        if level != 'proof' and self.level == 'proof':
            s += "; not reported at proof level because not every obligation was discharged on this run (known findings or undecided)"
        return s


def main_wrapper(fn, pid, argv):
    """Common CLI for unit scripts: handles tier/seed/exceptions -> exit codes."""
    tier = os.environ.get('VERIF_TIER', 'quick')
    replay = None
    i = 0
    while i < len(argv):
        if argv[i] == '--tier':
            tier = argv[i + 1]
            i += 2
        elif argv[i] == '--replay':
            replay = argv[i + 1]
            i += 2
        else:
            i += 1
    seed = int(os.environ.get('VERIF_SEED', '0') or 0)
    run = Run(pid, tier=tier, seed=seed)
    try:
        if replay:
            rec = json.load(open(replay, encoding='utf-8'))
            print("replaying obligation: %s" % rec.get("obligation"))
            cmd = (rec.get("counterexample") or {}).get("replay_cmd")
            if cmd:
                import subprocess
                print("$ " + cmd)
                p = subprocess.run(cmd, shell=True, capture_output=True, text=True)
                print(p.stdout.strip() or p.stderr.strip()[-500:])
                print("expected by oracle: %s" % (rec.get("counterexample") or {}).get("python_oracle", (rec.get("counterexample") or {}).get("oracle")))
            print("re-running the check on the current tree:")
        fn(run)
    except (Undecided, LostAnchor) as e:
        run.undecided.append("%s: %s" % (type(e).__name__, e))
    return run.finish()
