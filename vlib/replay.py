"""E-R: build and run replay binaries against the REAL crates of $ERG_REPO."""
import hashlib
import os
import shutil
import subprocess

from .driver import VERIF


def _crate_dir(run, deps):
    key = hashlib.sha256((run.repo + '|' + ','.join(sorted(deps))).encode()).hexdigest()[:12]
    d = os.path.join(run.cache, 'replay-' + key)
    os.makedirs(d, exist_ok=True)
    return d


DEP_PATHS = {
    'erg_common': 'crates/erg_common',
    'erg_parser': 'crates/erg_parser',
    'erg_compiler': 'crates/erg_compiler',
    'els': 'crates/els',
    'erg': '.',
}


def build(run, name, deps=('erg_common', 'erg_compiler'), cfg_hook=False, timeout=1800):
    """Build /verif/replay/src/<name>.rs against run.repo; returns path of the binary or raises."""
    d = _crate_dir(run, deps)
    toml = ['[package]', 'name = "erg_verif_replay"', 'version = "0.0.0"', 'edition = "2021"', '',
            '[workspace]', '', '[dependencies]']
    for dep in deps:
        toml.append('%s = { path = "%s" }' % (dep, os.path.join(run.repo, DEP_PATHS[dep])))
    toml += ['', '[[bin]]', 'name = "%s"' % name, 'path = "%s"' % os.path.join(VERIF, 'replay', 'src', name + '.rs'), '']
    with open(os.path.join(d, 'Cargo.toml'), 'w') as f:
        f.write('\n'.join(toml))
    lock = os.path.join(run.repo, 'Cargo.lock')
    if os.path.exists(lock) and not os.path.exists(os.path.join(d, 'Cargo.lock')):
        shutil.copy(lock, os.path.join(d, 'Cargo.lock'))
    env = dict(os.environ)
    env['CARGO_NET_OFFLINE'] = 'true'
    env['CARGO_TARGET_DIR'] = os.path.join(d, 'target')
    if cfg_hook:
        env['RUSTFLAGS'] = (env.get('RUSTFLAGS', '') + ' --cfg erg_verif').strip()
    p = subprocess.run(['cargo', 'build', '--offline', '--bin', name], cwd=d, env=env,
                       capture_output=True, text=True, timeout=timeout)
    if p.returncode != 0:
        raise RuntimeError("replay build failed: " + p.stderr[-1500:])
    return os.path.join(d, 'target', 'debug', name)


def run_lines(binary, lines, timeout=120):
    p = subprocess.run([binary], input='\n'.join(lines) + '\n', capture_output=True, text=True, timeout=timeout)
    return [ln for ln in p.stdout.split('\n') if ln.strip()]
