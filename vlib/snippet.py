"""Snippets: extracted Rust text + logged rewrites + marked splices.

Order is enforced: rewrites (R-rules, change executable text in a declared way) first,
then splices (contracts / invariants / proof hints: additions only, wrapped in markers).
self_check() strips all marked splices and compares with the rewritten base text.
"""
import re

from .extract import make_mask, match_close, fn_parts, split_match_arms, LostAnchor

MO = '/*@+*/'
MC = '/*@-*/'


class Undecided(Exception):
    """Machinery cannot decide (exit 2): lost anchor, unsupported construct, ..."""
    pass


def mark(s):
    return MO + s + MC


def strip_marks(text):
    out = []
    i = 0
    while True:
        a = text.find(MO, i)
        if a < 0:
            out.append(text[i:])
            break
        out.append(text[i:a])
        b = text.find(MC, a)
        if b < 0:
            raise Undecided("unbalanced splice marker")
        i = b + len(MC)
    return ''.join(out)


class Snippet:
    def __init__(self, span, label=None):
        self.span = span
        self.orig = span.text
        self.text = span.text
        self.base = None  # text after rewrites, frozen at first splice
        self.rewrites = []  # list of dict(rule, what, count)
        self.label = label or span.what
        self.klass = None
        self.splices = 0

    def copy(self, label=None):
        import copy
        c = copy.copy(self)
        c.rewrites = list(self.rewrites)
        if label:
            c.label = label
        return c

    # ------------------------------------------------------------------ rewrites
    def _need_unspliced(self):
        if self.base is not None:
            raise Undecided("rewrite after splice in %s" % self.label)

    def rw(self, rule, pattern, repl, expect=None, flags=0, code_only=True):
        """Regex rewrite (on code: matches that begin inside comments/literals are skipped)."""
        self._need_unspliced()
        mask = make_mask(self.text) if code_only else None
        cnt = 0
        samples = []
        out = []
        last = 0
        for m in re.finditer(pattern, self.text, flags):
            if code_only and mask[m.start()] != self.text[m.start()]:
                continue
            out.append(self.text[last:m.start()])
            new = m.expand(repl) if isinstance(repl, str) else repl(m)
            out.append(new)
            last = m.end()
            cnt += 1
            if len(samples) < 3:
                samples.append("%s => %s" % (' '.join(m.group(0).split())[:80], ' '.join(new.split())[:80]))
        out.append(self.text[last:])
        if expect is not None and not _expect_ok(expect, cnt):
            raise LostAnchor("%s: rewrite %s /%s/ applied %d times, expected %s" % (self.label, rule, pattern, cnt, expect))
        if cnt:
            self.text = ''.join(out)
            self.rewrites.append({"rule": rule, "pattern": pattern, "count": cnt, "samples": samples})
        return cnt

    def replace_range(self, rule, a, b, new, note):
        self._need_unspliced()
        old = self.text[a:b]
        self.text = self.text[:a] + new + self.text[b:]
        self.rewrites.append({"rule": rule, "pattern": note, "count": 1,
                              "samples": ["%s => %s" % (' '.join(old.split())[:80], ' '.join(new.split())[:80])]})

    def erase_arms(self, rule, pred, stub='ext_opaque_arm()', match_ordinal=0, drop_guard=True, pat_map=None):
        """R2: in the match_ordinal-th `match` of this fn, arms whose pattern satisfies
        pred(pattern_text) keep their pattern (minus guard) and get body `stub`."""
        self._need_unspliced()
        mask = make_mask(self.text)
        ms = [m for m in re.finditer(r'\bmatch\b', mask)]
        if match_ordinal >= len(ms):
            raise LostAnchor("%s: no match #%d" % (self.label, match_ordinal))
        i = ms[match_ordinal].end()
        while mask[i] != '{':
            if mask[i] in '([':
                i = match_close(mask, i)
            i += 1
        ob = i
        cb = match_close(mask, ob)
        body = self.text[ob:cb + 1]
        arms = split_match_arms(body)
        pieces = []
        last = 0
        erased = []
        for (ps, pe, bs, be) in arms:
            pat = body[ps:pe]
            if pred(pat):
                newpat = pat
                if drop_guard:
                    pm = make_mask(pat)
                    g = re.search(r'\bif\b', pm)
                    if g:
                        newpat = pat[:g.start()].rstrip() + ' '
                if pat_map is not None:
                    newpat = pat_map(newpat)
                pieces.append(body[last:ps])
                pieces.append(newpat)
                pieces.append(body[pe:bs])
                pieces.append(stub)
                if body[bs] == '{' and not body[be:].lstrip().startswith(','):
                    pieces.append(',')
                last = be
                erased.append(' '.join(pat.split())[:70])
        pieces.append(body[last:])
        if erased:
            self.text = self.text[:ob] + ''.join(pieces) + self.text[cb + 1:]
            self.rewrites.append({"rule": rule, "pattern": "arm erasure (pattern kept, body -> %s)" % stub,
                                  "count": len(erased), "samples": erased[:4]})
        return len(erased)

    # ------------------------------------------------------------------ splices
    def _freeze(self):
        if self.base is None:
            self.base = self.text

    def rename_fn(self, new):
        """Renaming for class copies. Treated as a splice-like edit: logged as rewrite."""
        self._need_unspliced()
        m = re.search(r'\bfn\s+(\w+)', self.text)
        old = m.group(1)
        self.text = self.text[:m.start(1)] + new + self.text[m.end(1):]
        self.rewrites.append({"rule": "class-copy", "pattern": "fn %s -> fn %s" % (old, new), "count": 1, "samples": []})
        return old

    def contract(self, spec, ret='res'):
        """Splice `-> (ret: T)` naming and a requires/ensures/decreases block before the body."""
        self._freeze()
        head, rt, where, body = fn_parts(self.text)
        if where.strip():
            raise Undecided("%s: where-clause on verified fn not handled" % self.label)
        if rt is None:
            sig = head + ' '
        else:
            sig = head + ' -> ' + mark('(%s: ' % ret) + rt + mark(')') + ' '
        spec = spec.strip()
        self.text = sig + (mark('\n' + spec + '\n') if spec else '') + body
        self.splices += 1

    def insert_ghost_params(self, params):
        """Splice ghost parameters (Ghost(..) only) at the end of the parameter list of the fn: an addition, marked."""
        self._freeze()
        if not all(('Ghost(' + p).startswith('Ghost(') and ': Ghost<' in p for p in params.split('Ghost(') if p.strip()) or not params.strip().startswith('Ghost('):
            raise Undecided("%s: only ghost parameters may be spliced" % self.label)
        mask = _mask_keep_marks(self.text)
        m = re.search(r'\bfn\s+\w+\s*(<[^>]*>)?\s*\(', mask)
        if not m:
            raise LostAnchor("%s: no parameter list" % self.label)
        cp = match_close(mask, m.end() - 1)
        k = cp
        while k > 0 and self.text[k - 1] in ' \t\n,':
            k -= 1
        self.text = self.text[:k] + mark(', ' + params) + self.text[k:]
        self.splices += 1

    def kani_attrs(self, attrs):
        """Splice attribute lines above the fn (Kani contracts)."""
        self._freeze()
        self.text = mark(attrs.rstrip() + '\n') + self.text
        self.splices += 1

    def loop_spec(self, ordinal, spec, body_prologue=None):
        """Splice invariant/decreases before the body of the ordinal-th loop (while/loop/for)
        counting in source order in the *base* text."""
        self._freeze()
        clean = self.text
        mask = _mask_keep_marks(clean)
        ms = [m for m in re.finditer(r'\b(while|loop|for)\b', mask)]
        if ordinal >= len(ms):
            raise LostAnchor("%s: no loop #%d" % (self.label, ordinal))
        i = ms[ordinal].end()
        while mask[i] != '{':
            if mask[i] in '([':
                i = match_close(mask, i)
            i += 1
        if body_prologue:
            # proof text as the first statement of the loop body (additions only, marked)
            self.text = clean[:i] + mark('\n' + spec.strip() + '\n') + clean[i] + mark('\n' + body_prologue.strip() + '\n') + clean[i + 1:]
        else:
            self.text = clean[:i] + mark('\n' + spec.strip() + '\n') + clean[i:]
        self.splices += 1

    def loop_body_end(self, ordinal, text):
        """Splice proof text as the last statement of the body of the ordinal-th loop."""
        self._freeze()
        mask = _mask_keep_marks(self.text)
        ms = [m for m in re.finditer(r'\b(while|loop|for)\b', mask)]
        if ordinal >= len(ms):
            raise LostAnchor("%s: no loop #%d" % (self.label, ordinal))
        i = ms[ordinal].end()
        while mask[i] != '{':
            if mask[i] in '([':
                i = match_close(mask, i)
            i += 1
        cb = match_close(mask, i)
        ls = cb
        while ls > 0 and self.text[ls - 1] in ' \t':
            ls -= 1
        self.text = self.text[:ls] + mark(text.rstrip() + '\n') + self.text[ls:]
        self.splices += 1

    def after_loop(self, ordinal, text):
        """Splice proof text right after the ordinal-th loop (after its closing brace)."""
        self._freeze()
        mask = _mask_keep_marks(self.text)
        ms = [m for m in re.finditer(r'\b(while|loop|for)\b', mask)]
        if ordinal >= len(ms):
            raise LostAnchor("%s: no loop #%d" % (self.label, ordinal))
        i = ms[ordinal].end()
        while mask[i] != '{':
            if mask[i] in '([':
                i = match_close(mask, i)
            i += 1
        cb = match_close(mask, i)
        k = self.text.find('\n', cb)
        k = len(self.text) if k < 0 else k + 1
        self.text = self.text[:k] + mark(text.rstrip() + '\n') + self.text[k:]
        self.splices += 1

    def insert_at(self, anchor_re, text, where='before', occurrence=0):
        """Splice proof text before/after the first line matching anchor_re (in code)."""
        self._freeze()
        mask = _mask_keep_marks(self.text)
        ms = [m for m in re.finditer(anchor_re, mask)]
        if occurrence >= len(ms):
            raise LostAnchor("%s: proof anchor /%s/ #%d not found" % (self.label, anchor_re, occurrence))
        m = ms[occurrence]
        if where == 'before':
            k = self.text.rfind('\n', 0, m.start()) + 1
        else:
            k = self.text.find('\n', m.end())
            k = len(self.text) if k < 0 else k + 1
        self.text = self.text[:k] + mark(text.rstrip() + '\n') + self.text[k:]
        self.splices += 1

    def insert_inline(self, anchor_re, text, occurrence=0):
        """Splice marked text (ghost arguments only: must start with `, Ghost(`) right after the occurrence-th match of anchor_re."""
        self._freeze()
        if not text.startswith(', Ghost('):
            raise Undecided("%s: only ghost arguments may be spliced inline" % self.label)
        mask = _mask_keep_marks(self.text)
        ms = [m for m in re.finditer(anchor_re, mask)]
        if occurrence >= len(ms):
            raise LostAnchor("%s: inline anchor /%s/ #%d not found" % (self.label, anchor_re, occurrence))
        k = ms[occurrence].end()
        self.text = self.text[:k] + mark(text) + self.text[k:]
        self.splices += 1

    def insert_at_end(self, text):
        """Splice proof text right before the closing brace of the fn body (after the last statement)."""
        self._freeze()
        mask = _mask_keep_marks(self.text)
        cb = mask.rfind('}')
        if cb < 0:
            raise LostAnchor("%s: no closing brace" % self.label)
        ls = cb
        while ls > 0 and self.text[ls - 1] in ' \t':
            ls -= 1
        self.text = self.text[:ls] + mark(text.rstrip() + '\n') + self.text[ls:]
        self.splices += 1

    def tail_ident(self):
        """Name of the local returned by the tail expression of the fn body (the body ends with a bare identifier)."""
        mask = _mask_keep_marks(self.text)
        cb = mask.rfind('}')
        m = re.search(r'(\b[a-z_]\w*)\s*$', mask[:cb])
        if not m or mask[:m.start()].rstrip()[-1:] not in (';', '}', '{'):
            raise LostAnchor("%s: the body does not end with a bare local" % self.label)
        return m.group(1)

    def insert_before_tail(self, text):
        """Splice proof text before the tail expression of the fn body (the last non-blank line before the closing brace), whatever
        the tail expression is called."""
        self._freeze()
        mask = _mask_keep_marks(self.text)
        cb = mask.rfind('}')
        if cb < 0:
            raise LostAnchor("%s: no closing brace" % self.label)
        k = cb
        # start of the last line (before the brace) that carries code
        while True:
            ls = self.text.rfind('\n', 0, k)
            if ls < 0:
                raise LostAnchor("%s: no tail expression" % self.label)
            line = mask[ls + 1:k]
            if line.strip():
                break
            k = ls
        self.text = self.text[:ls + 1] + mark(text.rstrip() + '\n') + self.text[ls + 1:]
        self.splices += 1

    def body_prologue(self, text):
        """Splice proof text right after the opening brace of the fn body."""
        self._freeze()
        mask = _mask_keep_marks(self.text)
        m = re.search(r'\bfn\s+\w+', mask)
        i = m.end()
        depth_ok = False
        while True:
            ch = mask[i]
            if ch in '([':
                i = match_close(mask, i) + 1
                continue
            if ch == '{':
                break
            i += 1
        self.text = self.text[:i + 1] + mark('\n' + text.rstrip() + '\n') + self.text[i + 1:]
        self.splices += 1

    # ------------------------------------------------------------------ checks
    def self_check(self):
        base = self.base if self.base is not None else self.text
        if strip_marks(self.text) != base:
            raise Undecided("%s: splice self-check failed (executable text changed by a splice)" % self.label)

    def describe(self):
        d = self.span.describe()
        d["unit_label"] = self.label
        d["rewrites"] = [{"rule": r["rule"], "what": r["pattern"], "count": r["count"]} for r in self.rewrites]
        return d


def _expect_ok(expect, cnt):
    if isinstance(expect, int):
        return cnt == expect
    if expect == '+':
        return cnt >= 1
    if expect == '*':
        return True
    return False


def _mask_keep_marks(text):
    """mask where spliced regions are blanked too (so ordinals/anchors refer to real code)."""
    mask = list(make_mask(text))
    # make_mask already blanks the comment markers themselves; blank between them:
    i = 0
    while True:
        a = text.find(MO, i)
        if a < 0:
            break
        b = text.find(MC, a)
        if b < 0:
            break
        for k in range(a, b + len(MC)):
            if mask[k] != '\n':
                mask[k] = ' '
        i = b + len(MC)
    return ''.join(mask)
