"""E-K: assemble a dependency-free Kani crate from extracted snippets + harness text and run it.

Each harness is one obligation. A harness without `#[kani::unwind]` whose log shows no unwinding
assertion and which ranges over full-domain `kani::any()` inputs is a complete proof ("loop-free");
anything else must be declared bounded by the unit.
"""
import concurrent.futures
import os
import re
import subprocess
import time

from .snippet import Snippet, Undecided

CARGO_TOML = """[package]
name = "%s"
version = "0.0.0"
edition = "2021"

[workspace]

[dependencies]

[lints.rust]
unexpected_cfgs = { level = "allow" }
"""


class KaniResult:
    def __init__(self, harness):
        self.harness = harness
        self.status = 'ERROR'      # SUCCESS | FAILURE | TIMEOUT | ERROR
        self.failed = []           # [(description, location)]
        self.covers = []           # [(description, status)]
        self.ignored = []          # Kani NaN lints (not Rust semantics)
        self.unwinding = False
        self.time_s = 0.0
        self.cmd = ''
        self.log_tail = ''
        self.cex = None            # dict var -> value (concrete playback)
        self.n_checks = 0


class KaniUnit:
    def __init__(self, name, workdir):
        self.name = name
        self.dir = os.path.join(workdir, 'kani_' + name)
        self.parts = []
        self.snippets = []
        self.harness_text = ''
        self.crate_attrs = ''

    def raw(self, text):
        if not text.endswith('\n'):
            text += '\n'
        self.parts.append(text)

    def add(self, sn: Snippet):
        sn.self_check()
        self.snippets.append(sn)
        self.parts.append(sn.text if sn.text.endswith('\n') else sn.text + '\n')

    def harness(self, text):
        self.harness_text += text if text.endswith('\n') else text + '\n'

    def write(self):
        os.makedirs(os.path.join(self.dir, 'src'), exist_ok=True)
        with open(os.path.join(self.dir, 'Cargo.toml'), 'w') as f:
            f.write(CARGO_TOML % ('kunit_' + self.name.lower()))
        body = "#![allow(dead_code, unused_variables, unused_imports, unused_mut, unreachable_patterns, unreachable_code, non_camel_case_types, non_snake_case, clippy::all)]\n"
        body += self.crate_attrs
        body += self._carried_std_uses(''.join(self.parts))
        body += ''.join(self.parts)
        body += "\n#[cfg(kani)]\nmod verif_harness {\n    use super::*;\n" + self.harness_text + "}\n"
        self.lib_path = os.path.join(self.dir, 'src', 'lib.rs')
        with open(self.lib_path, 'w') as f:
            f.write(body)
        self.has_unwind_attr = {}
        for m in re.finditer(r'((?:\s*#\[[^\]]*\]\s*)+)fn\s+(\w+)\s*\(', self.harness_text):
            self.has_unwind_attr[m.group(2)] = 'kani::unwind' in m.group(1)

    def _carried_std_uses(self, body):
        """`use std::...;` items of the source files the snippets come from are carried into the unit (a harmless edit that starts
        using e.g. `cmp::max` must not make the unit undecided). A name the unit already defines or imports is skipped."""
        files = []
        for sn in self.snippets:
            src = getattr(sn.span, 'src', None)
            if src is not None and src not in files:
                files.append(src)
        have = set(re.findall(r'\b(?:struct|enum|fn|trait|type|const|static|mod)\s+(\w+)', body))
        for m in re.finditer(r'(?m)^\s*(?:pub\s+)?use\s+([^;]+);', body):
            have.update(_use_names(m.group(1)))
        out = []
        for src in files:
            for m in re.finditer(r'(?m)^use\s+((?:std|core|alloc)::[^;]+);', src.text):
                path = ' '.join(m.group(1).split())
                for (leaf_path, name) in _use_leaves(path):
                    if name in have or name in ('self', '_'):
                        continue
                    have.add(name)
                    out.append("#[allow(unused_imports)] use %s;   // carried from %s\n" % (leaf_path, src.rel))
        return ''.join(out)

    def _cmd(self, harness, playback=False, extra=()):
        cmd = ['cargo', 'kani', '-Z', 'function-contracts', '-Z', 'stubbing', '--harness', harness]
        if playback:
            cmd += ['-Z', 'concrete-playback', '--concrete-playback=print']
        cmd += list(extra)
        return cmd

    def run_one(self, harness, timeout_s=600, playback=False, extra=()):
        r = KaniResult(harness)
        cmd = self._cmd(harness, playback, extra)
        r.cmd = 'CARGO_NET_OFFLINE=true ' + ' '.join(cmd)
        env = dict(os.environ)
        env['CARGO_NET_OFFLINE'] = 'true'
        t0 = time.time()
        try:
            p = subprocess.run(cmd, cwd=self.dir, env=env, capture_output=True, text=True, timeout=timeout_s)
            out = p.stdout + '\n' + p.stderr
        except subprocess.TimeoutExpired as e:
            r.status = 'TIMEOUT'
            r.time_s = time.time() - t0
            _kill_cbmc_for(self.dir)
            return r
        r.time_s = time.time() - t0
        r.log_tail = out[-3000:]
        parse_kani_output(out, r)
        return r

    def run(self, harnesses, jobs=8, timeout_s=600, extra=()):
        """Run all harnesses (first one alone so that the crate is compiled once)."""
        self.write()
        results = {}
        if not harnesses:
            return results
        first = harnesses[0]
        results[first] = self.run_one(first, timeout_s, extra=extra)
        if results[first].status == 'ERROR':
            # compilation problem: no point in running the rest
            for h in harnesses[1:]:
                rr = KaniResult(h)
                rr.log_tail = results[first].log_tail
                results[h] = rr
            return results
        rest = harnesses[1:]
        with concurrent.futures.ThreadPoolExecutor(max_workers=jobs) as ex:
            futs = {ex.submit(self.run_one, h, timeout_s, False, extra): h for h in rest}
            for fu in concurrent.futures.as_completed(futs):
                results[futs[fu]] = fu.result()
        return results


def _use_leaves(path):
    """`a::b::{c, d as e, self}` -> [('a::b::c', 'c'), ('a::b::d as e', 'e'), ('a::b', 'b')] (one level of braces; glob imports skipped)"""
    path = path.strip()
    m = re.match(r'^(.*)::\{(.*)\}$', path, re.S)
    if not m:
        if path.endswith('*'):
            return []
        mm = re.match(r'^(.*?)(?:\s+as\s+(\w+))?$', path)
        base = mm.group(1).strip()
        return [(path, mm.group(2) or base.split('::')[-1])]
    prefix, inner = m.group(1), m.group(2)
    if '{' in inner:
        return []
    res = []
    for item in inner.split(','):
        item = item.strip()
        if not item or item == '*':
            continue
        if item == 'self':
            res.append((prefix, prefix.split('::')[-1]))
            continue
        mm = re.match(r'^(.*?)(?:\s+as\s+(\w+))?$', item)
        base = mm.group(1).strip()
        res.append(("%s::%s" % (prefix, item), mm.group(2) or base.split('::')[-1]))
    return res


def _use_names(path):
    return [n for (_, n) in _use_leaves(path)]


def _kill_cbmc_for(d):
    try:
        out = subprocess.run(['pgrep', '-a', 'cbmc'], capture_output=True, text=True).stdout
        for ln in out.split('\n'):
            if d in ln:
                pid = int(ln.split()[0])
                os.kill(pid, 9)
    except Exception:
        pass


def parse_kani_output(out, r):
    checks = re.split(r'\nCheck \d+: ', out)
    r.n_checks = max(0, len(checks) - 1)
    for blk in checks[1:]:
        st = re.search(r'- Status: (\w+)', blk)
        de = re.search(r'- Description: "(.*?)"\n', blk, re.S)
        lo = re.search(r'- Location: (.*)', blk)
        status = st.group(1) if st else '?'
        desc = de.group(1) if de else ''
        loc = lo.group(1).strip() if lo else ''
        name = blk.split('\n', 1)[0]
        if '.cover.' in name or name.startswith('cover') or 'cover' in name.split('.')[-2:][0:1]:
            r.covers.append((desc, status))
            continue
        if 'unwinding assertion' in desc or 'unwind' in name:
            r.unwinding = True
        if status in ('FAILURE', 'UNDETERMINED'):
            if desc.startswith('NaN on '):
                # Kani's optional lint on float operations producing NaN; in Rust (and Python) such an
                # operation does not fail, it yields NaN, and the postconditions compare NaN results.
                r.ignored.append((desc, loc))
                continue
            r.failed.append((desc, loc))
    if re.search(r'VERIFICATION:- SUCCESSFUL', out):
        r.status = 'SUCCESS'
    elif re.search(r'VERIFICATION:- FAILED', out) and (re.search(r'CBMC failed|out of memory|CBMC timed out|exited with status', out) and not r.failed):
        r.status = 'ERROR'     # resource exhaustion of the back end: undecided, never an alarm
        r.log_tail = 'CBMC resource exhaustion: ' + out[-600:]
    elif re.search(r'VERIFICATION:- FAILED', out):
        r.status = 'FAILURE'
        if not r.failed and r.ignored and r.n_checks > 0 and 'CBMC failed' not in out and 'exited with status' not in out:
            r.status = 'SUCCESS'   # only ignorable NaN lints failed; every other check was reported SUCCESS
        elif not r.failed:
            m = re.search(r'Failed Checks: (.*)', out)
            r.failed.append((m.group(1) if m else 'unknown failed check', ''))
    else:
        r.status = 'ERROR'
    # concrete playback values
    # (Kani prints one test per failed check AND per satisfied cover: take the first one that belongs to a failed check)
    blocks = re.findall(r'Concrete playback unit test for `[^`]*`:\n```\n(.*?)```', out, re.S)
    pick = None
    for blk in blocks:
        if re.search(r'Check for `(?!cover)', blk):
            pick = blk
            break
    if pick is None and blocks and not any('Check for `' in b for b in blocks):
        pick = blocks[0]
    if pick is not None:
        vals = []
        for mm in re.finditer(r'//\s*(.+)\n\s*vec!\[([^\]]*)\]', pick):
            vals.append({"value": mm.group(1).strip(), "bytes": mm.group(2).strip()})
        chk = re.search(r'Check for `[^`]*`: "*([^"\n]*)', pick)
        r.cex = {"playback_values_in_order_of_kani_any_calls": vals, "for_check": chk.group(1) if chk else None}
