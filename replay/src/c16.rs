//! E-R replay for C16: runs the REAL jump_abs_addr / opcode tables / magic functions from $ERG_REPO.
//! stdin lines:  `jump <minor> <op> <idx> <arg>` | `op <308|309|310|311|common> <byte>` | `magic <u32>` | `isjump <byte>`
use erg_common::opcode::CommonOpcode;
use erg_common::opcode308::Opcode308;
use erg_common::opcode309::Opcode309;
use erg_common::opcode310::Opcode310;
use erg_common::opcode311::Opcode311;
use erg_common::serialize::{get_magic_num_bytes, get_magic_num_from_bytes, get_ver_from_magic_num};
use erg_compiler::ty::codeobj::jump_abs_addr;
use std::io::BufRead;
use std::panic;

fn main() {
    panic::set_hook(Box::new(|_| {}));
    for line in std::io::stdin().lock().lines() {
        let line = line.unwrap();
        let p: Vec<String> = line.split_whitespace().map(|s| s.to_string()).collect();
        if p.is_empty() {
            continue;
        }
        let res = panic::catch_unwind(move || match p[0].as_str() {
            "jump" => format!(
                "{}",
                jump_abs_addr(p[1].parse().unwrap(), p[2].parse().unwrap(), p[3].parse().unwrap(), p[4].parse().unwrap())
            ),
            "op" => {
                let b: u8 = p[2].parse().unwrap();
                match p[1].as_str() {
                    "308" => format!("{:?}", Opcode308::try_from(b)),
                    "309" => format!("{:?}", Opcode309::try_from(b)),
                    "310" => format!("{:?}", Opcode310::try_from(b)),
                    "311" => format!("{:?}", Opcode311::try_from(b)),
                    _ => format!("{:?}", CommonOpcode::try_from(b)),
                }
            }
            "isjump" => format!("{}", CommonOpcode::is_jump_op(p[1].parse().unwrap())),
            "magic" => {
                let m: u32 = p[1].parse().unwrap();
                let b = get_magic_num_bytes(m);
                format!("bytes={:?} back={} ver={:?}", b, get_magic_num_from_bytes(&b), get_ver_from_magic_num(m))
            }
            _ => "?".to_string(),
        });
        match res {
            Ok(s) => println!("{s}"),
            Err(e) => {
                let msg = e.downcast_ref::<String>().cloned().or_else(|| e.downcast_ref::<&str>().map(|s| s.to_string())).unwrap_or_default();
                println!("PANIC {msg}")
            }
        }
    }
}
