//! C31 (bounded): run-time-checked contracts on the REAL path normalisation of $ERG_REPO
//! (erg_common::cheap_canonicalize_path, normalize_path, pathutil::NormalizedPathBuf::new).
//! Enumerates every path made of up to <max_len> components from {".", "..", "a", "b"}, relative and absolute.
//! Reference: the lexical resolution of a path (what file it names when no symlink is involved).
//! args: <max_len>      output: one JSON line
use erg_common::pathutil::NormalizedPathBuf;
use erg_common::{cheap_canonicalize_path, normalize_path};
use std::collections::BTreeMap;
use std::path::PathBuf;

const ALPHA: [&str; 4] = [".", "..", "a", "b"];

/// independent reference: (absolute?, number of leading `..`, remaining normal components)
fn reference(abs: bool, comps: &[&str]) -> (bool, usize, Vec<String>) {
    let mut up = 0usize;
    let mut stack: Vec<String> = vec![];
    for c in comps {
        match *c {
            "." => {}
            ".." => {
                if stack.pop().is_none() && !abs {
                    up += 1; // cannot be resolved lexically: the path starts above its base directory
                }
            }
            n => stack.push(n.to_string()),
        }
    }
    (abs, up, stack)
}

fn leading_parents(p: &std::path::Path) -> usize {
    p.components().take_while(|c| matches!(c, std::path::Component::ParentDir)).count()
}

fn main() {
    let max_len: usize = std::env::args().nth(1).map(|s| s.parse().unwrap()).unwrap_or(6);
    let mut total = 0u64;
    let mut violations: Vec<String> = vec![];
    let mut classes: BTreeMap<PathBuf, (bool, usize, Vec<String>, String)> = BTreeMap::new();
    let mut samples: Vec<String> = vec![];
    let mut distinct_norm = 0u64;
    for len in 0..=max_len {
        let n = 4usize.pow(len as u32);
        for code in 0..n {
            let mut comps: Vec<&str> = vec![];
            let mut x = code;
            for _ in 0..len {
                comps.push(ALPHA[x % 4]);
                x /= 4;
            }
            for abs in [false, true] {
                let text = format!("{}{}", if abs { "/" } else { "" }, comps.join("/"));
                let text = if text.is_empty() { ".".to_string() } else { text };
                let path = PathBuf::from(&text);
                total += 1;
                let n1 = NormalizedPathBuf::new(path.clone());
                let n2 = NormalizedPathBuf::new(n1.to_path_buf());
                let c1 = cheap_canonicalize_path(&path);
                let c2 = cheap_canonicalize_path(&c1);
                let mut fail = |msg: String| {
                    if violations.len() < 6 {
                        violations.push(msg);
                    }
                };
                if n1.to_path_buf() != n2.to_path_buf() {
                    fail(format!("NormalizedPathBuf::new is not idempotent on {text:?}: {:?} then {:?}", n1.to_path_buf(), n2.to_path_buf()));
                }
                if c1 != c2 || normalize_path(normalize_path(c1.clone())) != normalize_path(c1.clone()) {
                    fail(format!("cheap_canonicalize_path/normalize_path is not idempotent on {text:?}: {c1:?} then {c2:?}"));
                }
                let r = reference(abs, &comps);
                if !abs && leading_parents(&n1.to_path_buf()) != r.1 {
                    fail(format!("leading `..` components discarded: {text:?} normalises to {:?}, which has {} leading `..`, the path has {}", n1.to_path_buf(), leading_parents(&n1.to_path_buf()), r.1));
                }
                match classes.get(&n1.to_path_buf()) {
                    None => {
                        distinct_norm += 1;
                        if samples.len() < 5 && len == max_len.min(4) && r.1 > 0 {
                            samples.push(format!("{text} -> {}", n1.to_path_buf().display()));
                        }
                        classes.insert(n1.to_path_buf(), (r.0, r.1, r.2, text.clone()));
                    }
                    Some((a0, u0, s0, t0)) => {
                        if (*a0, *u0, s0) != (r.0, r.1, &r.2) {
                            fail(format!("two different files are identified: {t0:?} and {text:?} both normalise to {:?}", n1.to_path_buf()));
                        }
                    }
                }
            }
        }
    }
    let esc = |s: &String| s.replace('\\', "\\\\").replace('"', "\\\"");
    println!(
        "{{\"max_len\": {max_len}, \"paths\": {total}, \"distinct_normal_forms\": {distinct_norm}, \"violations\": [{}], \"samples\": [{}]}}",
        violations.iter().map(|v| format!("\"{}\"", esc(v))).collect::<Vec<_>>().join(", "),
        samples.iter().map(|v| format!("\"{}\"", esc(v))).collect::<Vec<_>>().join(", ")
    );
}
