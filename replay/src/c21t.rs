//! E-R replay for C21 (tsort): the contract of the REAL `erg_common::tsort::tsort` of $ERG_REPO, checked at run time on EVERY graph
//! with n nodes (ids 0..n-1, in every rotation of the node vector) whose dependency sets are subsets of {0..n} (id n is never a
//! node: an unregistered dependency).
//!   Ok(r)                 : r is a permutation of the nodes, every node comes after all nodes it depends on (=> all dependencies are
//!                           nodes), and the graph has no cycle
//!   Err(CyclicReference)  : the graph has a cycle
//!   Err(KeyNotFound)      : some node reaches a dependency that is not a node
//!   and: a graph without cycle and without unregistered dependency is sorted (Ok)
//! args: <n>      output: one JSON line {"graphs":k,"violations":[...]} (first 5 violations)
use erg_common::set::Set;
use erg_common::tsort::{tsort, Node, TopoSortErrorKind};
use std::panic;

fn reach(deps: &[u32], n: usize, from: usize) -> u32 {
    // bit set of ids (0..=n) reachable from `from` in one or more steps
    let mut seen: u32 = 0;
    let mut stack = vec![from];
    while let Some(x) = stack.pop() {
        if x >= n {
            continue;
        }
        for d in 0..=n {
            if deps[x] & (1 << d) != 0 && seen & (1 << d) == 0 {
                seen |= 1 << d;
                stack.push(d);
            }
        }
    }
    seen
}

fn main() {
    panic::set_hook(Box::new(|_| {}));
    let n: usize = std::env::args().nth(1).and_then(|s| s.parse().ok()).unwrap_or(3);
    let width = n + 1;
    let total: u64 = 1u64 << (width * n);
    let mut graphs = 0u64;
    let mut vio: Vec<String> = vec![];
    for code in 0..total {
        let deps: Vec<u32> = (0..n).map(|i| ((code >> (i * width)) & ((1 << width) - 1)) as u32).collect();
        let cyc = (0..n).any(|i| reach(&deps, n, i) & (1 << i) != 0);
        let missing = (0..n).any(|i| reach(&deps, n, i) & (1 << n) != 0);
        for rot in 0..n {
            graphs += 1;
            let order: Vec<usize> = (0..n).map(|k| (k + rot) % n).collect();
            let g: Vec<Node<usize, ()>> = order
                .iter()
                .map(|&i| {
                    let mut s = Set::new();
                    for d in 0..=n {
                        if deps[i] & (1 << d) != 0 {
                            s.insert(d);
                        }
                    }
                    Node::new(i, (), s)
                })
                .collect();
            let desc = format!("nodes {:?} with dependencies {:?}", order, order.iter().map(|&i| (0..=n).filter(|d| deps[i] & (1 << d) != 0).collect::<Vec<_>>()).collect::<Vec<_>>());
            let res = panic::catch_unwind(move || tsort(g));
            let bad = match res {
                Err(_) => Some("tsort panics".to_string()),
                Ok(Ok(r)) => {
                    let ids: Vec<usize> = r.iter().map(|nd| nd.id).collect();
                    let mut sorted_ids = ids.clone();
                    sorted_ids.sort();
                    if sorted_ids != (0..n).collect::<Vec<_>>() {
                        Some(format!("Ok({ids:?}) is not a permutation of the nodes"))
                    } else if cyc {
                        Some(format!("Ok({ids:?}) although the graph has a cycle"))
                    } else {
                        let mut m = None;
                        for (a, nd) in r.iter().enumerate() {
                            for d in nd.depends_on.iter() {
                                if !ids[..a].contains(d) {
                                    m = Some(format!("Ok({ids:?}): {} is listed before its dependency {d}", nd.id));
                                }
                            }
                        }
                        m
                    }
                }
                Ok(Err(e)) => match e.kind {
                    TopoSortErrorKind::CyclicReference if !cyc => Some("Err(CyclicReference) although the graph has no cycle".to_string()),
                    TopoSortErrorKind::KeyNotFound if !missing => Some("Err(KeyNotFound) although every dependency is a node".to_string()),
                    _ => None,
                },
            };
            if let Some(b) = bad {
                if vio.len() < 5 {
                    vio.push(format!("{desc}: {b}"));
                }
            }
        }
    }
    let esc = |s: &String| s.replace('\\', "\\\\").replace('"', "\\\"");
    let v: Vec<String> = vio.iter().map(|s| format!("\"{}\"", esc(s))).collect();
    println!("{{\"graphs\":{graphs},\"violations\":[{}]}}", v.join(","));
}
