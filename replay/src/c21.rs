//! C21 (bounded): run-time-checked contracts on the REAL ModuleGraph / tsort of $ERG_REPO.
//! Enumerates ALL operation sequences up to a given length over a small universe of module paths, performs each
//! on the real graph and on a plain reference graph (sets of vertices and edges), and after every operation checks
//! the postconditions of the operation and every query against the reference.
//! args: <n_paths> <max_len> [raw]     (raw: also inc_ref with an unregistered target)     output: one JSON line
use erg_common::pathutil::NormalizedPathBuf;
use erg_compiler::module::graph::ModuleGraph;
use std::collections::{BTreeMap, BTreeSet};
use std::path::PathBuf;

#[derive(Clone, Copy, Debug, PartialEq)]
enum Op {
    Add(usize),
    Inc(usize, usize),
    /// inc_ref whose target has not been registered with add_node_if_none (the API allows it)
    IncRaw(usize, usize),
    Remove(usize),
    Rename(usize),
    Sort,
}

#[derive(Clone, Default, PartialEq, Eq, PartialOrd, Ord)]
struct Ref {
    nodes: BTreeSet<String>,
    edges: BTreeSet<(String, String)>,
}

impl Ref {
    fn reach(&self, from: &str) -> BTreeSet<String> {
        let mut seen = BTreeSet::new();
        let mut stack = vec![from.to_string()];
        while let Some(x) = stack.pop() {
            for (a, b) in self.edges.iter() {
                if a == &x && self.nodes.contains(a) && seen.insert(b.clone()) {
                    stack.push(b.clone());
                }
            }
        }
        seen
    }
    fn has_cycle(&self) -> bool {
        self.nodes.iter().any(|n| self.reach(n).contains(n))
    }
}

fn p(name: &str) -> NormalizedPathBuf {
    NormalizedPathBuf::new(PathBuf::from(format!("{name}.er")))
}

struct World {
    g: ModuleGraph,
    r: Ref,
    names: Vec<String>, // current name of universe slot i
    fresh: usize,
}

fn check(w: &World, universe: &[String], what: &str) -> Result<u64, String> {
    let mut n = 0u64;
    // representation: every registered module is found under its own path, nothing else is
    let ids: BTreeSet<String> = w.g.iter().map(|nd| nd.id.to_string_lossy().trim_end_matches(".er").to_string()).collect();
    if ids != w.r.nodes {
        return Err(format!("after {what}: registered modules {:?}, reference {:?}", ids, w.r.nodes));
    }
    for name in universe {
        let found = w.g.get_node(&p(name)).map(|nd| nd.id.to_string_lossy().trim_end_matches(".er").to_string());
        let want = if w.r.nodes.contains(name) { Some(name.clone()) } else { None };
        n += 1;
        if found != want {
            return Err(format!("after {what}: get_node({name}) = {found:?}, reference {want:?}"));
        }
    }
    for a in universe {
        let reach = w.r.reach(a);
        let is_node = w.r.nodes.contains(a);
        let anc: BTreeSet<String> = w.g.ancestors(&p(a)).iter().map(|x| x.to_string_lossy().trim_end_matches(".er").to_string()).collect();
        n += 1;
        if anc != reach {
            return Err(format!("after {what}: ancestors({a}) = {anc:?}, reference {reach:?}"));
        }
        let ch: BTreeSet<String> = w.g.children(&p(a)).map(|x| x.to_string_lossy().trim_end_matches(".er").to_string()).collect();
        let ch_ref: BTreeSet<String> = w.r.edges.iter().filter(|(x, y)| y == a && w.r.nodes.contains(x)).map(|(x, _)| x.clone()).collect();
        n += 1;
        if ch != ch_ref {
            return Err(format!("after {what}: children({a}) = {ch:?}, reference {ch_ref:?}"));
        }
        for b in universe {
            let d = w.g.depends_on(&p(a), &p(b));
            let d_ref = is_node && w.r.edges.contains(&(a.clone(), b.clone()));
            let dd = w.g.deep_depends_on(&p(a), &p(b));
            let dd_ref = reach.contains(b);
            n += 2;
            if d != d_ref {
                return Err(format!("after {what}: depends_on({a}, {b}) = {d}, reference {d_ref}"));
            }
            if dd != dd_ref {
                return Err(format!("after {what}: deep_depends_on({a}, {b}) = {dd}, reference {dd_ref}"));
            }
        }
    }
    Ok(n)
}

fn apply(w: &mut World, op: Op) -> Result<String, String> {
    match op {
        Op::Add(i) => {
            let a = w.names[i].clone();
            w.g.add_node_if_none(&p(&a));
            w.r.nodes.insert(a.clone());
            Ok(format!("add({a})"))
        }
        Op::Inc(i, j) | Op::IncRaw(i, j) => {
            let (a, b) = (w.names[i].clone(), w.names[j].clone());
            if matches!(op, Op::Inc(..)) {
                // the usual case: import edges are added between registered modules
                w.g.add_node_if_none(&p(&b));
                w.r.nodes.insert(b.clone());
            }
            let edges_before = w.r.edges.clone();
            let res = w.g.inc_ref(&p(&a), p(&b));
            w.r.nodes.insert(a.clone());
            let closes_cycle = a != b && (w.r.reach(&b).contains(&a));
            let what = format!("inc_ref({a} -> {b})");
            if a != b && !closes_cycle {
                w.r.edges.insert((a.clone(), b.clone()));
            }
            match (res.is_err(), closes_cycle) {
                (true, false) => return Err(format!("{what} refused although it closes no cycle")),
                (false, true) => return Err(format!("{what} accepted although it closes a cycle")),
                _ => {}
            }
            if closes_cycle && w.r.edges != edges_before {
                return Err(format!("{what}: reference bookkeeping error"));
            }
            Ok(what)
        }
        Op::Remove(i) => {
            let a = w.names[i].clone();
            w.g.remove(&p(&a));
            w.r.nodes.remove(&a);
            w.r.edges.retain(|(x, y)| x != &a && y != &a);
            Ok(format!("remove({a})"))
        }
        Op::Rename(i) => {
            let old = w.names[i].clone();
            let new = format!("r{}", w.fresh);
            w.fresh += 1;
            w.g.rename_path(&p(&old), p(&new));
            if w.r.nodes.remove(&old) {
                w.r.nodes.insert(new.clone());
            }
            let edges: BTreeSet<(String, String)> = w
                .r
                .edges
                .iter()
                .map(|(x, y)| (if x == &old { new.clone() } else { x.clone() }, if y == &old { new.clone() } else { y.clone() }))
                .collect();
            w.r.edges = edges;
            w.names[i] = new.clone();
            Ok(format!("rename({old} -> {new})"))
        }
        Op::Sort => {
            let dangling = w.r.edges.iter().any(|(_, y)| !w.r.nodes.contains(y));
            let taken = std::mem::take(&mut w.g);
            match taken.clone().sorted() {
                Ok(sorted) => {
                    if w.r.has_cycle() {
                        return Err("sorted() succeeded although the reference graph has a cycle".to_string());
                    }
                    let order: Vec<String> = sorted.iter().map(|nd| nd.id.to_string_lossy().trim_end_matches(".er").to_string()).collect();
                    let pos: BTreeMap<&String, usize> = order.iter().enumerate().map(|(k, v)| (v, k)).collect();
                    let set: BTreeSet<String> = order.iter().cloned().collect();
                    if set != w.r.nodes || order.len() != w.r.nodes.len() {
                        return Err(format!("sorted() lists {order:?}, registered modules are {:?}", w.r.nodes));
                    }
                    for (a, b) in w.r.edges.iter() {
                        if let (Some(pa), Some(pb)) = (pos.get(a), pos.get(b)) {
                            if pb > pa {
                                return Err(format!("sorted() = {order:?}: {a} is listed before its dependency {b}"));
                            }
                        }
                    }
                    w.g = sorted;
                }
                Err(e) => {
                    if !w.r.has_cycle() && !dangling {
                        return Err(format!("sorted() failed ({e}) although the reference graph is acyclic"));
                    }
                    w.g = taken;
                }
            }
            Ok("sort".to_string())
        }
    }
}

fn ops(n: usize, raw: bool) -> Vec<Op> {
    let mut v = vec![Op::Sort];
    for i in 0..n {
        v.push(Op::Add(i));
        v.push(Op::Remove(i));
        v.push(Op::Rename(i));
        for j in 0..n {
            v.push(Op::Inc(i, j));
            if raw {
                v.push(Op::IncRaw(i, j));
            }
        }
    }
    v
}

fn run_seq(seq: &[Op], n: usize) -> (Result<u64, String>, Ref, Vec<String>) {
    let mut w = World { g: ModuleGraph::new(), r: Ref::default(), names: (0..n).map(|i| format!("m{i}")).collect(), fresh: 0 };
    let mut checks = 0u64;
    let mut trace = vec![];
    for op in seq {
        match apply(&mut w, *op) {
            Ok(what) => {
                trace.push(what.clone());
                let mut universe: Vec<String> = (0..n).map(|i| format!("m{i}")).collect();
                universe.extend((0..w.fresh).map(|k| format!("r{k}")));
                match check(&w, &universe, &what) {
                    Ok(c) => checks += c,
                    Err(e) => return (Err(format!("{} | trace: {}", e, trace.join("; "))), w.r, trace),
                }
            }
            Err(e) => {
                trace.push(format!("{op:?}"));
                return (Err(format!("{} | trace: {}", e, trace.join("; "))), w.r, trace);
            }
        }
    }
    (Ok(checks), w.r, trace)
}

fn main() {
    std::panic::set_hook(Box::new(|_| {}));
    let args: Vec<String> = std::env::args().collect();
    let n: usize = args.get(1).map(|s| s.parse().unwrap()).unwrap_or(3);
    let max_len: usize = args.get(2).map(|s| s.parse().unwrap()).unwrap_or(4);
    let raw = args.get(3).map(|s| s == "raw").unwrap_or(false);
    let all = ops(n, raw);
    let mut seqs = 0u64;
    let mut checks = 0u64;
    let mut states: BTreeSet<Ref> = BTreeSet::new();
    let mut violations: Vec<String> = vec![];
    let mut samples: Vec<String> = vec![];
    let mut idx = vec![0usize; max_len];
    for len in 1..=max_len {
        idx.iter_mut().for_each(|x| *x = 0);
        loop {
            let seq: Vec<Op> = idx[..len].iter().map(|&k| all[k]).collect();
            // a panic of the real ModuleGraph (index out of bounds after a broken removal, ...) is a violation with this history
            let (res, r, trace) = match std::panic::catch_unwind(|| run_seq(&seq, n)) {
                Ok(x) => x,
                Err(_) => (Err(format!("the real ModuleGraph panics: a graph operation or query must not panic | trace: {:?}", seq)), Ref::default(), vec![]),
            };
            seqs += 1;
            match res {
                Ok(c) => checks += c,
                Err(e) => {
                    if violations.len() < 5 && !violations.iter().any(|v| v.split(" | ").next() == e.split(" | ").next()) {
                        violations.push(e);
                    }
                }
            }
            if !r.edges.is_empty() {
                if states.insert(r) && samples.len() < 3 && len == max_len {
                    samples.push(trace.join("; "));
                }
            }
            // next index vector
            let mut k = len;
            loop {
                if k == 0 {
                    break;
                }
                k -= 1;
                idx[k] += 1;
                if idx[k] < all.len() {
                    break;
                }
                idx[k] = 0;
                if k == 0 {
                    k = usize::MAX;
                    break;
                }
            }
            if k == usize::MAX {
                break;
            }
        }
    }
    let esc = |s: &String| s.replace('\\', "\\\\").replace('"', "\\\"");
    println!(
        "{{\"paths\": {n}, \"max_len\": {max_len}, \"ops\": {}, \"sequences\": {seqs}, \"checks\": {checks}, \"distinct_graphs_with_edges\": {}, \"violations\": [{}], \"samples\": [{}]}}",
        all.len(),
        states.len(),
        violations.iter().map(|v| format!("\"{}\"", esc(v))).collect::<Vec<_>>().join(", "),
        samples.iter().map(|v| format!("\"{}\"", esc(v))).collect::<Vec<_>>().join(", ")
    );
}
