//! E-R replay for C03: run-time-checked contract on the REAL refinement subtyping judgement of $ERG_REPO
//! (`Context::subtype_of` on `{I: Int | P}` / `{I: Int | Q}`, which goes through structural_supertype_of's refinement arm and
//! Context::is_super_pred_of). P and Q range over comparison atoms over the constants {-1, 0, 2}, all conjunctions and
//! disjunctions of two atoms (built with the real Predicate::and / Predicate::or), so that the compound arms of is_super_pred_of
//! ((And, And), (Or, Or), (lhs, And), (lhs, Or), (Or, rhs), (And, rhs)) are exercised; strict comparisons (the real Predicate::lt / gt),
//! negations (the real Predicate::invert of every compound) and the interval forms a..b, a<..b, a..<b, a<..<b (the real
//! constructors::int_interval) are included as well.
//! Contract (soundness only): if `{I | P} <: {I | Q}` is accepted then every integer of -6..=8 that satisfies P satisfies Q.
//! output: one JSON line {"pairs":n,"accepted":n,"violations":[{"pair":..,"witness":..}]}
use erg_compiler::context::Context;
use erg_compiler::ty::constructors::{int_interval, refinement};
use erg_compiler::ty::IntervalOp;
use erg_compiler::ty::{Predicate, TyParam, Type, ValueObj};

fn val(tp: &TyParam) -> Option<i64> {
    match tp {
        TyParam::Value(ValueObj::Int(i)) => Some(*i as i64),
        TyParam::Value(ValueObj::Nat(n)) => Some(*n as i64),
        _ => None,
    }
}

/// independent denotation of a predicate over one integer variable
fn sat(p: &Predicate, i: i64) -> Option<bool> {
    Some(match p {
        Predicate::Value(ValueObj::Bool(b)) => *b,
        Predicate::Equal { rhs, .. } => i == val(rhs)?,
        Predicate::NotEqual { rhs, .. } => i != val(rhs)?,
        Predicate::GreaterEqual { rhs, .. } => i >= val(rhs)?,
        Predicate::LessEqual { rhs, .. } => i <= val(rhs)?,
        Predicate::And(l, r) => sat(l, i)? && sat(r, i)?,
        Predicate::Or(ps) => {
            let mut any = false;
            for q in ps.iter() {
                any = any || sat(q, i)?;
            }
            any
        }
        Predicate::Not(q) => !sat(q, i)?,
        _ => return None,
    })
}

fn atoms() -> Vec<Predicate> {
    let mut v = vec![];
    for n in [-1, 0, 2] {
        let c = || TyParam::value(n);
        v.push(Predicate::eq("I".into(), c()));
        v.push(Predicate::ne("I".into(), c()));
        v.push(Predicate::ge("I".into(), c()));
        v.push(Predicate::le("I".into(), c()));
    }
    v
}

fn main() {
    let ctx = Context::default_with_name("<module>");
    let base = atoms();
    let mut preds = base.clone();
    for (i, a) in base.iter().enumerate() {
        for b in base.iter().skip(i + 1) {
            preds.push(Predicate::and(a.clone(), b.clone()));
            preds.push(Predicate::or(a.clone(), b.clone()));
        }
    }
    // strict comparisons and negations, built by the real constructors
    for n in [-1, 0, 2] {
        preds.push(Predicate::lt("I".into(), TyParam::value(n)));
        preds.push(Predicate::gt("I".into(), TyParam::value(n)));
    }
    let compound: Vec<Predicate> = preds.iter().filter(|p| matches!(p, Predicate::And(_, _) | Predicate::Or(_))).cloned().collect();
    for c in compound.iter() {
        preds.push(c.clone().invert());
    }
    let mut tys: Vec<(Type, Predicate)> = preds.iter().map(|p| (refinement("I".into(), Type::Int, p.clone()), p.clone())).collect();
    // interval forms: the refinement the real constructor builds (its own variable name; only the predicate matters to `sat`)
    for (l, r) in [(-1, 0), (-1, 2), (0, 2)] {
        for op in [IntervalOp::Closed, IntervalOp::LeftOpen, IntervalOp::RightOpen, IntervalOp::Open] {
            let t = int_interval(op, TyParam::value(l), TyParam::value(r));
            if let Type::Refinement(rf) = &t {
                let p = (*rf.pred).clone();
                tys.push((t.clone(), p));
            }
        }
    }
    let mut pairs = 0u64;
    let mut accepted = 0u64;
    let mut vio: Vec<(String, i64)> = vec![];
    for (sub_t, p) in tys.iter() {
        for (sup_t, q) in tys.iter() {
            pairs += 1;
            // only pairs where the implication does NOT hold on the sample range can be unsound acceptances
            let mut witness = None;
            let mut defined = true;
            for i in -6..=8 {
                match (sat(p, i), sat(q, i)) {
                    (Some(x), Some(y)) => {
                        if x && !y && witness.is_none() {
                            witness = Some(i);
                        }
                    }
                    _ => defined = false,
                }
            }
            if !defined {
                continue;
            }
            let res = ctx.subtype_of(sub_t, sup_t);
            if res {
                accepted += 1;
                if let Some(w) = witness {
                    if vio.len() < 40 {
                        vio.push((format!("{{I: Int | {p}}} <: {{I: Int | {q}}} is accepted"), w));
                    }
                }
            }
        }
    }
    let esc = |s: &String| s.replace('\\', "\\\\").replace('"', "\\\"");
    let mut out = format!("{{\"pairs\":{pairs},\"accepted\":{accepted},\"violations\":[");
    for (k, (pair, w)) in vio.iter().enumerate() {
        if k > 0 {
            out.push(',');
        }
        out.push_str(&format!("{{\"pair\":\"{}\",\"witness\":{}}}", esc(pair), w));
    }
    out.push_str("]}");
    println!("{out}");
}
