//! E-R replay for C15: REAL marshal writer (ValueObj::into_bytes, str/strs/raw_string_into_bytes) and REAL reader
//! (Deserializer::deserialize_const, CodeObj::from_pyc) of $ERG_REPO.
//! stdin lines:  `enc <value>` (Int:-3 | Nat:7 | Bool:true | None | Float:0x<bits> | Str:<hex utf8>)
//!               `dec <hex bytes>` | `pyc <hex bytes>` | `roundtrip <value>`
use erg_common::python_util::PythonVersion;
use erg_compiler::ty::codeobj::CodeObj;
use erg_compiler::ty::deserialize::Deserializer;
use erg_compiler::ty::ValueObj;
use std::io::BufRead;
use std::panic;

fn unhex(s: &str) -> Vec<u8> {
    (0..s.len() / 2).map(|i| u8::from_str_radix(&s[2 * i..2 * i + 2], 16).unwrap()).collect()
}
fn hex(b: &[u8]) -> String {
    b.iter().map(|x| format!("{x:02x}")).collect()
}
fn parse(s: &str) -> ValueObj {
    if s == "None" {
        return ValueObj::None;
    }
    let (k, v) = s.split_once(':').expect("value syntax");
    match k {
        "Int" => ValueObj::Int(v.parse().unwrap()),
        "Nat" => ValueObj::Nat(v.parse().unwrap()),
        "Bool" => ValueObj::Bool(v == "true"),
        "Float" => ValueObj::from(f64::from_bits(u64::from_str_radix(v.trim_start_matches("0x"), 16).unwrap())),
        "Str" => ValueObj::from(String::from_utf8(unhex(v)).unwrap()),
        _ => panic!("unknown value kind {k}"),
    }
}
fn show(v: &ValueObj) -> String {
    match v {
        ValueObj::Int(i) => format!("Int:{i}"),
        ValueObj::Nat(n) => format!("Nat:{n}"),
        ValueObj::Bool(b) => format!("Bool:{b}"),
        ValueObj::None => "None".to_string(),
        ValueObj::Float(f) => format!("Float:0x{:016x}", (**f).to_bits()),
        ValueObj::Str(s) => format!("Str:{}", hex(s.as_bytes())),
        ValueObj::List(l) | ValueObj::Tuple(l) => format!("Seq[{}]", l.iter().map(show).collect::<Vec<_>>().join(",")),
        other => format!("Other:{other}"),
    }
}

fn main() {
    panic::set_hook(Box::new(|_| {}));
    let ver = PythonVersion::new(3, Some(11), Some(0));
    for line in std::io::stdin().lock().lines() {
        let line = line.unwrap();
        let p: Vec<String> = line.split_whitespace().map(|s| s.to_string()).collect();
        if p.len() < 2 {
            continue;
        }
        let res = panic::catch_unwind(move || match p[0].as_str() {
            "enc" => hex(&parse(&p[1]).into_bytes(ver)),
            "dec" => {
                let mut v = unhex(&p[1]);
                match Deserializer::new().deserialize_const(&mut v, ver) {
                    Ok(val) => format!("Ok({}) rest={}", show(&val), v.len()),
                    Err(e) => format!("Err({})", e.desc),
                }
            }
            "roundtrip" => {
                let mut v = parse(&p[1]).into_bytes(ver);
                match Deserializer::new().deserialize_const(&mut v, ver) {
                    Ok(val) => format!("Ok({}) rest={}", show(&val), v.len()),
                    Err(e) => format!("Err({})", e.desc),
                }
            }
            "pyc" => {
                let path = std::env::temp_dir().join(format!("erg_verif_c15_{}.pyc", std::process::id()));
                std::fs::write(&path, unhex(&p[1])).unwrap();
                let r = CodeObj::from_pyc(&path);
                let _ = std::fs::remove_file(&path);
                match r {
                    Ok((c, v)) => format!("Ok(name={} ver=3.{})", c.name, v.minor.unwrap_or(0)),
                    Err(e) => format!("Err({})", e.desc),
                }
            }
            _ => "?".to_string(),
        });
        match res {
            Ok(s) => println!("{s}"),
            Err(e) => {
                let msg = e.downcast_ref::<String>().cloned().or_else(|| e.downcast_ref::<&str>().map(|s| s.to_string())).unwrap_or_default();
                println!("PANIC {}", msg.replace('\n', " "))
            }
        }
    }
}
