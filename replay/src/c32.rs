//! E-R replay for C32: the REAL Predicate::{and, or, invert, eq, ne, ge, le, gt, lt} of $ERG_REPO on all predicate
//! trees of bounded depth over the constants {-1, 0, 1, 2}; the set each predicate denotes is computed by the
//! independent evaluator below over the integers -4..=5 and compared with intersection / union / complement.
//! output: one JSON line
use erg_compiler::ty::{Predicate, TyParam, ValueObj};

fn val(tp: &TyParam) -> Option<i64> {
    match tp {
        TyParam::Value(ValueObj::Int(i)) => Some(*i as i64),
        TyParam::Value(ValueObj::Nat(n)) => Some(*n as i64),
        _ => None,
    }
}

/// independent denotation: does integer `i` satisfy `p`? None = a form outside the integer fragment
fn sat(p: &Predicate, i: i64) -> Option<bool> {
    Some(match p {
        Predicate::Value(ValueObj::Bool(b)) => *b,
        Predicate::Equal { rhs, .. } => i == val(rhs)?,
        Predicate::NotEqual { rhs, .. } => i != val(rhs)?,
        Predicate::GreaterEqual { rhs, .. } => i >= val(rhs)?,
        Predicate::LessEqual { rhs, .. } => i <= val(rhs)?,
        Predicate::And(l, r) => sat(l, i)? && sat(r, i)?,
        Predicate::Or(ps) => {
            let mut any = false;
            for q in ps.iter() {
                any = any || sat(q, i)?;
            }
            any
        }
        Predicate::Not(q) => !sat(q, i)?,
        _ => return None,
    })
}

fn c(n: i32) -> TyParam {
    TyParam::value(n)
}

fn atoms() -> Vec<Predicate> {
    let mut v = vec![Predicate::TRUE, Predicate::FALSE];
    for n in [-1, 0, 1, 2] {
        v.push(Predicate::eq("I".into(), c(n)));
        v.push(Predicate::ne("I".into(), c(n)));
        v.push(Predicate::ge("I".into(), c(n)));
        v.push(Predicate::le("I".into(), c(n)));
        v.push(Predicate::gt("I".into(), c(n)));
        v.push(Predicate::lt("I".into(), c(n)));
    }
    v
}

fn main() {
    let depth: usize = std::env::args().nth(1).map(|s| s.parse().unwrap()).unwrap_or(1);
    let base = atoms();
    let mut level = base.clone();
    for _ in 0..depth {
        let mut next = level.clone();
        for a in level.iter().take(40) {
            for b in base.iter() {
                next.push(Predicate::and(a.clone(), b.clone()));
                next.push(Predicate::or(a.clone(), b.clone()));
            }
            next.push(a.clone().invert());
        }
        level = next;
    }
    let mut checked = 0u64;
    let mut violation: Option<String> = None;
    'outer: for a in level.iter() {
        let inv = a.clone().invert();
        for i in -4..=5 {
            if let (Some(x), Some(y)) = (sat(a, i), sat(&inv, i)) {
                checked += 1;
                if y == x {
                    violation = Some(format!("invert: I = {i} {} both `{a}` and its inversion `{inv}`", if x { "satisfies" } else { "satisfies neither of" }));
                    break 'outer;
                }
            }
        }
        for b in base.iter() {
            let and = Predicate::and(a.clone(), b.clone());
            let or = Predicate::or(a.clone(), b.clone());
            for i in -4..=5 {
                if let (Some(x), Some(y), Some(z), Some(w)) = (sat(a, i), sat(b, i), sat(&and, i), sat(&or, i)) {
                    checked += 2;
                    if z != (x && y) {
                        violation = Some(format!("and: `{a}` and `{b}` gives `{and}`; at I = {i} operands are ({x}, {y}) but the result is {z}"));
                        break 'outer;
                    }
                    if w != (x || y) {
                        violation = Some(format!("or: `{a}` or `{b}` gives `{or}`; at I = {i} operands are ({x}, {y}) but the result is {w}"));
                        break 'outer;
                    }
                }
            }
        }
    }
    let esc = |s: &String| s.replace('\\', "\\\\").replace('"', "\\\"");
    println!(
        "{{\"predicates\": {}, \"checked\": {}, \"violation\": {}}}",
        level.len(),
        checked,
        violation.as_ref().map(|v| format!("\"{}\"", esc(v))).unwrap_or("null".to_string())
    );
}
