//! E-R replay for C24: run-time-checked contract on the diagnostics of the REAL checker of $ERG_REPO.
//! For every file given on stdin (one path per line) the program is lowered with erg_compiler's builder; for every error and
//! warning that belongs to that file the contract of a diagnostic is checked:
//!   * its location (and the location of every sub-message) lies inside the source: lines exist, columns are within the line
//!     (one past the end allowed: end of line / EOF), begin <= end;
//!   * rendering it (Display, the code-and-pointer block included) does not panic;
//!   * a NameError that highlights a single-line span highlights text that its message names.
//! output per file: one JSON line {"file":..,"diagnostics":n,"unknown_loc":n,"violations":[...]}
use erg_common::config::ErgConfig;
use erg_common::error::{ErrorDisplay, ErrorKind, Location};
use erg_common::io::Input;
use erg_common::traits::Stream;
use erg_compiler::error::CompileError;
use erg_compiler::HIRBuilder;
use std::io::BufRead;
use std::panic;
use std::path::PathBuf;

fn esc(s: &str) -> String {
    s.replace('\\', "\\\\").replace('"', "\\\"").replace('\n', " ").replace('\t', " ")
}

fn strip_ansi(s: &str) -> String {
    let mut out = String::new();
    let mut it = s.chars().peekable();
    while let Some(c) = it.next() {
        if c == '\u{1b}' {
            while let Some(&d) = it.peek() {
                it.next();
                if d == 'm' {
                    break;
                }
            }
        } else {
            out.push(c);
        }
    }
    out
}

fn check_loc(loc: Location, lines: &[Vec<char>], what: &str, vio: &mut Vec<String>) {
    let n = lines.len() as u32;
    // a location may name the line after the last one only for the end of input
    let line_ok = |ln: u32| ln >= 1 && ln <= n + 1;
    let width = |ln: u32| -> u32 {
        if ln >= 1 && ln <= n {
            lines[(ln - 1) as usize].len() as u32
        } else {
            0
        }
    };
    match loc {
        Location::Range { ln_begin, col_begin, ln_end, col_end } => {
            if !line_ok(ln_begin) || !line_ok(ln_end) {
                vio.push(format!("{what}: lines {ln_begin}..{ln_end} of a {n}-line file"));
            } else if ln_begin > ln_end || (ln_begin == ln_end && col_begin > col_end) {
                vio.push(format!("{what}: inverted span {ln_begin}:{col_begin}..{ln_end}:{col_end}"));
            } else if col_begin > width(ln_begin) + 1 || col_end > width(ln_end) + 1 {
                vio.push(format!(
                    "{what}: columns {ln_begin}:{col_begin}..{ln_end}:{col_end} outside the lines (widths {} and {})",
                    width(ln_begin),
                    width(ln_end)
                ));
            }
        }
        Location::LineRange(a, b) => {
            if !line_ok(a) || !line_ok(b) || a > b {
                vio.push(format!("{what}: line range {a}..{b} of a {n}-line file"));
            }
        }
        Location::Line(a) => {
            if !line_ok(a) {
                vio.push(format!("{what}: line {a} of a {n}-line file"));
            }
        }
        Location::Unknown => {}
    }
}

fn main() {
    panic::set_hook(Box::new(|_| {}));
    for line in std::io::stdin().lock().lines() {
        let path = line.unwrap();
        let path = path.trim().to_string();
        if path.is_empty() {
            continue;
        }
        let src = match std::fs::read_to_string(&path) {
            Ok(s) => s,
            Err(_) => continue,
        };
        let lines: Vec<Vec<char>> = src.replace("\r\n", "\n").split('\n').map(|l| l.chars().collect()).collect();
        let p2 = path.clone();
        let src2 = src.clone();
        let res = panic::catch_unwind(move || {
            let cfg = ErgConfig { input: Input::file(PathBuf::from(&p2)), ..ErgConfig::default() };
            let mut builder = HIRBuilder::new(cfg);
            let mut all: Vec<CompileError> = vec![];
            match builder.build(src2, "exec") {
                Ok(arti) => all.extend(arti.warns.into_iter()),
                Err(arti) => {
                    all.extend(arti.errors.into_iter());
                    all.extend(arti.warns.into_iter());
                }
            }
            all
        });
        let mut vio: Vec<String> = vec![];
        let mut n_diag = 0;
        let mut unknown = 0;
        match res {
            Err(_) => vio.push("the checker panicked on this file (not a diagnostic defect: reported for information)".to_string()),
            Ok(errs) => {
                for e in errs.iter() {
                    // only diagnostics of this very file can be compared with its text
                    if e.input.path().to_string_lossy() != path {
                        continue;
                    }
                    n_diag += 1;
                    let what = format!("{:?} #{} `{}`", e.core.kind, e.core.errno, esc(&strip_ansi(&e.core.main_message)).chars().take(60).collect::<String>());
                    if e.core.loc == Location::Unknown && e.core.sub_messages.iter().all(|s| s.loc == Location::Unknown) {
                        unknown += 1;
                    }
                    check_loc(e.core.loc, &lines, &what, &mut vio);
                    for sm in e.core.sub_messages.iter() {
                        check_loc(sm.loc, &lines, &format!("{what} (sub-message)"), &mut vio);
                    }
                    let e2 = e.clone();
                    match panic::catch_unwind(move || (format!("{e2}"), e2.show())) {
                        Err(_) => vio.push(format!("{what}: rendering the diagnostic panics")),
                        Ok((_, shown)) => {
                            // the code-and-pointer block of a single-line span: the pointer starts under column col_begin and is
                            // max(1, col_end - col_begin) marks long (columns count characters, whatever their width in bytes)
                            let loc = e.core.sub_messages.first().map(|s| s.loc).filter(|l| *l != Location::Unknown).unwrap_or(e.core.loc);
                            // a multi-line span: the first line is marked from col_begin to its end, the lines in between entirely, the last one
                            // up to col_end - always counted in characters, so the marks never run past the text they underline
                            if let Location::Range { ln_begin, col_begin, ln_end, col_end } = loc {
                                if ln_begin < ln_end && ln_begin >= 1 && (ln_end as usize) <= lines.len() {
                                    let plain = strip_ansi(&shown);
                                    let out: Vec<&str> = plain.split('\n').collect();
                                    for ln in ln_begin..=ln_end {
                                        let src_line: String = lines[(ln - 1) as usize].iter().collect();
                                        if src_line.contains('\t') {
                                            continue;
                                        }
                                        let head = format!("{ln} ");
                                        if let Some(k) = out.iter().position(|l| l.starts_with(&head) && l.ends_with(&src_line) && l.chars().count() > src_line.chars().count()) {
                                            if k + 1 < out.len() {
                                                let gutter = out[k].chars().count() - src_line.chars().count();
                                                let ptr: Vec<char> = out[k + 1].chars().skip(gutter).collect();
                                                let pad = ptr.iter().take_while(|c| **c == ' ').count();
                                                let mark = ptr.get(pad).copied();
                                                let run = ptr.iter().skip(pad).take_while(|c| Some(**c) == mark).count();
                                                let width = src_line.chars().count();
                                                let (want_pad, want_run) = if ln == ln_begin {
                                                    (col_begin as usize, std::cmp::max(1, width.saturating_sub(col_begin as usize)))
                                                } else if ln == ln_end {
                                                    (0, col_end as usize)
                                                } else {
                                                    (0, std::cmp::max(1, width))
                                                };
                                                if want_run > 0 && (pad != want_pad || run != want_run) {
                                                    vio.push(format!(
                                                        "{what}: line {ln} of the span {ln_begin}:{col_begin}..{ln_end}:{col_end} is marked at column {pad} with {run} marks, it has {width} characters ({want_run} marks expected at column {want_pad})"
                                                    ));
                                                }
                                            }
                                        }
                                    }
                                }
                            }
                            if let Location::Range { ln_begin, col_begin, ln_end, col_end } = loc {
                                if ln_begin == ln_end && ln_begin >= 1 && (ln_begin as usize) <= lines.len() {
                                    let src_line: String = lines[(ln_begin - 1) as usize].iter().collect();
                                    let plain = strip_ansi(&shown);
                                    let out: Vec<&str> = plain.split('\n').collect();
                                    let head = format!("{ln_begin} ");
                                    if let Some(k) = out.iter().position(|l| l.starts_with(&head) && l.ends_with(&src_line) && l.chars().count() > src_line.chars().count()) {
                                        if k + 1 < out.len() {
                                            let gutter = out[k].chars().count() - src_line.chars().count();
                                            let ptr: Vec<char> = out[k + 1].chars().skip(gutter).collect();
                                            let pad = ptr.iter().take_while(|c| **c == ' ').count();
                                            let mark = ptr.get(pad).copied();
                                            let run = ptr.iter().skip(pad).take_while(|c| Some(**c) == mark).count();
                                            let want = std::cmp::max(1, col_end.saturating_sub(col_begin)) as usize;
                                            if !src_line.contains('\t') && (pad != col_begin as usize || run != want) {
                                                vio.push(format!(
                                                    "{what}: the pointer is drawn at column {pad} with {run} marks, the span is {ln_begin}:{col_begin}..{col_end} ({want} marks)"
                                                ));
                                            }
                                        }
                                    }
                                }
                            }
                        }
                    }
                    if e.core.kind == ErrorKind::NameError {
                        let loc = e.core.sub_messages.first().map(|s| s.loc).filter(|l| *l != Location::Unknown).unwrap_or(e.core.loc);
                        if let Location::Range { ln_begin, col_begin, ln_end, col_end } = loc {
                            if ln_begin == ln_end && ln_begin >= 1 && (ln_begin as usize) <= lines.len() {
                                let l = &lines[(ln_begin - 1) as usize];
                                if (col_end as usize) <= l.len() && col_begin < col_end {
                                    let text: String = l[col_begin as usize..col_end as usize].iter().collect();
                                    let msg = strip_ansi(&e.core.main_message);
                                    let ident: String = text.trim().trim_start_matches('.').to_string();
                                    if !ident.is_empty() && ident.chars().all(|c| c.is_alphanumeric() || c == '_' || c == '!' || c == '\'') && !msg.contains(&ident) {
                                        vio.push(format!("{what}: the highlighted text `{}` is not named by the message", esc(&text)));
                                    }
                                }
                            }
                        }
                    }
                }
            }
        }
        let v: Vec<String> = vio.iter().take(10).map(|s| format!("\"{}\"", esc(s))).collect();
        println!("{{\"file\":\"{}\",\"diagnostics\":{},\"unknown_loc\":{},\"violations\":[{}]}}", esc(&path), n_diag, unknown, v.join(","));
    }
}
