//! E-R replay for C06: run-time-checked contract on the REAL `Context::subtype_of` of $ERG_REPO (builtin context), enumerated over a
//! bounded universe of types: the built-in value classes, all unions of 2 (and, with `deep`, 3) of them, all intersections of 2,
//! and value enums. Checked: reflexive, Never below / Obj above, the numeric tower, T <: (T or U), (T and U) <: T, enum below its
//! class, union semantics (a union is below S iff every alternative is; a type is below a union if it is below an alternative),
//! and transitivity over all triples of the universe.
//! args: [deep]   output: one JSON line {"types":n,"checks":n,"violations":[{"law":..,"detail":..}]}
use erg_common::set::Set;
use erg_compiler::context::Context;
use erg_compiler::ty::constructors::{and, or, v_enum};
use erg_compiler::ty::{Type, ValueObj};
use std::panic;

fn esc(s: &str) -> String {
    s.replace('\\', "\\\\").replace('"', "\\\"")
}

fn main() {
    let deep = std::env::args().nth(1).map(|s| s == "deep").unwrap_or(false);
    panic::set_hook(Box::new(|_| {}));
    let res = panic::catch_unwind(move || run(deep));
    match res {
        Ok(s) => println!("{s}"),
        Err(e) => {
            let msg = e.downcast_ref::<String>().cloned().or_else(|| e.downcast_ref::<&str>().map(|s| s.to_string())).unwrap_or_default();
            println!("{{\"types\":0,\"checks\":0,\"violations\":[{{\"law\":\"no crash\",\"detail\":\"PANIC {}\"}}]}}", esc(&msg.replace('\n', " ")))
        }
    }
}

fn run(deep: bool) -> String {
    use Type::{Bool, Complex, Float, Int, Nat, Never, NoneType, Obj, Ratio, Str};
    let ctx = Context::default_with_name("<module>");
    let tower = vec![Bool, Nat, Int, Ratio, Float, Complex];
    let classes = vec![Bool, Nat, Int, Ratio, Float, Complex, Str, NoneType];
    let mut uni: Vec<(Type, String)> = vec![];
    let push = |uni: &mut Vec<(Type, String)>, t: Type| {
        let name = format!("{t}");
        if !uni.iter().any(|(u, _)| *u == t) {
            uni.push((t, name));
        }
    };
    push(&mut uni, Never);
    push(&mut uni, Obj);
    for c in classes.iter() {
        push(&mut uni, c.clone());
    }
    // unions and intersections (raw constructors: no normalisation, as the checker itself builds them through union_add / `|`)
    let small = vec![Bool, Nat, Int, Float, Str, NoneType];
    let mut unions: Vec<(Type, Vec<Type>)> = vec![];
    for i in 0..small.len() {
        for j in 0..small.len() {
            if i == j {
                continue;
            }
            if i < j {
                unions.push((or(small[i].clone(), small[j].clone()), vec![small[i].clone(), small[j].clone()]));
            }
            if deep {
                for k in 0..small.len() {
                    if k != i && k != j && i < j && j < k {
                        unions.push((
                            or(or(small[i].clone(), small[j].clone()), small[k].clone()),
                            vec![small[i].clone(), small[j].clone(), small[k].clone()],
                        ));
                    }
                }
            }
        }
    }
    for (u, _) in unions.iter() {
        push(&mut uni, u.clone());
    }
    let mut inters: Vec<(Type, Vec<Type>)> = vec![];
    for i in 0..small.len() {
        for j in (i + 1)..small.len() {
            inters.push((and(small[i].clone(), small[j].clone()), vec![small[i].clone(), small[j].clone()]));
        }
    }
    for (u, _) in inters.iter() {
        push(&mut uni, u.clone());
    }
    // value enums / singletons with the class of their values
    let mk = |vs: Vec<ValueObj>| -> Type {
        let mut s = Set::new();
        for v in vs {
            s.insert(v);
        }
        v_enum(s)
    };
    let enums: Vec<(Type, Type)> = vec![
        (mk(vec![ValueObj::Nat(1)]), Nat),
        (mk(vec![ValueObj::Nat(1), ValueObj::Nat(2)]), Nat),
        (mk(vec![ValueObj::Int(-1)]), Int),
        (mk(vec![ValueObj::Int(-1), ValueObj::Int(3)]), Int),
        (mk(vec![ValueObj::Bool(true)]), Bool),
        (mk(vec![ValueObj::Str("a".into())]), Str),
        (mk(vec![ValueObj::Str("a".into()), ValueObj::Str("b".into())]), Str),
    ];
    for (e, _) in enums.iter() {
        push(&mut uni, e.clone());
    }
    let n = uni.len();
    let mut checks: u64 = 0;
    let mut vio: Vec<(String, String, String)> = vec![];   // (law, offending pair, how it is implied)
    let idx = |t: &Type| uni.iter().position(|(u, _)| u == t).unwrap();
    // the relation on the universe (each pair asked once)
    let mut sub = vec![vec![false; n]; n];
    for i in 0..n {
        for j in 0..n {
            sub[i][j] = ctx.subtype_of(&uni[i].0, &uni[j].0);
        }
    }
    let nm = |i: usize| uni[i].1.clone();
    for i in 0..n {
        checks += 3;
        if !sub[i][i] {
            vio.push(("reflexive".into(), format!("{} <: {} is rejected", nm(i), nm(i)), String::new()));
        }
        if !sub[idx(&Never)][i] {
            vio.push(("Never is below every type".into(), format!("Never <: {} is rejected", nm(i)), String::new()));
        }
        if !sub[i][idx(&Obj)] {
            vio.push(("Obj is above every type".into(), format!("{} <: Obj is rejected", nm(i)), String::new()));
        }
    }
    for w in tower.windows(2) {
        checks += 2;
        if !sub[idx(&w[0])][idx(&w[1])] {
            vio.push(("numeric tower".into(), format!("{} <: {} is rejected", w[0], w[1]), String::new()));
        }
        if sub[idx(&w[1])][idx(&w[0])] {
            vio.push(("numeric tower is strict".into(), format!("{} <: {} is accepted", w[1], w[0]), String::new()));
        }
    }
    for (u, alts) in unions.iter() {
        let ui = idx(u);
        for a in alts.iter() {
            checks += 1;
            if !sub[idx(a)][ui] {
                vio.push(("T <: (T or U)".into(), format!("{} <: {} is rejected", a, nm(ui)), String::new()));
            }
        }
        // union semantics against every S of the universe
        for s in 0..n {
            checks += 2;
            let all_alts = alts.iter().all(|a| sub[idx(a)][s]);
            if all_alts && !sub[ui][s] {
                vio.push(("a union whose alternatives are all below S is below S".into(), format!("{} <: {} is rejected", nm(ui), nm(s)), "every alternative of the union is accepted below it".into()));
            }
            let some_alt = alts.iter().any(|a| sub[s][idx(a)]);
            if some_alt && !sub[s][ui] {
                vio.push(("a type below an alternative is below the union".into(), format!("{} <: {} is rejected", nm(s), nm(ui)), "it is accepted below an alternative of the union".into()));
            }
        }
    }
    for (t, parts) in inters.iter() {
        let ti = idx(t);
        for a in parts.iter() {
            checks += 1;
            if !sub[ti][idx(a)] {
                vio.push(("(T and U) <: T".into(), format!("{} <: {} is rejected", nm(ti), a), String::new()));
            }
        }
    }
    for (e, class) in enums.iter() {
        checks += 1;
        if !sub[idx(e)][idx(class)] {
            vio.push(("an enum type of values is below the class of those values".into(), format!("{} <: {} is rejected", nm(idx(e)), class), String::new()));
        }
    }
    // transitivity over all triples
    for a in 0..n {
        for b in 0..n {
            if !sub[a][b] {
                continue;
            }
            for c in 0..n {
                checks += 1;
                if sub[b][c] && !sub[a][c] {
                    vio.push(("transitive".into(), format!("{} <: {} is rejected", nm(a), nm(c)), format!("{} <: {} and {} <: {} are accepted", nm(a), nm(b), nm(b), nm(c))));
                }
            }
        }
    }
    // one record per offending PAIR (the key of a finding) with the laws that imply the opposite answer
    let mut pairs: Vec<(String, Vec<String>, String)> = vec![];
    for (law, pair, why) in vio.iter() {
        match pairs.iter_mut().find(|(k, _, _)| k == pair) {
            Some((_, laws, _)) => {
                if !laws.contains(law) {
                    laws.push(law.clone())
                }
            }
            None => pairs.push((pair.clone(), vec![law.clone()], why.clone())),
        }
    }
    let mut out = format!("{{\"types\":{n},\"checks\":{checks},\"violations\":[");
    for (k, (pair, laws, why)) in pairs.iter().take(60).enumerate() {
        if k > 0 {
            out.push(',');
        }
        out.push_str(&format!("{{\"pair\":\"{}\",\"laws\":\"{}\",\"why\":\"{}\"}}", esc(pair), esc(&laws.join("; ")), esc(why)));
    }
    out.push_str(&format!("],\"n_violations\":{}}}", vio.len()));
    out
}
