//! E-R replay for C28: the REAL els::util::pos_to_byte_index (through the guarded hook els::verif_pos_to_byte_index).
//! stdin lines: `<hex of utf-8 source> <line> <character>`; output: the byte index, whether it is a char boundary, or PANIC;
//! then applies `String::replace_range(idx..idx, "X")` the way FileCache::incremental_update does.
use std::io::BufRead;
use std::panic;

fn unhex(s: &str) -> Vec<u8> {
    (0..s.len() / 2).map(|i| u8::from_str_radix(&s[2 * i..2 * i + 2], 16).unwrap()).collect()
}

fn main() {
    panic::set_hook(Box::new(|_| {}));
    for line in std::io::stdin().lock().lines() {
        let line = line.unwrap();
        let p: Vec<String> = line.split_whitespace().map(|s| s.to_string()).collect();
        if p.len() != 3 {
            continue;
        }
        let src = String::from_utf8(unhex(if p[0] == "-" { "" } else { &p[0] })).unwrap();
        let (l, c): (u32, u32) = (p[1].parse().unwrap(), p[2].parse().unwrap());
        let res = panic::catch_unwind(move || {
            let idx = els::verif_pos_to_byte_index(&src, l, c);
            let boundary = idx <= src.len() && src.is_char_boundary(idx);
            let mut code = src.clone();
            let edit = panic::catch_unwind(move || {
                code.replace_range(idx..idx, "X");
                code
            });
            format!("index={idx} char_boundary={boundary} edit={}", if edit.is_ok() { "ok" } else { "PANIC" })
        });
        match res {
            Ok(s) => println!("{s}"),
            Err(_) => println!("PANIC in pos_to_byte_index"),
        }
    }
}
