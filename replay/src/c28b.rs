//! C28 (bounded): run-time-checked contract on the REAL FileCache::incremental_update (guarded hook
//! els::verif_file_cache::open_and_change): after any didChange notification the server's copy equals the client's.
//! Enumerates every document of up to <max_doc> characters over {a, é, 𝒳, LF}, and every notification of one or two
//! content changes whose ranges have line <= 2, character <= 3 (start <= end) and whose new text is "", "x", LF or a quotation mark
//! (which leaves the document unlexable).
//! The client side is the LSP reference editor below (UTF-16 columns; a column past the end of a line means its end).
//! args: <max_doc>     output: one JSON line
use std::panic;

const ALPHA: [char; 4] = ['a', 'é', '𝒳', '\n'];
// `"` makes the document unlexable (unterminated string): the copy must be kept all the same
const TEXTS: [&str; 4] = ["", "x", "\n", "\""];

fn offset(doc: &str, line: u32, character: u32) -> usize {
    let mut start = 0usize;
    for _ in 0..line {
        match doc[start..].find('\n') {
            Some(i) => start += i + 1,
            None => return doc.len(),
        }
    }
    let line_end = doc[start..].find('\n').map_or(doc.len(), |i| start + i);
    let mut col = 0u32;
    for (i, c) in doc[start..line_end].char_indices() {
        if col >= character {
            return start + i;
        }
        col += c.len_utf16() as u32;
    }
    line_end
}

type Change = (u32, u32, u32, u32, String);

fn client_apply(doc: &mut String, ch: &Change) {
    let (s, e) = (offset(doc, ch.0, ch.1), offset(doc, ch.2, ch.3));
    let (s, e) = if s <= e { (s, e) } else { (e, s) };
    doc.replace_range(s..e, &ch.4);
}

fn main() {
    panic::set_hook(Box::new(|_| {}));
    let max_doc: usize = std::env::args().nth(1).map(|s| s.parse().unwrap()).unwrap_or(2);
    let mut positions = vec![];
    for l in 0..=2u32 {
        for c in 0..=3u32 {
            positions.push((l, c));
        }
    }
    let mut changes: Vec<Change> = vec![];
    for (i, s) in positions.iter().enumerate() {
        for e in positions.iter().skip(i) {
            for t in TEXTS {
                changes.push((s.0, s.1, e.0, e.1, t.to_string()));
            }
        }
    }
    let mut docs = vec![String::new()];
    let mut frontier = vec![String::new()];
    for _ in 0..max_doc {
        let mut next = vec![];
        for d in frontier.iter() {
            for a in ALPHA {
                let mut x = d.clone();
                x.push(a);
                next.push(x);
            }
        }
        docs.extend(next.iter().cloned());
        frontier = next;
    }
    let mut total = 0u64;
    let mut distinct = std::collections::BTreeSet::new();
    let mut violation: Option<String> = None;
    let mut samples: Vec<String> = vec![];
    'outer: for doc in docs.iter() {
        // single-change notifications: all; two-change notifications: all pairs for short documents, a strided subset otherwise
        let stride = if doc.chars().count() <= 1 { 1 } else { 7 };
        for (i, c1) in changes.iter().enumerate() {
            let second: Vec<Option<&Change>> = std::iter::once(None).chain(changes.iter().skip(i % stride).step_by(stride).map(Some)).collect();
            for c2 in second {
                let mut notif = vec![c1.clone()];
                if let Some(c2) = c2 {
                    notif.push(c2.clone());
                }
                let mut client = doc.clone();
                for ch in notif.iter() {
                    client_apply(&mut client, ch);
                }
                total += 1;
                let d = doc.clone();
                let n = notif.clone();
                let server = panic::catch_unwind(move || els::verif_file_cache::open_and_change(&d, &[n]));
                let bad = match &server {
                    Ok(s) if *s == client => None,
                    Ok(s) => Some(format!("server copy {s:?}, client copy {client:?}")),
                    Err(_) => Some("the server panics".to_string()),
                };
                distinct.insert(client.clone());
                if samples.len() < 4 && notif.len() == 2 && doc.chars().count() == max_doc && total % 997 == 0 {
                    samples.push(format!("{doc:?} + {notif:?} -> {client:?}"));
                }
                if let Some(b) = bad {
                    violation = Some(format!("document {doc:?}, one didChange with changes {notif:?}: {b}"));
                    break 'outer;
                }
            }
        }
    }
    let esc = |s: &String| s.replace('\\', "\\\\").replace('"', "\\\"").replace('\n', "\\n");
    println!(
        "{{\"max_doc\": {max_doc}, \"notifications\": {total}, \"distinct_results\": {}, \"violation\": {}, \"samples\": [{}]}}",
        distinct.len(),
        violation.as_ref().map(|v| format!("\"{}\"", esc(v))).unwrap_or("null".to_string()),
        samples.iter().map(|v| format!("\"{}\"", esc(v))).collect::<Vec<_>>().join(", ")
    );
}
