//! E-R replay for C11: the REAL lexer + parser of $ERG_REPO (erg_parser::lex::Lexer, erg_parser::parse::Parser, no desugaring) on operator
//! expressions. stdin lines: hex of the utf-8 expression text. For each line the expression is parsed twice, as the body of a definition
//! (`x = <e>`: Parser::try_reduce_expr) and as a statement of its own (`<e>`: Parser::try_reduce_chunk), and printed as an S-expression:
//! `D <sexpr>|C <sexpr>`; `ERR` where the parser reports errors, `PANIC msg` where it crashes.
use erg_common::traits::Stream;
use erg_parser::ast::{Accessor, Expr};
use erg_parser::lex::Lexer;
use erg_parser::parse::Parser;
use std::io::BufRead;
use std::panic;

fn unhex(s: &str) -> Vec<u8> {
    (0..s.len() / 2).map(|i| u8::from_str_radix(&s[2 * i..2 * i + 2], 16).unwrap()).collect()
}

fn sexpr(e: &Expr) -> String {
    match e {
        Expr::Literal(l) => l.token.content.to_string(),
        Expr::Accessor(Accessor::Ident(i)) => i.inspect().to_string(),
        Expr::Accessor(Accessor::Attr(a)) => format!("(. {} {})", sexpr(&a.obj), a.ident.inspect()),
        Expr::BinOp(b) => format!("({} {} {})", b.op.content, sexpr(&b.args[0]), sexpr(&b.args[1])),
        Expr::UnaryOp(u) => format!("(pre{} {})", u.op.content, sexpr(&u.args[0])),
        Expr::Call(c) => {
            let mut s = format!("(call {}", sexpr(&c.obj));
            if let Some(n) = &c.attr_name {
                s += &format!(" .{}", n.inspect());
            }
            for a in c.args.pos_args() {
                s += " ";
                s += &sexpr(&a.expr);
            }
            s + ")"
        }
        other => format!("<other:{}>", other.to_string().split_whitespace().collect::<Vec<_>>().join("")),
    }
}

fn parse_last(src: String) -> Result<Expr, String> {
    let ts = Lexer::from_str(src).lex().map_err(|(_, es)| format!("ERR lex {}", es.len()))?;
    let mut parser = Parser::new(ts);
    let art = parser.parse().map_err(|ia| format!("ERR parse {}", ia.errors.len()))?;
    art.ast.into_iter().last().ok_or_else(|| "ERR empty".to_string())
}

fn main() {
    panic::set_hook(Box::new(|_| {}));
    for line in std::io::stdin().lock().lines() {
        let line = line.unwrap();
        let src = String::from_utf8(unhex(line.trim())).unwrap();
        let res = panic::catch_unwind(move || {
            let d = match parse_last(format!("x = {src}\n")) {
                Ok(Expr::Def(def)) => def.body.block.into_iter().last().map(|e| sexpr(&e)).unwrap_or_else(|| "ERR nobody".into()),
                Ok(e) => format!("ERR notdef {}", sexpr(&e)),
                Err(e) => e,
            };
            let c = match parse_last(format!("{src}\n")) {
                Ok(e) => sexpr(&e),
                Err(e) => e,
            };
            format!("D {d}|C {c}")
        });
        match res {
            Ok(s) => println!("{s}"),
            Err(e) => {
                let msg = e.downcast_ref::<String>().cloned().or_else(|| e.downcast_ref::<&str>().map(|s| s.to_string())).unwrap_or_default();
                println!("PANIC {}", msg.replace('\n', " "))
            }
        }
    }
}
