//! E-R replay for C04: runs the REAL ValueObj::try_* from $ERG_REPO on concrete operands.
//! stdin: lines `op lhs rhs` with values `Int:-3`, `Nat:7`, `Bool:true`, `Float:<bits as u64 hex>`
//! stdout: one line per input: `Some(<value>)`, `None` or `PANIC <message>`.
use erg_compiler::ty::ValueObj;
use std::io::BufRead;
use std::panic;

fn parse(s: &str) -> ValueObj {
    let (k, v) = s.split_once(':').expect("value syntax");
    match k {
        "Int" => ValueObj::Int(v.parse().unwrap()),
        "Nat" => ValueObj::Nat(v.parse().unwrap()),
        "Bool" => ValueObj::Bool(v == "true"),
        "Float" => ValueObj::from(f64::from_bits(u64::from_str_radix(v.trim_start_matches("0x"), 16).unwrap())),
        _ => panic!("unknown value kind {k}"),
    }
}

fn show(v: &ValueObj) -> String {
    match v {
        ValueObj::Int(i) => format!("Int:{i}"),
        ValueObj::Nat(n) => format!("Nat:{n}"),
        ValueObj::Bool(b) => format!("Bool:{b}"),
        ValueObj::Float(f) => format!("Float:0x{:016x}", (**f).to_bits()),
        other => format!("Other:{other}"),
    }
}

fn main() {
    panic::set_hook(Box::new(|_| {}));
    let stdin = std::io::stdin();
    for line in stdin.lock().lines() {
        let line = line.unwrap();
        let parts: Vec<&str> = line.split_whitespace().collect();
        if parts.len() != 3 {
            continue;
        }
        let (op, l, r) = (parts[0].to_string(), parse(parts[1]), parse(parts[2]));
        let res = panic::catch_unwind(move || match op.as_str() {
            "try_add" => l.try_add(r),
            "try_sub" => l.try_sub(r),
            "try_mul" => l.try_mul(r),
            "try_div" => l.try_div(r),
            "try_floordiv" => l.try_floordiv(r),
            "try_mod" => l.try_mod(r),
            "try_pow" => l.try_pow(r),
            "try_gt" => l.try_gt(r),
            "try_ge" => l.try_ge(r),
            "try_lt" => l.try_lt(r),
            "try_le" => l.try_le(r),
            "try_eq" => l.try_eq(r),
            "try_ne" => l.try_ne(r),
            "try_or" => l.try_or(r),
            other => panic!("unknown op {other}"),
        });
        match res {
            Ok(Some(v)) => println!("Some({})", show(&v)),
            Ok(None) => println!("None"),
            Err(e) => {
                let msg = e
                    .downcast_ref::<String>()
                    .cloned()
                    .or_else(|| e.downcast_ref::<&str>().map(|s| s.to_string()))
                    .unwrap_or_default();
                println!("PANIC {msg}")
            }
        }
    }
}
