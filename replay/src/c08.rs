//! E-R replay for C08: the REAL lexer of $ERG_REPO (erg_parser::lex::Lexer) on a given source text.
//! stdin lines: hex of the utf-8 source. Output per line: `OK|ERR n_errors` then tokens `Kind@line:col_begin:<hex content>` or `PANIC msg`.
use erg_common::traits::{DequeStream, Stream};
use erg_parser::lex::Lexer;
use std::io::BufRead;
use std::panic;

fn unhex(s: &str) -> Vec<u8> {
    (0..s.len() / 2).map(|i| u8::from_str_radix(&s[2 * i..2 * i + 2], 16).unwrap()).collect()
}
fn hex(b: &[u8]) -> String {
    b.iter().map(|x| format!("{x:02x}")).collect()
}

fn main() {
    panic::set_hook(Box::new(|_| {}));
    for line in std::io::stdin().lock().lines() {
        let line = line.unwrap();
        let src = String::from_utf8(unhex(line.trim())).unwrap();
        let res = panic::catch_unwind(move || {
            let (ts, nerr) = match Lexer::from_str(src).lex() {
                Ok(ts) => (ts, 0),
                Err((ts, es)) => (ts, es.len()),
            };
            let toks: Vec<String> = ts.iter().map(|t| format!("{:?}@{}:{}:{}", t.kind, t.lineno, t.col_begin, hex(t.content.as_bytes()))).collect();
            format!("{} {} {}", if nerr == 0 { "OK" } else { "ERR" }, nerr, toks.join(" "))
        });
        match res {
            Ok(s) => println!("{s}"),
            Err(e) => {
                let msg = e.downcast_ref::<String>().cloned().or_else(|| e.downcast_ref::<&str>().map(|s| s.to_string())).unwrap_or_default();
                println!("PANIC {}", msg.replace('\n', " "))
            }
        }
    }
}
