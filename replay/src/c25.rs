//! E-R replay for C25: frames a message with the REAL Message::new + send_msg and decodes it with the REAL recv_msg
//! (through the guarded hook erg::verif_hooks::frame_and_decode).
//! stdin lines: `<inst u8> <payload length | none> <fill byte> <tail length>`
//! The tail is a second, well-formed frame [1, hi, lo, ...] so that "later results stay in step" can be observed.
use std::io::BufRead;

fn main() {
    for line in std::io::stdin().lock().lines() {
        let line = line.unwrap();
        let p: Vec<&str> = line.split_whitespace().collect();
        if p.len() != 4 {
            continue;
        }
        let inst: u8 = p[0].parse().unwrap();
        let fill: u8 = p[2].parse().unwrap();
        let data = if p[1] == "none" { None } else { Some(vec![fill; p[1].parse::<usize>().unwrap()]) };
        let tail_len: usize = p[3].parse().unwrap();
        let mut tail = vec![1u8, (tail_len / 256) as u8, (tail_len % 256) as u8];
        tail.extend(std::iter::repeat(0x5a).take(tail_len));
        let (written, first, second) = erg::verif_hooks::frame_and_decode(inst, data.clone(), &tail);
        let show = |d: &Result<(u8, u16, Option<Vec<u8>>), String>| match d {
            Ok((i, s, dat)) => format!(
                "Ok(inst={i},size={s},len={},sum={})",
                dat.as_ref().map_or(0, |v| v.len()),
                dat.as_ref().map_or(0u64, |v| v.iter().map(|b| *b as u64).sum())
            ),
            Err(e) => format!("Err({e})"),
        };
        println!(
            "written_len={} header={:?} first={} second={}",
            written.len(),
            &written[..written.len().min(3)],
            show(&first),
            show(&second)
        );
    }
}
